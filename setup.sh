#!/bin/sh
# setup_cmd: builds the fact extractor and warms the dependency metadata cache. Offline.
set -e
cd "$(dirname "$0")"
export CARGO_NET_OFFLINE=true
(cd engine/driver && cargo +nightly build --release --offline 2>&1 | tail -2)
# warm the dependency cache (metadata of the dependencies for the all-features config) and the
# positive-control crate; the result of this run is not evidence, every check re-extracts.
python3 - <<'PY'
import sys, os
sys.path.insert(0, os.path.join(os.getcwd(), 'engine'))
from hpkelint import framework
for cfg in ('all', 'default', 'none', 'all' + framework.NODEBUG):
    p, m = framework.extract_facts('/repo', cfg)
    print('facts', cfg, os.path.basename(p), m)
p, m = framework.extract_facts(os.path.join(os.getcwd(), 'fixtures', 'posctl'), 'default', crate='posctl')
print('facts posctl', os.path.basename(p), m)
PY
# warm the caches used by the type-level witness crate (C18) and the feature matrix (C17); results are not evidence
./check C18 > /dev/null 2>&1 || true
./check C17 > /dev/null 2>&1 || true
echo setup-ok
