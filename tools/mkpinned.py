#!/usr/bin/env python3
"""Freezes the function decomposition of the pinned tree: fixtures/pinned_bodies.json = body keys (and signatures of the
private functions) of /repo at the pinned commit, all features.  Functions that are *not* in this list are new private
helpers introduced by a later change; engine/hpkelint/normalize.py makes them transparent (rename detection + inlining)."""
import json, os, subprocess, sys, tempfile, shutil
HERE = os.path.dirname(os.path.dirname(os.path.abspath(__file__)))
sys.path.insert(0, os.path.join(HERE, 'engine'))
from hpkelint import framework

def main():
    commit = sys.argv[1] if len(sys.argv) > 1 else 'HEAD'
    d = tempfile.mkdtemp(prefix='hpke-verif-pinned-')
    try:
        subprocess.check_call('git -C /repo archive %s | tar -x -C %s' % (commit, d), shell=True)
        out = {}
        path, _ = framework.extract_facts(d, 'all')
        doc = json.load(open(path))
        from hpkelint.normalize import canonicalize_generics
        doc = canonicalize_generics(doc)
        out['hpke'] = sorted(b['key'] for b in doc['bodies'])
        out['hpke:sigs'] = {b['key']: b.get('sig') for b in doc['bodies'] if b.get('kind') in ('Fn', 'AssocFn') and not b.get('exported')}
        out['hpke:adts'] = {a['path']: [[f['name'], f['ty'], f.get('vis')] for v in a['variants'] for f in v['fields']] for a in doc['adts'] if a.get('kind') == 'Struct'}
        # constructor functions that build a struct directly from their parameters: field name -> parameter index
        ctors = {}
        for b in doc['bodies']:
            for blk in b['blocks']:
                for st in blk['stmts']:
                    rv = st.get('rv') or {}
                    if st.get('k') == 'assign' and rv.get('k') == 'aggregate' and rv.get('agg') == 'adt' and rv.get('adt') in out['hpke:adts'] and rv['adt'] not in ctors:
                        m = {}
                        from hpkelint.normalize import _param_of
                        for name, f in zip(rv.get('field_names') or [], rv.get('fields') or []):
                            pi = _param_of(b, f)
                            if pi is not None:
                                m[name] = pi
                        if m and len(m) == len(rv.get('field_names') or []):
                            ctors[rv['adt']] = {'key': b['key'], 'map': m}
        out['hpke:ctors'] = ctors
        out['commit'] = subprocess.check_output(['git', '-C', '/repo', 'rev-parse', commit], text=True).strip()
        with open(os.path.join(HERE, 'fixtures', 'pinned_bodies.json'), 'w') as f:
            json.dump(out, f, indent=0, sort_keys=True)
        print('pinned', len(out['hpke']), 'bodies of', out['commit'])
    finally:
        shutil.rmtree(d, ignore_errors=True)

main()
