#!/usr/bin/env python3
"""Evaluate independently written behaviour-preserving refactorings (precision test of the checks):

  tools/benigneval.py <dir with *.diff> [--tests] [--keep-silent]

For every diff: scratch copy of /repo (under /tmp, removed afterwards) + the patch, optionally the repository's own test
suite, then all 18 quick checks.  Any report is printed: it is either a false alarm of the checker (to be fixed) or the
refactoring is not behaviour-preserving after all (to be argued).  With --keep-silent the patches on which every check is
silent are copied to fixtures/benign_patches/ (the self-test then replays them on every run)."""
import concurrent.futures as cf
import glob
import importlib.machinery
import importlib.util
import os
import shutil
import sys

HERE = os.path.dirname(os.path.dirname(os.path.abspath(__file__)))
spec = importlib.util.spec_from_loader('selftest', importlib.machinery.SourceFileLoader('selftest', os.path.join(HERE, 'selftest')))
st = importlib.util.module_from_spec(spec)
spec.loader.exec_module(st)


def one(path, tests):
    d = st.make_scratch('/repo', [], path)
    try:
        alarms = {}
        for i in range(1, 19):
            p = 'C%02d' % i
            rc, out = st.run_check(p, d)
            if rc != 0:
                alarms[p] = [l[:400] for l in out.splitlines() if l.startswith(('VIOLATION R', 'UNDECIDED R', 'ANCHOR-LOST R', 'CHECKER-BROKEN'))][:4]
        t = None
        if tests:
            rc, out = st.run_tests(d)
            t = 'pass' if rc == 0 else 'FAIL'
        return os.path.basename(path), alarms, t
    finally:
        shutil.rmtree(d, ignore_errors=True)


def main():
    src = sys.argv[1]
    tests = '--tests' in sys.argv
    files = sorted(glob.glob(os.path.join(src, '*.diff')))
    for a in sys.argv[2:]:
        if a.startswith('--only='):
            pats = a[7:].split(',')
            files = [f for f in files if any(x in os.path.basename(f) for x in pats)]
    st.run_check('C04', '/repo')
    silent = []
    with cf.ThreadPoolExecutor(max_workers=8) as ex:
        for name, alarms, t in ex.map(lambda f: one(f, tests), files):
            print('%-14s tests=%s %s' % (name, t, 'silent' if not alarms else 'ALARMS ' + ' '.join(sorted(alarms))))
            for p, ls in sorted(alarms.items()):
                for l in ls:
                    print('      ', p, l)
            if not alarms and t != 'FAIL':
                silent.append(name)
    if '--keep-silent' in sys.argv:
        dst = os.path.join(HERE, 'fixtures', 'benign_patches')
        os.makedirs(dst, exist_ok=True)
        for n in silent:
            shutil.copy(os.path.join(src, n), os.path.join(dst, n))
    shutil.rmtree(os.path.join(HERE, '.cache', 'scratch'), ignore_errors=True)
    return 0


if __name__ == '__main__':
    sys.exit(main())
