#!/usr/bin/env python3
"""Regenerates /verif/MANIFEST.json from the table below (one place to keep claims honest).
A property is listed under `checks` only if its rule module exists; everything else goes to
`not_applicable` with its reason."""
import json
import os

HERE = os.path.dirname(os.path.dirname(os.path.abspath(__file__)))

COMMON_NOTE = ("Trusts rustc's MIR construction (nightly 1.97, mir-opt-level=0) and the dependency crates' documented "
               "behaviour; decides the structural clause named above for all inputs/histories, not the run-time "
               "behaviour of the primitives. Every rule is evaluated on the all-features MIR of the dev profile and of a "
               "build without cfg(debug_assertions) (what --release compiles); thorough repeats it on all 63 other "
               "feature subsets. Before any rule runs the fact document is normalised by MIR-to-MIR equivalences (canonical generic/"
               "lifetime/private-field names, new private helpers renamed back or inlined, `?`/map/map_err/ok_or/for_each expanded "
               "to explicit branches, one spelling per library operation), so verdicts do not depend on spelling; see DESIGN.md 10.8.")

CHECKS = {
    'C01': dict(
        technique='static analysis: sibling cross-check of provenance terms (sender vs receiver wiring), length algebra on MIR',
        text='Static analysis of the type-checked program. Decides that sender and receiver are wired symmetrically: both setups feed the same key-schedule function with (mode, KEM output, info); for each of the 4 KEMs and both branches encap and decap hand the same (ikm, kem_context) terms to ExtractAndExpand modulo DH commutativity; seal and open use the same nonce helper, aad and buffer wiring; ciphertext length = plaintext length + Nt; setup/context/single-shot bodies are parametric in A/Kdf/Kem (no concrete algorithm substituted). Does not decide that decrypt inverts encrypt or that HKDF/DH are deterministic (trusted base).'),
    'C02': dict(
        technique='static analysis: provenance terms of the key schedule / labeled KDF / suite ids compared with RFC 9180 reference terms and tables; bit-provenance of integer encoders; type-level size tables',
        text='Static analysis of the type-checked program against a hand-encoded RFC 9180 oracle (labels, orders, identifiers, sizes). Decides the wiring of LabeledExtract/LabeledExpand, suite_id, KeySchedule, mode bytes, ComputeNonce, Seal/Open/Export and the id/size tables for every input. Byte-exactness of HKDF, AES-GCM, ChaCha20Poly1305, SHA-2 and the curves is the trusted base.'),
    'C03': dict(
        technique='static analysis: provenance terms of Encap/Decap/AuthEncap/AuthDecap/DeriveKeyPair compared with RFC 9180 reference terms, per macro expansion and cross-checked between siblings',
        text='Static analysis of the four DHKEM expansions and the DH back-ends: ExtractAndExpand labels, dh and kem_context concatenation order, DeriveKeyPair labels/loop/bitmask/counter byte, gen_keypair = derive(random Nsk bytes), sizes per RFC Table 2. Curve arithmetic and point encoding are trusted.'),
    'C04': dict(
        technique='static analysis: MIR dataflow (provenance terms), CFG edge-dominance, per-return-path effect analysis, who-writes enumeration, bit-provenance of the counter encoder',
        text='Static analysis of the type-checked program (drop-elaborated MIR) of the current /repo tree. Decides, for every input and call history, the structural clause of the property: nonce = base XOR big-endian u64 counter in the last 8 bytes; overflow flag tested before the buffer is touched; exactly one counter update on each Ok path and none on Err paths; checked_add(1); monotone latch; only seal/open write the counter. The run-time behaviour of the AEAD primitives is not executed or modelled.'),
    'C05': dict(
        technique='static analysis: per-return-path effect analysis on MIR, CFG edge-dominance (overflow test first on every opening entry point), guard-shape recognition for the short-input check',
        text='Static analysis of the opening bodies and every entry point that takes the receiver context by `&mut`: no context write on any Err path, exactly one counter update on every Ok path after the AEAD verdict, Ok only on the AEAD-Ok edge, overflow test before every other failure, checked subtraction for the tag split. History-free per-call summary, hence all delivery histories. That a forged/out-of-order ciphertext fails the tag check is AEAD security (trusted).'),
    'C06': dict(
        technique='static analysis: parameter-to-sink dataflow on MIR (aad, tag, every ciphertext byte reach the AEAD verify call unmodified), must-check of the AEAD verdict',
        text='Static analysis: aad/tag/ciphertext parameters flow unmodified and whole into the AEAD decrypt call in every opening interface; the allocating open splits exactly once at len-Nt and uses the input in no other way; the tag is appended directly after the ciphertext by seal; the verdict is never dropped. That the AEAD rejects modified input is the trusted base.'),
    'C07': dict(
        technique='static analysis: inter-procedural dependence (backward slice) over MIR provenance terms with callee summaries; label-distinctness and fixed-width framing facts',
        text='Static analysis: key, base_nonce and exporter_secret each depend on mode, psk, psk_id, info, the shared secret and all three suite identifiers; every KEM shared secret depends on enc, the recipient key, the DH result(s) and the KEM id; export depends on the exporter secret, suite id, exporter context and length; labels are pairwise distinct per PRK and all key_schedule_context components have type-level fixed width. A missing dependence proves independence (violation); presence is necessary, not sufficient. That differing inputs give unrelated keys rests on HKDF collision/pre-image resistance (not decided).'),
    'C08': dict(
        technique='static analysis: AuthEncap/AuthDecap provenance terms vs RFC 9180 §4.1 per KEM expansion, decision tables of the mode->identity accessors, key-schedule slot dataflow',
        text='Static analysis: on the Some branch of the identity option, and only there, every KEM mixes the static-static DH term and pkSm exactly as AuthEncap/AuthDecap prescribe; Auth/AuthPsk yield the stored identity key material, Base/Psk yield None, and setup hands that option to encap/decap; psk and psk_id enter the key schedule in their RFC slots. Unforgeability itself (gap-DH, HKDF as PRF) is assumed, not decided.'),
    'C09': dict(
        technique='static analysis: guard dominance on the MIR CFG, allow-list of validating constructors, constructor-site enumeration (typestate), decision table of the length helper',
        text='Static analysis of the three NIST macro expansions and the four EncappedKey impls: the exact-length guard (expected = type-level OutputSize, given = len) is propagated and its success edge dominates the parser; the parser is an allow-listed validating RustCrypto constructor on the whole input, its error maps to ValidationError and its Ok payload is what is wrapped; every construction site of a key newtype wraps a validated source; enforce_equal_len decision table; dh only accepts the newtypes. Correctness of RustCrypto\'s validation itself (curve equation, canonical coordinates, scalar range) is the trusted base.'),
    'C10': dict(
        technique='static analysis: exhaustive decision table over the single zero-test atom, control dependence of Ok on it, must-check of every dh() result, inter-procedural error-set analysis with class-hierarchy resolution',
        text='Static analysis: X25519 dh compares the dalek DH output with 32 zero bytes and returns Err exactly on equality, Ok(that result) otherwise; all 16 dh call sites map the error to EncapError (encapsulation) / DecapError (decapsulation) and propagate it; setup_sender can only fail with EncapError and setup_receiver only with DecapError, and no context is built on failure. Which encodings give the zero output is curve25519 mathematics (trusted).'),
    'C15': dict(
        technique='static analysis: finite boolean abstraction of PskBundle::new enumerated exhaustively on the CFG (decision table), per-variant decision tables of the mode accessors, key-schedule slot dataflow, constructor-site enumeration',
        text='Static analysis: the complete truth table of PskBundle::new over the two emptiness atoms (exact for all byte strings since nothing else is branched on) is Ok iff both agree, else InvalidPskBundle; field order; which bundle field feeds which key-schedule input in Psk/AuthPsk mode and the empty defaults elsewhere; bundles are only built by the validating constructor.'),
    'C16': dict(
        technique='static analysis: ADT/Drop facts, must-pass-through of Zeroize::zeroize in every Drop body followed through the call graph to the zeroize crate, drop-elaborated MIR must-pass-through of the Drop terminator for the temporary key, leak-function enumeration',
        text='Static analysis of structure only: every secret-holding type has a Drop that zeroizes the whole buffer on all paths via the zeroize crate; the context stores the secrets in those types; no forget/ManuallyDrop/leak on them; the temporary AEAD key and the by-value shared secret are only borrowed and dropped on every path of the key schedule. What memory really contains after drop (compiler copies, registers, the AEAD\'s own key schedule) is not decidable statically and not claimed.'),
    'C17': dict(
        technique='static analysis: compile matrix by the compiler itself over feature subsets, API-surface fact comparison, canonical-MIR identity of shared bodies across subsets',
        text='The compiler type-checks the library for a pairwise-covering array of feature subsets (quick) or all 64 subsets x (lib, tests) plus examples/benches (thorough); the exported API surface of each analysed subset equals the expected table (in-place always, allocating iff alloc|std, each KEM iff its feature, std::error::Error iff std); every body shared between a subset and the all-features build has identical canonical MIR (or an identical view-erased provenance summary where only trait-method resolution differs), so there is no cfg-dependent code inside bodies; every concatenation buffer holds the largest pieces any enabled KEM/KDF/AEAD can put there (a KEM whose encapsulation runs out of buffer fails its own tests in every subset that enables it). Running each subset\'s tests and comparing run-time outputs is not done (run-time).'),
    'C18': dict(
        technique='static analysis: zero-count item enumerations with positive controls, callee allow/deny lists on resolved MIR calls, receiver/who-writes facts, RNG dataflow for the ephemeral key, compile-time Send+Sync+Freeze witnesses over all suites decided by rustc',
        text='Static analysis: no statics with state, thread-locals, interior mutability, or user unsafe anywhere in the crate; no ambient-state callee; export takes &self and writes nothing, all context writers take &mut self; the ephemeral key is derived from bytes drawn from the caller\'s RNG in the same call and that buffer has no other writer (iterator/closure writes included); no address-derived value (pointer-to-int cast, addr(), {:p}) exists anywhere; Send+Sync+Freeze of every public type for all AEAD x KDF x KEM combinations is decided by the type checker on a generated witness crate (with a non-vacuity twin). Data-race freedom and order independence then follow from Rust\'s guarantees for safe code; dependency crates are assumed free of hidden global state.'),
    'C11': dict(
        technique='static analysis: provenance term of export vs RFC 9180 §5.3, error-mapping and pass-through proof, single-writer enumeration + rustc Freeze witnesses (history independence), CFG divergence of the export-only AEAD',
        text='Static analysis: export is LabeledExpand(exporter_secret, "sec", ctx, L) on both roles with errors mapped to KdfOutputTooLong; it takes &self, the contexts are Freeze for all suites (compiler witness) and exporter_secret/suite_id are written only by the constructor, hence the result is independent of the call history; exporter_secret = LabeledExpand(secret, "exp", ksc, Nh); the HKDF length verdict is propagated unchanged, 255*Nh <= 65535, and any early length guard lets every L <= 255*Nh through for every KDF (simulated); export/key-schedule bodies are parametric in the suite; the export-only AEAD diverges on seal/open. The 255*Nh comparison itself lives in the hkdf crate (trusted) and output values are not computed.'),
    'C12': dict(
        technique='static analysis: type-level size table against RFC 9180 Table 2/5, guard-dominance on MIR for every from_bytes/write_exact impl, decision tables of the two length helpers',
        text='Static analysis: RFC sizes Npk/Nsk/Nenc/Ndh/Nt at type level for every Serializable impl; every from_bytes starts with the exact-length guard (expected = Self::OutputSize, given = len) dominating all other uses of the input, or delegates the whole input; every write_exact has a mechanism that panics exactly on a length mismatch before any partial write; helper decision tables; NIST keys are encoded uncompressed. The round-trip/canonicity clause (from_bytes(to_bytes(x)) == x) is numerical inside the dependency encoders and is not decided.'),
    'C13': dict(
        technique='static analysis: panic-site enumeration over the call-graph closure (CHA) of all exported/reachable functions on MIR; per-site discharge by structural rules (type-level lengths over all impls, guard dominance, concat-capacity arithmetic) or a frozen reasoned table; inter-procedural error-set analysis',
        text='Static analysis: every panic-capable MIR site (Assert terminators, unwrap/expect, slice indexing, copy_from_slice, split_at, array conversions, explicit panics, allocation) reachable from any exported or externally reachable function is enumerated; every other external callee must be in a reasoned panic-free table (fail closed); each site is discharged by one of nine structural rules quantifying over all Aead/Kdf/Kem impls, or is one of the frozen entries (write_exact\'s documented contract on the caller\'s own buffer, DeriveKeyPair exhaustion, export-only AEAD, allocation). Sender setup error set = {EncapError}, receiver = {DecapError}. Dependency crates are assumed panic-free for the calls used.'),
    'C14': dict(
        technique='static analysis: pass-through proof on MIR provenance terms (argument i -> parameter j, error identity, result identity), writer-sequence recognition for the allocating forms',
        text='Static analysis proving each single_shot_* body is exactly setup_* followed by one context-method call on the fresh context with its own parameters in order, errors and results unchanged, generic arguments passed through (no concrete Aead/Kdf/Kem named in suite-generic bodies), and that seal/open wrap the in-place forms (copy, in-place call on buf[..len], tag at [len..len+Nt) / split at len-Nt). Equivalence with the composed calls then holds for all inputs given the composed functions are functions of their arguments (C18).'),
}

# properties whose check is not (yet) registered
PENDING_REASON = 'rules under construction in this round (structural clause identified in DESIGN.md §5, check not yet registered)'


def main():
    props = [json.loads(l) for l in open(os.path.join(HERE, 'properties.jsonl'))]
    checks = []
    na = []
    served = []
    for p in props:
        pid = p['id']
        mod = os.path.join(HERE, 'engine', 'hpkelint', 'rules', pid.lower() + '.py')
        if pid in CHECKS and os.path.exists(mod):
            c = CHECKS[pid]
            served.append(pid)
            checks.append({
                'property_id': pid,
                'quick_cmd': './check %s --tier quick' % pid,
                'thorough_cmd': './check %s --tier thorough' % pid,
                'evidence_file': '/verif/evidence/%s.json' % pid,
                'replay_cmd_template': './check %s --explain {path}' % pid,
                'engine': c.get('engine', 'hpkelint'),
                'technique': c['technique'],
                'level_claimed': {'category': 'other', 'text': c['text'], 'design_ref': 'DESIGN.md §5 %s' % pid},
                'level_note': c.get('note', COMMON_NOTE),
            })
        else:
            na.append({'property_id': pid, 'reason': CHECKS.get(pid, {}).get('na_reason', PENDING_REASON)})
    m = {
        'version': 1,
        'setup_cmd': './setup.sh',
        'hooks': {
            'guard': 'hpke_verif',
            'enable': 'none needed: the static analysis reads the unmodified sources of /repo (no hooks were added)',
            'baseline_off_cmd': 'cd /repo && cargo test --workspace --no-fail-fast --offline',
            'source_commits': [],
            'add_only': True,
        },
        'engines': [
            {'name': 'hpke-facts', 'path': 'engine/driver', 'serves_properties': served,
             'kind_free_text': 'rustc_private driver (nightly): serialises MIR bodies, impls, ADTs, consts, unsafe sites and API surface of the crate to JSON; contains no rules'},
            {'name': 'hpkelint', 'path': 'engine/hpkelint', 'serves_properties': served,
             'kind_free_text': 'Python rule engine over the fact document: CFG/dominators, reaching definitions, provenance terms, memory writers, bit-provenance, error-set analysis, decision tables'},
        ],
        'checks': checks,
        'not_applicable': na,
        'notes': 'All checks are ./check <id> [--tier quick|thorough]; see DESIGN.md. Self-test of the checker: ./selftest '
                 '(seeded mutants in fixtures/mutants.py must be reported, benign edits in fixtures/benign.py must stay silent). '
                 'Genuine defect F1 (C05) was repaired in /repo by commit de59331 (see known_findings.json).',
    }
    with open(os.path.join(HERE, 'MANIFEST.json'), 'w') as f:
        json.dump(m, f, indent=1)
    print('checks:', served, ' not_applicable:', [x['property_id'] for x in na])


if __name__ == '__main__':
    main()
