#!/bin/sh
# Run the registered quick checks against a seeded change applied to /repo itself, then undo it.
#   tools/seedrun.sh <seeded-id> [Cxx ...]
set -u
cd "$(dirname "$0")/.."
id="$1"; shift
props="${*:-C01 C02 C03 C04 C05 C06 C07 C08 C09 C10 C11 C12 C13 C14 C15 C16 C17 C18}"
git -C /repo diff --quiet || { echo "/repo has uncommitted changes; refusing"; exit 2; }
git -C /repo apply "seeded/$id/patch.diff" || exit 2
trap 'git -C /repo checkout -- . ; git -C /repo status --short' EXIT
for p in $props; do
  ./check "$p" --tier quick | grep -E "^(VIOLATION property|OK property)" | head -3
done
