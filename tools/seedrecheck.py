#!/usr/bin/env python3
"""Re-runs all 18 quick checks against every seeded/<id>/patch.diff (scratch copies under /tmp, removed afterwards) and
records the outcome as `reported_by_now` in seeded/<id>/meta.json (`reported_by` stays what the checks said when the change
was first evaluated, i.e. before any strengthening it prompted)."""
import concurrent.futures as cf
import glob
import importlib.machinery
import importlib.util
import json
import os
import shutil
import subprocess
import sys

HERE = os.path.dirname(os.path.dirname(os.path.abspath(__file__)))
spec = importlib.util.spec_from_loader('selftest', importlib.machinery.SourceFileLoader('selftest', os.path.join(HERE, 'selftest')))
st = importlib.util.module_from_spec(spec)
spec.loader.exec_module(st)


def one(mf):
    m = json.load(open(mf))
    d = st.make_scratch('/repo', [], os.path.join(os.path.dirname(mf), 'patch.diff'))
    try:
        caught = {}
        for i in range(1, 19):
            p = 'C%02d' % i
            rc, out = st.run_check(p, d)
            if rc != 0:
                lines = [l for l in out.splitlines() if l.startswith(('VIOLATION R', 'UNDECIDED R', 'ANCHOR-LOST R', 'CHECKER-BROKEN'))]
                caught[p] = [l[:300] for l in lines[:6]]
        m['reported_by_now'] = caught
        with open(mf, 'w') as f:
            json.dump(m, f, indent=1)
        return m['id'], m['property'], sorted(caught)
    finally:
        shutil.rmtree(d, ignore_errors=True)


def main():
    only = sys.argv[1] if len(sys.argv) > 1 else ''
    mfs = [f for f in sorted(glob.glob(os.path.join(HERE, 'seeded', '*', 'meta.json'))) if only in f]
    st.run_check('C04', '/repo')
    bad = 0
    with cf.ThreadPoolExecutor(max_workers=10) as ex:
        for sid, prop, caught in ex.map(one, mfs):
            own = prop in caught
            bad += 0 if own else 1
            print('%-9s %s own=%s  %s' % (sid, prop, 'yes' if own else 'NO', ' '.join(caught)))
    shutil.rmtree(os.path.join(HERE, '.cache', 'scratch'), ignore_errors=True)
    return 1 if bad else 0


if __name__ == '__main__':
    sys.exit(main())
