#!/usr/bin/env python3
"""Evaluate an independently written breaking change (written by a sub-agent that saw only the
property text):

  tools/seedeval.py <seed_out dir> <id> <property>   [--keep]

1. confirms, in fresh scratch worktrees of /repo under /tmp, that the patch compiles and that the
   repository's own test suite still passes with it, that the demonstration passes on the clean
   tree and fails with the patch;
2. runs every registered check against the patched scratch tree and records which ones report it;
3. writes /verif/seeded/<id>/{patch.diff, demo.diff, notes.md, meta.json}.
Scratch worktrees and their build output are removed afterwards."""
import json
import os
import shutil
import subprocess
import sys
import tempfile

HERE = os.path.dirname(os.path.dirname(os.path.abspath(__file__)))
REPO = '/repo'
TGT = os.path.join(HERE, '.cache', 'target', 'seedeval')


def sh(cmd, cwd=None, env=None, timeout=3600):
    e = dict(os.environ, CARGO_NET_OFFLINE='true')
    if env:
        e.update(env)
    p = subprocess.run(cmd, cwd=cwd, env=e, shell=isinstance(cmd, str), stdout=subprocess.PIPE, stderr=subprocess.STDOUT, text=True, timeout=timeout)
    return p.returncode, p.stdout


def worktree():
    d = tempfile.mkdtemp(prefix='hpke-seedeval-')
    os.rmdir(d)
    rc, out = sh(['git', '-C', REPO, 'worktree', 'add', '-q', '--detach', d, 'HEAD'])
    if rc != 0:
        raise SystemExit('worktree add failed: ' + out)
    return d


def rm_worktree(d):
    sh(['git', '-C', REPO, 'worktree', 'remove', '--force', d])
    shutil.rmtree(d, ignore_errors=True)


def cargo_test(d, extra=''):
    return sh('cargo test --offline %s 2>&1 | tail -40' % extra, cwd=d, env={'CARGO_TARGET_DIR': TGT})


def main():
    src, sid, prop = sys.argv[1], sys.argv[2], sys.argv[3]
    patch = os.path.join(src, 'patch.diff')
    demo = os.path.join(src, 'demo.diff')
    meta = {'id': sid, 'property': prop, 'ran': []}
    ok = True
    # A: patch only -> existing suite passes
    a = worktree()
    try:
        rc, out = sh(['git', 'apply', patch], cwd=a)
        meta['patch_applies'] = rc == 0
        if rc != 0:
            print('PATCH DOES NOT APPLY\n' + out)
            ok = False
        else:
            rc, out = cargo_test(a)
            passed = rc == 0 and 'test result: ok' in out and 'FAILED' not in out
            meta['suite_passes_with_patch'] = passed
            meta['ran'].append('git apply patch.diff && cargo test --offline  -> %s' % ('pass' if passed else 'FAIL'))
            print('suite with patch:', 'pass' if passed else 'FAIL\n' + out[-1500:])
            ok = ok and passed
            rc2, out2 = sh('cargo check --offline --all-features --lib 2>&1 | tail -5', cwd=a, env={'CARGO_TARGET_DIR': TGT})
            meta['all_features_compile'] = 'error' not in out2
            # checks against the patched tree
            caught = {}
            for i in range(1, 19):
                p = 'C%02d' % i
                rc3, out3 = sh([os.path.join(HERE, 'check'), p, '--repo', a])
                lines = [l for l in out3.splitlines() if l.startswith(('VIOLATION R', 'UNDECIDED R', 'ANCHOR-LOST R', 'CHECKER-BROKEN'))]
                if rc3 != 0:
                    caught[p] = [l[:300] for l in lines[:6]]
            meta['reported_by'] = caught
            print('reported by:', {k: [x.split(':')[0] for x in v] for k, v in caught.items()} or 'NOTHING')
    finally:
        rm_worktree(a)
    # B: demo on the clean tree passes; C: demo + patch fails
    if os.path.exists(demo) and meta.get('patch_applies'):
        for label, with_patch in (('clean', False), ('patched', True)):
            b = worktree()
            try:
                rc, out = sh(['git', 'apply', demo], cwd=b)
                if rc != 0:
                    print('DEMO DOES NOT APPLY\n' + out)
                    meta['demo_applies'] = False
                    ok = False
                    break
                meta['demo_applies'] = True
                if with_patch:
                    rc, out = sh(['git', 'apply', patch], cwd=b)
                    if rc != 0:
                        print('patch does not apply on top of demo\n' + out)
                        ok = False
                        break
                names = open(demo).read()
                rc, out = cargo_test(b, os.environ.get('SEED_TEST_ARGS', ''))
                passed = rc == 0 and 'FAILED' not in out and 'test result: ok' in out
                meta['demo_%s' % label] = 'pass' if passed else 'fail'
                meta['ran'].append('git apply demo.diff%s && cargo test --offline %s -> %s' % (
                    ' patch.diff' if with_patch else '', os.environ.get('SEED_TEST_ARGS', ''), 'pass' if passed else 'fail'))
                print('demo on %s tree:' % label, 'pass' if passed else 'fail')
                if not passed and not with_patch:
                    print(out[-2000:])
            finally:
                rm_worktree(b)
        if meta.get('demo_clean') != 'pass' or meta.get('demo_patched') != 'fail':
            ok = False
    meta['confirmed'] = ok
    dst = os.path.join(HERE, 'seeded', sid)
    if ok or '--keep' in sys.argv:
        os.makedirs(dst, exist_ok=True)
        shutil.copy(patch, os.path.join(dst, 'patch.diff'))
        if os.path.exists(demo):
            shutil.copy(demo, os.path.join(dst, 'demo.diff'))
        if os.path.exists(os.path.join(src, 'notes.md')):
            shutil.copy(os.path.join(src, 'notes.md'), os.path.join(dst, 'notes.md'))
        with open(os.path.join(dst, 'meta.json'), 'w') as f:
            json.dump(meta, f, indent=1)
    print('CONFIRMED' if ok else 'NOT CONFIRMED', sid)
    return 0 if ok else 1


if __name__ == '__main__':
    sys.exit(main())
