#!/bin/sh
# usage: tools/scratch.sh <patch.diff>  -> prints a scratch copy of /repo (under /tmp) with the patch applied; remove it yourself
d=$(mktemp -d /tmp/hpke-verif-XXXXXX)
cp -r /repo/src /repo/Cargo.toml /repo/Cargo.lock /repo/benches /repo/examples $d/
(cd $d && patch -p1 -s < "$1") || exit 1
echo $d
