//! Item-level facts: impls, ADTs, statics/consts, unsafe sites, API surface, derived sizes.
use crate::json::J;
use crate::mirser::{body_key, span_j, ty_s};
use rustc_hir as hir;
use rustc_hir::def::DefKind;
use rustc_hir::intravisit::{self, Visitor};
use rustc_infer::infer::TyCtxtInferExt;
use rustc_middle::hir::nested_filter;
use rustc_middle::ty::print::PrintTraitRefExt;
use rustc_middle::ty::{self, Ty, TyCtxt, Unnormalized};
use rustc_span::def_id::{DefId, LOCAL_CRATE};
use rustc_trait_selection::infer::InferCtxtExt;
use std::collections::BTreeMap;

fn vis_s<'tcx>(tcx: TyCtxt<'tcx>, did: DefId) -> String {
    match tcx.visibility(did) {
        ty::Visibility::Public => "pub".to_string(),
        ty::Visibility::Restricted(m) => {
            if m.is_crate_root() {
                "pub(crate)".to_string()
            } else {
                format!("restricted({})", tcx.def_path_str(m))
            }
        }
    }
}

/// typenum::UInt<UInt<UTerm,B1>,B0> -> 2
pub fn typenum_usize<'tcx>(tcx: TyCtxt<'tcx>, t: Ty<'tcx>) -> Option<u64> {
    if let ty::Adt(def, args) = t.kind() {
        let name = tcx.item_name(def.did());
        let krate = tcx.crate_name(def.did().krate);
        if krate.as_str() != "typenum" {
            return None;
        }
        match name.as_str() {
            "UTerm" => return Some(0),
            "B0" => return Some(0),
            "B1" => return Some(1),
            "UInt" => {
                let hi = typenum_usize(tcx, args.type_at(0))?;
                let lo = typenum_usize(tcx, args.type_at(1))?;
                return Some(2 * hi + lo);
            }
            _ => return None,
        }
    }
    None
}

fn has_params<'tcx>(t: Ty<'tcx>) -> bool {
    use rustc_middle::ty::TypeVisitableExt;
    t.has_non_region_param()
}

struct UnsafeV<'tcx> {
    tcx: TyCtxt<'tcx>,
    out: Vec<J>,
}

impl<'tcx> Visitor<'tcx> for UnsafeV<'tcx> {
    type NestedFilter = nested_filter::All;
    fn maybe_tcx(&mut self) -> TyCtxt<'tcx> {
        self.tcx
    }
    fn visit_block(&mut self, b: &'tcx hir::Block<'tcx>) {
        if let hir::BlockCheckMode::UnsafeBlock(src) = b.rules {
            self.out.push(
                J::obj()
                    .set("kind", J::s("block"))
                    .set("user", J::Bool(matches!(src, hir::UnsafeSource::UserProvided)))
                    .set("span", span_j(self.tcx, b.span))
                    .set("exp", J::Bool(b.span.from_expansion()))
                    .set("derive", J::Bool(b.span.in_derive_expansion()))
                    .set("owner", J::s(body_key(self.tcx, b.hir_id.owner.to_def_id()))),
            );
        }
        intravisit::walk_block(self, b);
    }
}

pub fn collect<'tcx>(tcx: TyCtxt<'tcx>, doc: &mut J) {
    let mut impls = Vec::new();
    let mut adts = Vec::new();
    let mut statics = Vec::new();
    let mut consts = Vec::new();
    let mut unsafe_sites = Vec::new();
    let mut api = Vec::new();
    let mut traits = Vec::new();
    let mut interesting: BTreeMap<String, Ty<'tcx>> = BTreeMap::new();
    let ev = tcx.effective_visibilities(());

    for ldid in tcx.hir_crate_items(()).definitions() {
        let did = ldid.to_def_id();
        let kind = tcx.def_kind(did);
        // API surface
        if ev.is_exported(ldid)
            && matches!(
                kind,
                DefKind::Fn
                    | DefKind::AssocFn
                    | DefKind::Struct
                    | DefKind::Enum
                    | DefKind::Union
                    | DefKind::Trait
                    | DefKind::TyAlias
                    | DefKind::Const { .. }
                    | DefKind::AssocConst { .. }
                    | DefKind::AssocTy
                    | DefKind::Static { .. }
                    | DefKind::Mod
                    | DefKind::Variant
                    | DefKind::Field
            )
        {
            let mut a = J::obj()
                .set("path", J::s(tcx.def_path_str(did)))
                .set("key", J::s(body_key(tcx, did)))
                .set("kind", J::s(format!("{:?}", kind)));
            if matches!(kind, DefKind::Fn | DefKind::AssocFn) {
                let sig = tcx.fn_sig(did).instantiate_identity().skip_normalization().skip_binder();
                a.put("sig", J::s(format!("{}", sig)));
            }
            api.push(a);
        }
        match kind {
            DefKind::Impl { of_trait } => {
                let self_ty = tcx.type_of(did).instantiate_identity().skip_normalization();
                let mut im = J::obj();
                im.put("self_ty", J::s(ty_s(self_ty)));
                im.put("generic", J::Bool(has_params(self_ty)));
                im.put("generic_bounds", crate::mirser::generic_bounds(tcx, did));
                im.put("span", span_j(tcx, tcx.def_span(did)));
                let sp = tcx.def_span(did);
                im.put("derive", J::Bool(sp.in_derive_expansion()));
                im.put("exp", J::Bool(sp.from_expansion()));
                if of_trait {
                    let hdr = tcx.impl_trait_header(did);
                    let tr = hdr.trait_ref.instantiate_identity().skip_normalization();
                    im.put("trait", J::s(format!("{}", tr.print_only_trait_path())));
                    im.put("trait_def", J::s(tcx.def_path_str(tr.def_id)));
                    im.put("trait_crate", J::s(tcx.crate_name(tr.def_id.krate).as_str()));
                    im.put("unsafe", J::Bool(matches!(hdr.safety, hir::Safety::Unsafe)));
                    im.put("negative", J::Bool(!matches!(hdr.polarity, ty::ImplPolarity::Positive)));
                    if matches!(hdr.safety, hir::Safety::Unsafe) {
                        unsafe_sites.push(
                            J::obj()
                                .set("kind", J::s("impl"))
                                .set("user", J::Bool(!sp.in_derive_expansion()))
                                .set("span", span_j(tcx, sp))
                                .set("exp", J::Bool(sp.from_expansion()))
                                .set("derive", J::Bool(sp.in_derive_expansion()))
                                .set("owner", J::s(format!("impl {} for {}", tr.print_only_trait_path(), self_ty))),
                        );
                    }
                } else {
                    im.put("trait", J::Null);
                }
                if !has_params(self_ty) {
                    interesting.insert(ty_s(self_ty), self_ty);
                }
                let te = ty::TypingEnv::post_analysis(tcx, did);
                let mut cs = J::obj();
                let mut ts = J::obj();
                let mut fs = Vec::new();
                for &aid in tcx.associated_item_def_ids(did) {
                    let ai = tcx.associated_item(aid);
                    let name = ai.name().as_str().to_string();
                    match ai.kind {
                        ty::AssocKind::Const { .. } => {
                            let mut v = J::Null;
                            if let Ok(cv) = tcx.const_eval_poly(aid) {
                                if let Some(si) = cv.try_to_scalar_int() {
                                    let bits = si.to_bits(si.size());
                                    v = J::Int(bits as i128);
                                }
                            }
                            cs.put(name, v);
                        }
                        ty::AssocKind::Type { .. } => {
                            let raw = tcx.type_of(aid).instantiate_identity().skip_normalization();
                            let norm = tcx
                                .try_normalize_erasing_regions(te, Unnormalized::new_wip(raw))
                                .unwrap_or(raw);
                            let mut tj = J::obj().set("raw", J::s(ty_s(raw))).set("ty", J::s(ty_s(norm)));
                            match typenum_usize(tcx, norm) {
                                Some(n) => tj.put("usize", J::Int(n as i128)),
                                None => tj.put("usize", J::Null),
                            }
                            if !has_params(norm) {
                                interesting.insert(ty_s(norm), norm);
                            }
                            ts.put(name, tj);
                        }
                        ty::AssocKind::Fn { .. } => {
                            fs.push(J::obj().set("name", J::s(name)).set("key", J::s(body_key(tcx, aid))));
                        }
                    }
                }
                im.put("consts", cs);
                im.put("types", ts);
                im.put("fns", J::Arr(fs));
                impls.push(im);
            }
            DefKind::Struct | DefKind::Enum | DefKind::Union => {
                let def = tcx.adt_def(did);
                let mut a = J::obj();
                a.put("path", J::s(tcx.def_path_str(did)));
                a.put("kind", J::s(format!("{:?}", kind)));
                a.put("vis", J::s(vis_s(tcx, did)));
                a.put("exported", J::Bool(ev.is_exported(ldid)));
                a.put("reachable", J::Bool(ev.is_reachable(ldid)));
                a.put("span", span_j(tcx, tcx.def_span(did)));
                a.put("has_drop", J::Bool(tcx.adt_destructor(did).is_some()));
                a.put("generic_bounds", crate::mirser::generic_bounds(tcx, did));
                if let Some(d) = tcx.adt_destructor(did) {
                    a.put("drop_key", J::s(body_key(tcx, d.did)));
                }
                a.put(
                    "generics",
                    J::Arr(tcx.generics_of(did).own_params.iter().map(|p| J::s(p.name.as_str())).collect()),
                );
                let mut vs = Vec::new();
                for v in def.variants().iter() {
                    let mut fields = Vec::new();
                    for f in v.fields.iter() {
                        let fty = tcx.type_of(f.did).instantiate_identity().skip_normalization();
                        fields.push(
                            J::obj()
                                .set("name", J::s(f.name.as_str()))
                                .set("ty", J::s(ty_s(fty)))
                                .set("vis", J::s(vis_s(tcx, f.did))),
                        );
                    }
                    vs.push(
                        J::obj()
                            .set("name", J::s(v.name.as_str()))
                            .set("ctor_kind", J::s(format!("{:?}", v.ctor_kind())))
                            .set("fields", J::Arr(fields)),
                    );
                }
                a.put("variants", J::Arr(vs));
                adts.push(a);
            }
            DefKind::Static { mutability, nested, .. } => {
                let t = tcx.type_of(did).instantiate_identity().skip_normalization();
                let te = ty::TypingEnv::post_analysis(tcx, did);
                statics.push(
                    J::obj()
                        .set("path", J::s(tcx.def_path_str(did)))
                        .set("ty", J::s(ty_s(t)))
                        .set("mut", J::Bool(mutability.is_mut()))
                        .set("nested", J::Bool(nested))
                        .set("freeze", J::Bool(t.is_freeze(tcx, te)))
                        .set("thread_local", J::Bool(tcx.is_thread_local_static(did)))
                        .set("span", span_j(tcx, tcx.def_span(did))),
                );
            }
            DefKind::Const { .. } | DefKind::AssocConst { .. } => {
                let t = tcx.type_of(did).instantiate_identity().skip_normalization();
                let te = ty::TypingEnv::post_analysis(tcx, did);
                let mut c = J::obj()
                    .set("path", J::s(tcx.def_path_str(did)))
                    .set("key", J::s(body_key(tcx, did)))
                    .set("ty", J::s(ty_s(t)))
                    .set("freeze", J::Bool(has_params(t) || t.is_freeze(tcx, te)))
                    .set("span", span_j(tcx, tcx.def_span(did)));
                let mut v = J::Null;
                let generic = tcx.generics_of(did).requires_monomorphization(tcx);
                let is_trait_decl = tcx.trait_of_assoc(did).is_some();
                if !generic && !is_trait_decl {
                    if let Ok(cv) = tcx.const_eval_poly(did) {
                        if let Some(si) = cv.try_to_scalar_int() {
                            v = J::Int(si.to_bits(si.size()) as i128);
                        }
                    }
                }
                c.put("value", v);
                consts.push(c);
            }
            DefKind::Fn | DefKind::AssocFn => {
                let sig = tcx.fn_sig(did).instantiate_identity().skip_normalization().skip_binder();
                if matches!(sig.safety(), hir::Safety::Unsafe) {
                    let sp = tcx.def_span(did);
                    unsafe_sites.push(
                        J::obj()
                            .set("kind", J::s("fn"))
                            .set("user", J::Bool(!sp.in_derive_expansion()))
                            .set("span", span_j(tcx, sp))
                            .set("exp", J::Bool(sp.from_expansion()))
                            .set("derive", J::Bool(sp.in_derive_expansion()))
                            .set("owner", J::s(body_key(tcx, did))),
                    );
                }
            }
            DefKind::Trait => {
                let mut items = Vec::new();
                for &aid in tcx.associated_item_def_ids(did) {
                    let ai = tcx.associated_item(aid);
                    items.push(
                        J::obj()
                            .set("name", J::s(ai.name().as_str()))
                            .set("kind", J::s(match ai.kind {
                                ty::AssocKind::Const { .. } => "const",
                                ty::AssocKind::Type { .. } => "type",
                                ty::AssocKind::Fn { .. } => "fn",
                            }))
                            .set("has_default", J::Bool(ai.defaultness(tcx).has_value())),
                    );
                }
                traits.push(
                    J::obj()
                        .set("path", J::s(tcx.def_path_str(did)))
                        .set("vis", J::s(vis_s(tcx, did)))
                        .set("unsafe", J::Bool(matches!(tcx.trait_def(did).safety, hir::Safety::Unsafe)))
                        .set("items", J::Arr(items)),
                );
            }
            _ => {}
        }
    }

    // unsafe blocks
    let mut uv = UnsafeV { tcx, out: Vec::new() };
    tcx.hir_visit_all_item_likes_in_crate(&mut uv);
    unsafe_sites.extend(uv.out);

    // derived size facts for concrete types
    let wanted = ["NonceSize", "TagSize", "KeySize", "OutputSize", "BlockSize", "CiphertextOverhead", "NSecret"];
    let mut pairs: Vec<(DefId, DefId, String)> = Vec::new();
    for tr in tcx.all_traits_including_private() {
        for ai in tcx.associated_items(tr).in_definition_order() {
            let Some(nm) = ai.opt_name() else { continue };
            if matches!(ai.kind, ty::AssocKind::Type { .. }) && wanted.contains(&nm.as_str()) {
                pairs.push((tr, ai.def_id, format!("{}::{}", tcx.def_path_str(tr), nm)));
            }
        }
    }
    let mut derived = J::obj();
    let infcx = tcx.infer_ctxt().build(ty::TypingMode::PostAnalysis);
    let te = ty::TypingEnv::fully_monomorphized();
    for (name, t) in interesting.iter() {
        let mut d = J::obj();
        let mut any = false;
        for (tr, assoc, label) in pairs.iter() {
            if tcx.generics_of(*tr).own_params.len() != 1 {
                continue;
            }
            let r = infcx.type_implements_trait(*tr, [*t], ty::ParamEnv::empty());
            if !r.must_apply_modulo_regions() {
                continue;
            }
            let proj = Ty::new_projection(tcx, *assoc, [*t]);
            if let Ok(n) = tcx.try_normalize_erasing_regions(te, Unnormalized::new_wip(proj)) {
                let mut e = J::obj().set("ty", J::s(ty_s(n)));
                match typenum_usize(tcx, n) {
                    Some(v) => e.put("usize", J::Int(v as i128)),
                    None => e.put("usize", J::Null),
                }
                d.put(label, e);
                any = true;
            }
        }
        if any {
            derived.put(name, d);
        }
    }

    // extern crates actually linked
    let mut crates = Vec::new();
    for &cn in tcx.crates(()) {
        crates.push(J::s(tcx.crate_name(cn).as_str()));
    }
    let _ = LOCAL_CRATE;

    doc.put("impls", J::Arr(impls));
    doc.put("adts", J::Arr(adts));
    doc.put("traits", J::Arr(traits));
    doc.put("statics", J::Arr(statics));
    doc.put("consts", J::Arr(consts));
    doc.put("unsafe_sites", J::Arr(unsafe_sites));
    doc.put("api", J::Arr(api));
    doc.put("derived", derived);
    doc.put("extern_crates", J::Arr(crates));
}
