//! hpke-facts: a rustc_private driver that serialises the type-checked program of the
//! crate under analysis (MIR bodies, impls, ADTs, statics, unsafe sites, API surface) to
//! one JSON document.  It contains *no rules*: every verdict is computed by
//! /verif/engine/hpkelint from this document.
//!
//! Invocation (through cargo):
//!   RUSTC_WORKSPACE_WRAPPER=<this binary> HPKE_FACTS_OUT=<file> HPKE_FACTS_NONCE=<n>
//!   [HPKE_FACTS_CRATE=hpke] cargo +nightly check --offline --lib ...
#![feature(rustc_private)]

extern crate rustc_abi;
extern crate rustc_data_structures;
extern crate rustc_driver;
extern crate rustc_hir;
extern crate rustc_infer;
extern crate rustc_interface;
extern crate rustc_middle;
extern crate rustc_session;
extern crate rustc_span;
extern crate rustc_trait_selection;

mod json;
mod mirser;
mod items;

use json::J;
use rustc_driver::{Callbacks, Compilation};
use rustc_interface::interface::Compiler;
use rustc_middle::ty::TyCtxt;

struct Plain;
impl Callbacks for Plain {}

struct Facts {
    out: String,
    nonce: String,
}

impl Callbacks for Facts {
    fn after_analysis<'tcx>(&mut self, _c: &Compiler, tcx: TyCtxt<'tcx>) -> Compilation {
        let doc = rustc_middle::ty::print::with_no_trimmed_paths!(collect(tcx, &self.nonce));
        let mut s = String::with_capacity(1 << 22);
        doc.write(&mut s);
        s.push('\n');
        std::fs::write(&self.out, s).expect("cannot write fact file");
        Compilation::Continue
    }
}

fn cfg_features() -> Vec<J> {
    let args: Vec<String> = std::env::args().collect();
    let mut v = Vec::new();
    for i in 0..args.len() {
        if args[i] == "--cfg" && i + 1 < args.len() {
            let a = &args[i + 1];
            if let Some(rest) = a.strip_prefix("feature=\"") {
                v.push(J::s(rest.trim_end_matches('"')));
            }
        }
    }
    v
}

fn collect<'tcx>(tcx: TyCtxt<'tcx>, nonce: &str) -> J {
    let mut doc = J::obj();
    let bodies = mirser::bodies(tcx);
    let nbodies = if let J::Arr(a) = &bodies { a.len() } else { 0 };
    doc.put(
        "meta",
        J::obj()
            .set("crate", J::s(tcx.crate_name(rustc_span::def_id::LOCAL_CRATE).as_str()))
            .set("nonce", J::s(nonce))
            .set("rustc", J::s(option_env!("CFG_RELEASE").unwrap_or("nightly")))
            .set("bodies", J::Int(nbodies as i128))
            .set("features", J::Arr(cfg_features())),
    );
    doc.put("bodies", bodies);
    items::collect(tcx, &mut doc);
    doc
}

fn main() {
    let mut args: Vec<String> = std::env::args().collect();
    // wrapper mode: argv[1] is the path of the real rustc
    if args.len() > 1 && (args[1].ends_with("rustc") || args[1].contains("/rustc")) {
        args.remove(1);
    }
    let want = std::env::var("HPKE_FACTS_CRATE").unwrap_or_else(|_| "hpke".to_string());
    let mut is_target = false;
    for i in 0..args.len() {
        if args[i] == "--crate-name" && i + 1 < args.len() && args[i + 1] == want {
            is_target = true;
        }
    }
    let is_probe = args.iter().any(|a| a == "-vV" || a.starts_with("--print"));
    let out = std::env::var("HPKE_FACTS_OUT").ok();
    if is_target && !is_probe && out.is_some() {
        args.push("-Zmir-opt-level=0".to_string());
        args.push("-Awarnings".to_string());
        let mut cb = Facts {
            out: out.unwrap(),
            nonce: std::env::var("HPKE_FACTS_NONCE").unwrap_or_default(),
        };
        rustc_driver::run_compiler(&args, &mut cb);
    } else {
        rustc_driver::run_compiler(&args, &mut Plain);
    }
}
