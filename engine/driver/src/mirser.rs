//! Serialisation of MIR bodies.
use crate::json::J;
use rustc_hir::def::DefKind;
use rustc_middle::mir::{self, *};
use rustc_middle::ty::print::PrintTraitRefExt;
use rustc_middle::ty::{self, Ty, TyCtxt};
use rustc_span::def_id::{DefId, LocalDefId};
use rustc_span::Span;

pub fn ty_s<'tcx>(t: Ty<'tcx>) -> String {
    format!("{}", t)
}

pub fn span_j<'tcx>(tcx: TyCtxt<'tcx>, sp: Span) -> J {
    let sm = tcx.sess.source_map();
    let lo = sm.lookup_char_pos(sp.lo());
    let hi = sm.lookup_char_pos(sp.hi());
    let file = match &lo.file.name {
        rustc_span::FileName::Real(r) => match r.local_path() {
            Some(p) => p.to_string_lossy().to_string(),
            None => format!("{:?}", r),
        },
        other => format!("{:?}", other),
    };
    J::obj()
        .set("file", J::s(file))
        .set("lo", J::Int(lo.line as i128))
        .set("hi", J::Int(hi.line as i128))
}

fn line_of<'tcx>(tcx: TyCtxt<'tcx>, sp: Span) -> i128 {
    tcx.sess.source_map().lookup_char_pos(sp.lo()).line as i128
}

/// A key for a body that contains no line numbers and no impl indices.
/// {generic parameter name: [paths of the traits it is bounded by]} (own and inherited predicates)
pub fn generic_bounds<'tcx>(tcx: TyCtxt<'tcx>, did: DefId) -> J {
    let mut names: Vec<String> = Vec::new();
    let mut g = Some(tcx.generics_of(did));
    while let Some(gg) = g {
        for p in gg.own_params.iter() {
            names.push(p.name.as_str().to_string());
        }
        g = gg.parent.map(|p| tcx.generics_of(p));
    }
    let mut out = J::obj();
    let preds = tcx.predicates_of(did).instantiate_identity(tcx);
    for n in names.iter() {
        let mut v: Vec<J> = Vec::new();
        for (clause, _) in preds.iter() {
            let clause = clause.skip_norm_wip();
            if let Some(tc) = clause.as_trait_clause() {
                let tr = tc.skip_binder().trait_ref;
                if let rustc_middle::ty::TyKind::Param(pt) = tr.self_ty().kind() {
                    if pt.name.as_str() == n.as_str() {
                        let s = tcx.def_path_str(tr.def_id);
                        if !v.iter().any(|x| matches!(x, J::Str(y) if *y == s)) {
                            v.push(J::s(&s));
                        }
                    }
                }
            }
        }
        out.put(n, J::Arr(v));
    }
    out
}

pub fn body_key<'tcx>(tcx: TyCtxt<'tcx>, did: DefId) -> String {
    let kind = tcx.def_kind(did);
    if matches!(kind, DefKind::Closure) {
        let parent = tcx.parent(did);
        let dp = tcx.def_path(did);
        let last = dp.data.last().map(|d| format!("{{closure#{}}}", d.disambiguator)).unwrap_or_default();
        return format!("{}::{}", body_key(tcx, parent), last);
    }
    if matches!(kind, DefKind::AssocFn | DefKind::AssocConst { .. } | DefKind::AssocTy) {
        let name = tcx.item_name(did);
        if let Some(imp) = tcx.impl_of_assoc(did) {
            let self_ty = tcx.type_of(imp).instantiate_identity().skip_normalization();
            if let Some(tr) = tcx.impl_opt_trait_ref(imp) {
                let tr = tr.instantiate_identity().skip_normalization();
                return format!("<{} as {}>::{}", self_ty, tr.print_only_trait_path(), name);
            }
            return format!("{}::{}", self_ty, name);
        }
        if let Some(tr) = tcx.trait_of_assoc(did) {
            return format!("{}::{}", tcx.def_path_str(tr), name);
        }
    }
    tcx.def_path_str(did)
}

pub fn bodies<'tcx>(tcx: TyCtxt<'tcx>) -> J {
    let mut out = Vec::new();
    for ldid in tcx.hir_body_owners() {
        let kind = tcx.def_kind(ldid);
        if !matches!(kind, DefKind::Fn | DefKind::AssocFn | DefKind::Closure) {
            continue;
        }
        out.push(one_body(tcx, ldid, kind));
    }
    J::Arr(out)
}

fn vis_s<'tcx>(tcx: TyCtxt<'tcx>, did: DefId) -> String {
    match tcx.visibility(did) {
        ty::Visibility::Public => "pub".to_string(),
        ty::Visibility::Restricted(m) => {
            if m.is_crate_root() {
                "pub(crate)".to_string()
            } else {
                format!("restricted({})", tcx.def_path_str(m))
            }
        }
    }
}

fn one_body<'tcx>(tcx: TyCtxt<'tcx>, ldid: LocalDefId, kind: DefKind) -> J {
    let did = ldid.to_def_id();
    let body = tcx.optimized_mir(did);
    let mut b = J::obj();
    b.put("key", J::s(body_key(tcx, did)));
    b.put("def_path", J::s(tcx.def_path_str(did)));
    b.put("kind", J::s(format!("{:?}", kind)));
    b.put("span", span_j(tcx, tcx.def_span(did)));
    b.put("full_span", span_j(tcx, body.span));
    let sp = tcx.def_span(did);
    b.put(
        "macro",
        if sp.from_expansion() {
            J::s(format!("{}", sp.ctxt().outer_expn_data().kind.descr()))
        } else {
            J::Null
        },
    );
    if matches!(kind, DefKind::Fn | DefKind::AssocFn) {
        b.put("vis", J::s(vis_s(tcx, did)));
        let ev = tcx.effective_visibilities(());
        b.put("exported", J::Bool(ev.is_exported(ldid)));
        b.put("reachable", J::Bool(ev.is_reachable(ldid)));
        let sig = tcx.fn_sig(did).instantiate_identity().skip_normalization().skip_binder();
        b.put(
            "sig",
            J::obj()
                .set("inputs", J::Arr(sig.inputs().iter().map(|t| J::s(ty_s(*t))).collect()))
                .set("output", J::s(ty_s(sig.output())))
                .set("safety", J::s(format!("{:?}", sig.safety()))),
        );
        // impl info
        if let Some(imp) = tcx.impl_of_assoc(did) {
            let self_ty = tcx.type_of(imp).instantiate_identity().skip_normalization();
            let tr = tcx
                .impl_opt_trait_ref(imp)
                .map(|t| format!("{}", t.instantiate_identity().skip_normalization().print_only_trait_path()));
            b.put(
                "impl_of",
                J::obj()
                    .set("self_ty", J::s(ty_s(self_ty)))
                    .set("trait", J::opt_s(tr))
                    .set("name", J::s(tcx.item_name(did).as_str())),
            );
        } else if let Some(tr) = tcx.trait_of_assoc(did) {
            b.put(
                "default_of",
                J::obj()
                    .set("trait", J::s(tcx.def_path_str(tr)))
                    .set("name", J::s(tcx.item_name(did).as_str())),
            );
        }
        let gens = tcx.generics_of(did);
        // in substitution order: the outermost (impl/trait) parameters first, the item's own last
        let mut levels: Vec<Vec<J>> = Vec::new();
        let mut g = Some(gens);
        while let Some(gg) = g {
            levels.push(gg.own_params.iter().map(|p| J::s(p.name.as_str())).collect());
            g = gg.parent.map(|p| tcx.generics_of(p));
        }
        levels.reverse();
        b.put("generics", J::Arr(levels.into_iter().flatten().collect()));
        b.put("generic_bounds", generic_bounds(tcx, did));
    } else {
        b.put("parent", J::s(body_key(tcx, tcx.parent(did))));
    }
    ser_body(tcx, did, body, &mut b);
    let promoted = tcx.promoted_mir(did);
    let mut pv = Vec::new();
    for pb in promoted.iter() {
        let mut pj = J::obj();
        ser_body(tcx, did, pb, &mut pj);
        pv.push(pj);
    }
    b.put("promoted", J::Arr(pv));
    b
}

struct Ctx<'a, 'tcx> {
    tcx: TyCtxt<'tcx>,
    owner: DefId,
    body: &'a Body<'tcx>,
}

fn ser_body<'tcx>(tcx: TyCtxt<'tcx>, owner: DefId, body: &Body<'tcx>, b: &mut J) {
    let cx = Ctx { tcx, owner, body };
    b.put("arg_count", J::Int(body.arg_count as i128));
    // names
    let mut names: Vec<Option<String>> = vec![None; body.local_decls.len()];
    let mut dbg = Vec::new();
    for vdi in body.var_debug_info.iter() {
        match &vdi.value {
            VarDebugInfoContents::Place(p) => {
                if p.projection.is_empty() && vdi.composite.is_none() {
                    let i = p.local.as_usize();
                    if names[i].is_none() {
                        names[i] = Some(vdi.name.as_str().to_string());
                    }
                }
                dbg.push(
                    J::obj()
                        .set("name", J::s(vdi.name.as_str()))
                        .set("place", cx.place(p))
                        .set("arg", match vdi.argument_index { Some(a) => J::Int(a as i128), None => J::Null }),
                );
            }
            VarDebugInfoContents::Const(_) => {}
        }
    }
    b.put("debug", J::Arr(dbg));
    let mut locals = Vec::new();
    for (i, d) in body.local_decls.iter_enumerated() {
        locals.push(
            J::obj()
                .set("ty", J::s(cx.nty(d.ty)))
                .set("ty_raw", J::s(ty_s(d.ty)))
                .set("name", J::opt_s(names[i.as_usize()].clone()))
                .set("mut", J::Bool(d.mutability.is_mut())),
        );
    }
    b.put("locals", J::Arr(locals));
    let mut blocks = Vec::new();
    for (_bb, data) in body.basic_blocks.iter_enumerated() {
        let mut stmts = Vec::new();
        for st in data.statements.iter() {
            if let Some(j) = cx.stmt(st) {
                stmts.push(j);
            }
        }
        let term = cx.term(data.terminator());
        blocks.push(
            J::obj()
                .set("cleanup", J::Bool(data.is_cleanup))
                .set("stmts", J::Arr(stmts))
                .set("term", term),
        );
    }
    b.put("blocks", J::Arr(blocks));
}

impl<'a, 'tcx> Ctx<'a, 'tcx> {
    /// type string with concrete projections normalised (generic ones are left as written)
    fn nty(&self, t: Ty<'tcx>) -> String {
        match self.tcx.try_normalize_erasing_regions(self.typing_env(), ty::Unnormalized::new_wip(t)) {
            Ok(n) => ty_s(n),
            Err(_) => ty_s(t),
        }
    }

    fn typing_env(&self) -> ty::TypingEnv<'tcx> {
        let root = self.tcx.typeck_root_def_id(self.owner);
        ty::TypingEnv::post_analysis(self.tcx, root)
    }

    fn place(&self, p: &Place<'tcx>) -> J {
        let mut projs = Vec::new();
        let mut pty = mir::PlaceTy::from_ty(self.body.local_decls[p.local].ty);
        for elem in p.projection.iter() {
            let j = match elem {
                ProjectionElem::Deref => J::s("deref"),
                ProjectionElem::Field(f, fty) => {
                    let mut name = format!("{}", f.as_usize());
                    let mut adt = J::Null;
                    if let ty::Adt(def, _) = pty.ty.kind() {
                        let v = pty.variant_index.unwrap_or(rustc_abi::FIRST_VARIANT);
                        if def.is_enum() || def.is_struct() || def.is_union() {
                            let var = def.variant(v);
                            if f.as_usize() < var.fields.len() {
                                name = var.fields[f].name.as_str().to_string();
                            }
                            adt = J::s(self.tcx.def_path_str(def.did()));
                        }
                    }
                    J::obj()
                        .set("f", J::s(name))
                        .set("i", J::Int(f.as_usize() as i128))
                        .set("ty", J::s(ty_s(fty)))
                        .set("adt", adt)
                }
                ProjectionElem::Index(l) => J::obj().set("index", J::Int(l.as_usize() as i128)),
                ProjectionElem::ConstantIndex { offset, min_length, from_end } => J::obj()
                    .set("cindex", J::Int(offset as i128))
                    .set("min_len", J::Int(min_length as i128))
                    .set("from_end", J::Bool(from_end)),
                ProjectionElem::Subslice { from, to, from_end } => J::obj()
                    .set("subslice", J::Arr(vec![J::Int(from as i128), J::Int(to as i128)]))
                    .set("from_end", J::Bool(from_end)),
                ProjectionElem::Downcast(name, v) => J::obj()
                    .set("downcast", J::s(name.map(|s| s.as_str().to_string()).unwrap_or_default()))
                    .set("v", J::Int(v.as_usize() as i128)),
                ProjectionElem::OpaqueCast(t) => J::obj().set("opaque", J::s(ty_s(t))),
                ProjectionElem::UnwrapUnsafeBinder(t) => J::obj().set("unwrap_binder", J::s(ty_s(t))),
            };
            projs.push(j);
            pty = pty.projection_ty(self.tcx, elem);
        }
        J::obj().set("l", J::Int(p.local.as_usize() as i128)).set("p", J::Arr(projs))
    }

    fn fn_def(&self, def_id: DefId, args: ty::GenericArgsRef<'tcx>) -> J {
        let tcx = self.tcx;
        let mut c = J::obj();
        c.put("path", J::s(tcx.def_path_str(def_id)));
        c.put("path_args", J::s(tcx.def_path_str_with_args(def_id, args)));
        c.put("key", J::s(crate::mirser::body_key(tcx, def_id)));
        c.put("crate", J::s(tcx.crate_name(def_id.krate).as_str()));
        c.put("local", J::Bool(def_id.is_local()));
        c.put("name", J::s(tcx.opt_item_name(def_id).map(|s| s.as_str().to_string()).unwrap_or_default()));
        c.put("generic_args", J::Arr(args.iter().map(|a| J::s(format!("{}", a))).collect()));
        c.put("def_kind", J::s(format!("{:?}", tcx.def_kind(def_id))));
        let dk = tcx.def_kind(def_id);
        if matches!(dk, DefKind::AssocFn) {
            if let Some(tr) = tcx.trait_of_assoc(def_id) {
                c.put("trait", J::s(tcx.def_path_str(tr)));
                if args.len() > 0 {
                    if let Some(t) = args[0].as_type() {
                        c.put("self_ty", J::s(ty_s(t)));
                    }
                }
            } else if let Some(imp) = tcx.impl_of_assoc(def_id) {
                let st = tcx.type_of(imp).instantiate_identity().skip_normalization();
                c.put("impl_self_ty", J::s(ty_s(st)));
                if let Some(tr) = tcx.impl_opt_trait_ref(imp) {
                    c.put("impl_trait", J::s(format!("{}", tr.instantiate_identity().skip_normalization().print_only_trait_path())));
                }
            }
        }
        if matches!(dk, DefKind::Ctor(..)) {
            let parent = tcx.parent(def_id);
            c.put("ctor_of", J::s(tcx.def_path_str(parent)));
        }
        if matches!(dk, DefKind::Fn | DefKind::AssocFn) {
            // resolution
            let te = self.typing_env();
            let mut res = J::Null;
            if let Ok(Some(inst)) = ty::Instance::try_resolve(tcx, te, def_id, args) {
                let rid = inst.def_id();
                let mut r = J::obj();
                r.put("path", J::s(tcx.def_path_str(rid)));
                r.put("key", J::s(crate::mirser::body_key(tcx, rid)));
                r.put("local", J::Bool(rid.is_local()));
                r.put("crate", J::s(tcx.crate_name(rid.krate).as_str()));
                r.put("kind", J::s(format!("{:?}", std::mem::discriminant(&inst.def)).to_string()));
                r.put("desc", J::s(match inst.def {
                    ty::InstanceKind::Item(_) => "item",
                    ty::InstanceKind::Intrinsic(_) => "intrinsic",
                    ty::InstanceKind::Virtual(..) => "virtual",
                    ty::InstanceKind::ClosureOnceShim { .. } => "closure_once_shim",
                    ty::InstanceKind::DropGlue(..) => "drop_glue",
                    ty::InstanceKind::CloneShim(..) => "clone_shim",
                    ty::InstanceKind::FnPtrShim(..) => "fn_ptr_shim",
                    _ => "other",
                }));
                res = r;
            }
            c.put("resolved", res);
        }
        c
    }

    fn bytes_of_alloc(&self, alloc_id: rustc_middle::mir::interpret::AllocId, off: u64, len: u64) -> Option<String> {
        use rustc_middle::mir::interpret::GlobalAlloc;
        match self.tcx.try_get_global_alloc(alloc_id)? {
            GlobalAlloc::Memory(a) => {
                let a = a.inner();
                let end = off.checked_add(len)?;
                if end > a.len() as u64 {
                    return None;
                }
                let bytes = a.inspect_with_uninit_and_ptr_outside_interpreter(off as usize..end as usize);
                let mut s = String::new();
                for b in bytes {
                    s.push_str(&format!("{:02x}", b));
                }
                Some(s)
            }
            _ => None,
        }
    }

    fn array_len(&self, t: Ty<'tcx>) -> Option<u64> {
        if let ty::Array(_, n) = t.kind() {
            return n.try_to_target_usize(self.tcx);
        }
        None
    }

    fn const_val(&self, cv: ConstValue, t: Ty<'tcx>, c: &mut J) {
        use rustc_middle::mir::interpret::Scalar;
        // &[u8] / &str constants (possibly behind an indirection)
        if let ty::Ref(_, inner, _) = t.kind() {
            let is_bytes = match inner.kind() {
                ty::Slice(et) => *et == self.tcx.types.u8,
                ty::Str => true,
                _ => false,
            };
            if is_bytes && matches!(cv, ConstValue::Slice { .. } | ConstValue::Indirect { .. }) {
                if let Some(bytes) = cv.try_get_slice_bytes_for_diagnostics(self.tcx) {
                    let mut s = String::new();
                    for b in bytes {
                        s.push_str(&format!("{:02x}", b));
                    }
                    c.put("bytes", J::s(s));
                    return;
                }
            }
        }
        match cv {
            ConstValue::Scalar(Scalar::Int(si)) => {
                if t.is_bool() {
                    c.put("bool", J::Bool(si.try_to_bool().unwrap_or(false)));
                    c.put("int", J::Int(if si.try_to_bool().unwrap_or(false) { 1 } else { 0 }));
                } else if t.is_integral() || t.is_char() {
                    let size = si.size();
                    let bits = si.to_bits(size);
                    if t.is_signed() {
                        let sb = size.bits();
                        let v = if sb == 128 { bits as i128 } else {
                            let sh = 128 - sb;
                            ((bits << sh) as i128) >> sh
                        };
                        c.put("int", J::Int(v));
                    } else if bits <= i128::MAX as u128 {
                        c.put("int", J::Int(bits as i128));
                    } else {
                        c.put("int_str", J::s(format!("{}", bits)));
                    }
                } else {
                    c.put("scalar", J::s(format!("{:?}", si)));
                }
            }
            ConstValue::Scalar(Scalar::Ptr(ptr, _)) => {
                // &[u8; N] or similar
                let (prov, off) = ptr.into_raw_parts();
                if let ty::Ref(_, inner, _) = t.kind() {
                    if let Some(n) = self.array_len(*inner) {
                        if let ty::Array(et, _) = inner.kind() {
                            if *et == self.tcx.types.u8 {
                                if let Some(h) = self.bytes_of_alloc(prov.alloc_id(), off.bytes(), n) {
                                    c.put("bytes", J::s(h));
                                }
                            }
                        }
                    }
                }
                c.put("ptr", J::Bool(true));
            }
            ConstValue::ZeroSized => {
                c.put("zst", J::Bool(true));
            }
            ConstValue::Slice { alloc_id, meta } => {
                if let ty::Ref(_, inner, _) = t.kind() {
                    let is_bytes = match inner.kind() {
                        ty::Slice(et) => *et == self.tcx.types.u8,
                        ty::Str => true,
                        _ => false,
                    };
                    if is_bytes {
                        if let Some(h) = self.bytes_of_alloc(alloc_id, 0, meta) {
                            c.put("bytes", J::s(h));
                        }
                    }
                }
            }
            ConstValue::Indirect { alloc_id, offset } => {
                if let Some(n) = self.array_len(t) {
                    if let ty::Array(et, _) = t.kind() {
                        if *et == self.tcx.types.u8 {
                            if let Some(h) = self.bytes_of_alloc(alloc_id, offset.bytes(), n) {
                                c.put("bytes", J::s(h));
                            }
                        }
                    }
                }
                c.put("indirect", J::Bool(true));
            }
        }
    }

    fn constant(&self, co: &ConstOperand<'tcx>) -> J {
        let tcx = self.tcx;
        let t = co.const_.ty();
        let mut c = J::obj();
        c.put("k", J::s("const"));
        c.put("ty", J::s(ty_s(t)));
        c.put("text", J::s(format!("{}", co.const_)));
        if let ty::FnDef(def_id, args) = t.kind() {
            c.put("fn", self.fn_def(*def_id, args));
            return c;
        }
        if let ty::Closure(def_id, _) = t.kind() {
            c.put("closure", J::s(body_key(tcx, *def_id)));
            return c;
        }
        match co.const_ {
            Const::Val(cv, t) => self.const_val(cv, t, &mut c),
            Const::Unevaluated(uv, t) => {
                if let Some(p) = uv.promoted {
                    c.put("promoted", J::Int(p.as_usize() as i128));
                } else {
                    c.put("uneval", J::s(tcx.def_path_str_with_args(uv.def, uv.args)));
                    c.put("uneval_key", J::s(body_key(tcx, uv.def)));
                    c.put("uneval_name", J::s(tcx.opt_item_name(uv.def).map(|s| s.as_str().to_string()).unwrap_or_default()));
                    if uv.args.len() > 0 {
                        if let Some(st) = uv.args[0].as_type() {
                            c.put("uneval_self", J::s(ty_s(st)));
                        }
                    }
                    if let Some(tr) = tcx.trait_of_assoc(uv.def) {
                        c.put("uneval_trait", J::s(tcx.def_path_str(tr)));
                    }
                    if let Ok(cv) = co.const_.eval(tcx, self.typing_env(), co.span) {
                        self.const_val(cv, t, &mut c);
                    }
                }
            }
            Const::Ty(t, ct) => {
                if let Some(v) = ct.try_to_target_usize(tcx) {
                    c.put("int", J::Int(v as i128));
                } else if let Ok(cv) = co.const_.eval(tcx, self.typing_env(), co.span) {
                    self.const_val(cv, t, &mut c);
                } else {
                    c.put("tyconst", J::s(format!("{}", ct)));
                }
            }
        }
        c
    }

    fn operand(&self, o: &Operand<'tcx>) -> J {
        match o {
            Operand::Copy(p) => J::obj().set("k", J::s("copy")).set("place", self.place(p)),
            Operand::Move(p) => J::obj().set("k", J::s("move")).set("place", self.place(p)),
            Operand::Constant(c) => self.constant(c),
            Operand::RuntimeChecks(rc) => J::obj().set("k", J::s("runtime_checks")).set("which", J::s(format!("{:?}", rc))),
        }
    }

    fn rvalue(&self, rv: &Rvalue<'tcx>) -> J {
        let tcx = self.tcx;
        match rv {
            Rvalue::Use(op, _) => J::obj().set("k", J::s("use")).set("op", self.operand(op)),
            Rvalue::Repeat(op, n) => J::obj()
                .set("k", J::s("repeat"))
                .set("op", self.operand(op))
                .set("n", match n.try_to_target_usize(tcx) { Some(v) => J::Int(v as i128), None => J::s(format!("{}", n)) }),
            Rvalue::Ref(_, bk, p) => J::obj()
                .set("k", J::s("ref"))
                .set("mut", J::Bool(matches!(bk, BorrowKind::Mut { .. })))
                .set("fake", J::Bool(matches!(bk, BorrowKind::Fake(_))))
                .set("place", self.place(p)),
            Rvalue::ThreadLocalRef(d) => J::obj().set("k", J::s("thread_local_ref")).set("def", J::s(tcx.def_path_str(*d))),
            Rvalue::RawPtr(k, p) => J::obj()
                .set("k", J::s("rawptr"))
                .set("mut", J::Bool(matches!(k, RawPtrKind::Mut)))
                .set("place", self.place(p)),
            Rvalue::Cast(ck, op, t) => J::obj()
                .set("k", J::s("cast"))
                .set("cast", J::s(format!("{:?}", ck)))
                .set("op", self.operand(op))
                .set("ty", J::s(ty_s(*t)))
                .set("from_ty", J::s(ty_s(op.ty(&self.body.local_decls, tcx)))),
            Rvalue::BinaryOp(bop, ops) => J::obj()
                .set("k", J::s("binop"))
                .set("op", J::s(format!("{:?}", bop)))
                .set("l", self.operand(&ops.0))
                .set("r", self.operand(&ops.1))
                .set("lty", J::s(ty_s(ops.0.ty(&self.body.local_decls, tcx)))),
            Rvalue::UnaryOp(uop, op) => J::obj()
                .set("k", J::s("unop"))
                .set("op", J::s(format!("{:?}", uop)))
                .set("x", self.operand(op)),
            Rvalue::Discriminant(p) => J::obj().set("k", J::s("discriminant")).set("place", self.place(p)),
            Rvalue::Aggregate(ak, fields) => {
                let mut a = J::obj().set("k", J::s("aggregate"));
                match &**ak {
                    AggregateKind::Array(t) => {
                        a.put("agg", J::s("array"));
                        a.put("elem_ty", J::s(ty_s(*t)));
                    }
                    AggregateKind::Tuple => a.put("agg", J::s("tuple")),
                    AggregateKind::Adt(did, vidx, args, _, active) => {
                        a.put("agg", J::s("adt"));
                        let def = tcx.adt_def(*did);
                        a.put("adt", J::s(tcx.def_path_str(*did)));
                        a.put("adt_args", J::Arr(args.iter().map(|x| J::s(format!("{}", x))).collect()));
                        let v = def.variant(*vidx);
                        a.put("variant", J::s(v.name.as_str()));
                        a.put("variant_idx", J::Int(vidx.as_usize() as i128));
                        a.put("field_names", J::Arr(v.fields.iter().map(|f| J::s(f.name.as_str())).collect()));
                        if let Some(af) = active {
                            a.put("active_field", J::Int(af.as_usize() as i128));
                        }
                    }
                    AggregateKind::Closure(did, _) => {
                        a.put("agg", J::s("closure"));
                        a.put("closure", J::s(body_key(tcx, *did)));
                    }
                    AggregateKind::Coroutine(did, _) | AggregateKind::CoroutineClosure(did, _) => {
                        a.put("agg", J::s("coroutine"));
                        a.put("closure", J::s(body_key(tcx, *did)));
                    }
                    AggregateKind::RawPtr(t, _) => {
                        a.put("agg", J::s("rawptr"));
                        a.put("elem_ty", J::s(ty_s(*t)));
                    }
                }
                a.put("fields", J::Arr(fields.iter().map(|f| self.operand(f)).collect()));
                a
            }
            Rvalue::CopyForDeref(p) => J::obj().set("k", J::s("use")).set("op", J::obj().set("k", J::s("copy")).set("place", self.place(p))),
            Rvalue::WrapUnsafeBinder(op, t) => J::obj().set("k", J::s("wrap_binder")).set("op", self.operand(op)).set("ty", J::s(ty_s(*t))),
        }
    }

    fn stmt(&self, st: &Statement<'tcx>) -> Option<J> {
        let line = line_of(self.tcx, st.source_info.span);
        match &st.kind {
            StatementKind::Assign(bx) => {
                let (p, rv) = &**bx;
                Some(
                    J::obj()
                        .set("k", J::s("assign"))
                        .set("place", self.place(p))
                        .set("rv", self.rvalue(rv))
                        .set("line", J::Int(line))
                        .set("exp", J::Bool(st.source_info.span.from_expansion())),
                )
            }
            StatementKind::SetDiscriminant { place, variant_index } => Some(
                J::obj()
                    .set("k", J::s("set_discr"))
                    .set("place", self.place(place))
                    .set("v", J::Int(variant_index.as_usize() as i128))
                    .set("line", J::Int(line)),
            ),
            StatementKind::Intrinsic(i) => Some(J::obj().set("k", J::s("intrinsic")).set("text", J::s(format!("{:?}", i))).set("line", J::Int(line))),
            StatementKind::StorageLive(_)
            | StatementKind::StorageDead(_)
            | StatementKind::Nop
            | StatementKind::FakeRead(_)
            | StatementKind::PlaceMention(_)
            | StatementKind::AscribeUserType(..)
            | StatementKind::Coverage(..)
            | StatementKind::ConstEvalCounter
            | StatementKind::BackwardIncompatibleDropHint { .. } => None,
        }
    }

    fn unwind(&self, u: &UnwindAction) -> J {
        match u {
            UnwindAction::Continue => J::s("continue"),
            UnwindAction::Unreachable => J::s("unreachable"),
            UnwindAction::Terminate(_) => J::s("terminate"),
            UnwindAction::Cleanup(bb) => J::Int(bb.as_usize() as i128),
        }
    }

    fn term(&self, t: &Terminator<'tcx>) -> J {
        let tcx = self.tcx;
        let line = line_of(tcx, t.source_info.span);
        let exp = t.source_info.span.from_expansion();
        let mut j = match &t.kind {
            TerminatorKind::Goto { target } => J::obj().set("k", J::s("goto")).set("target", J::Int(target.as_usize() as i128)),
            TerminatorKind::SwitchInt { discr, targets } => {
                let mut ts = Vec::new();
                for (v, bb) in targets.iter() {
                    ts.push(J::Arr(vec![J::Int(v as i128), J::Int(bb.as_usize() as i128)]));
                }
                J::obj()
                    .set("k", J::s("switch"))
                    .set("discr", self.operand(discr))
                    .set("discr_ty", J::s(ty_s(discr.ty(&self.body.local_decls, tcx))))
                    .set("targets", J::Arr(ts))
                    .set("otherwise", J::Int(targets.otherwise().as_usize() as i128))
            }
            TerminatorKind::UnwindResume => J::obj().set("k", J::s("resume")),
            TerminatorKind::UnwindTerminate(_) => J::obj().set("k", J::s("terminate")),
            TerminatorKind::Return => J::obj().set("k", J::s("return")),
            TerminatorKind::Unreachable => J::obj().set("k", J::s("unreachable")),
            TerminatorKind::Drop { place, target, unwind, .. } => J::obj()
                .set("k", J::s("drop"))
                .set("place", self.place(place))
                .set("place_ty", J::s(ty_s(place.ty(&self.body.local_decls, tcx).ty)))
                .set("target", J::Int(target.as_usize() as i128))
                .set("unwind", self.unwind(unwind)),
            TerminatorKind::Call { func, args, destination, target, unwind, call_source, fn_span } => {
                let mut c = J::obj().set("k", J::s("call"));
                c.put("func", self.operand(func));
                c.put("args", J::Arr(args.iter().map(|a| self.operand(&a.node)).collect()));
                c.put("arg_tys", J::Arr(args.iter().map(|a| J::s(self.nty(a.node.ty(&self.body.local_decls, tcx)))).collect()));
                c.put("dest", self.place(destination));
                c.put("dest_ty", J::s(self.nty(destination.ty(&self.body.local_decls, tcx).ty)));
                c.put("target", match target { Some(b) => J::Int(b.as_usize() as i128), None => J::Null });
                c.put("unwind", self.unwind(unwind));
                c.put("source", J::s(format!("{:?}", call_source)));
                c.put("fn_line", J::Int(line_of(tcx, *fn_span)));
                c
            }
            TerminatorKind::TailCall { func, args, .. } => J::obj()
                .set("k", J::s("tailcall"))
                .set("func", self.operand(func))
                .set("args", J::Arr(args.iter().map(|a| self.operand(&a.node)).collect())),
            TerminatorKind::Assert { cond, expected, msg, target, unwind } => {
                let (kind, ops): (String, Vec<J>) = match &**msg {
                    AssertKind::BoundsCheck { len, index } => ("bounds".into(), vec![self.operand(len), self.operand(index)]),
                    AssertKind::Overflow(op, a, b) => (format!("overflow:{:?}", op), vec![self.operand(a), self.operand(b)]),
                    AssertKind::OverflowNeg(a) => ("overflow_neg".into(), vec![self.operand(a)]),
                    AssertKind::DivisionByZero(a) => ("div_zero".into(), vec![self.operand(a)]),
                    AssertKind::RemainderByZero(a) => ("rem_zero".into(), vec![self.operand(a)]),
                    other => (format!("{:?}", std::mem::discriminant(other)), vec![]),
                };
                J::obj()
                    .set("k", J::s("assert"))
                    .set("cond", self.operand(cond))
                    .set("expected", J::Bool(*expected))
                    .set("msg", J::s(kind))
                    .set("ops", J::Arr(ops))
                    .set("target", J::Int(target.as_usize() as i128))
                    .set("unwind", self.unwind(unwind))
            }
            TerminatorKind::FalseEdge { real_target, .. } => J::obj().set("k", J::s("goto")).set("target", J::Int(real_target.as_usize() as i128)),
            TerminatorKind::FalseUnwind { real_target, .. } => J::obj().set("k", J::s("goto")).set("target", J::Int(real_target.as_usize() as i128)),
            other => J::obj().set("k", J::s("other")).set("text", J::s(format!("{:?}", other))),
        };
        j.put("line", J::Int(line));
        j.put("exp", J::Bool(exp));
        j
    }
}
