#!/usr/bin/env python3
"""debug helper: ./dbg.py <facts.json> <body-key-substring> — prints MIR, return terms and call args"""
import sys
sys.path.insert(0, '/verif/engine')
from hpkelint.mirjson import Facts
from hpkelint.prov import An, pp
f = Facts.load(sys.argv[1])
for b in f.body_list:
    if sys.argv[2] in b.key:
        if len(sys.argv) > 3 and sys.argv[3] == 'mir':
            print(b.pp())
        a = An(b, f)
        print('==', b.key)
        for s, t in a.return_terms():
            print('  RET@%s: %s' % (s, pp(t)))
        for bi, t, c in a.calls():
            print('  bb%d %s' % (bi, c['path'] if c else '?'))
            for i in range(len(t['args'])):
                print('      arg%d = %s' % (i, pp(a.arg_val(bi, i))))
