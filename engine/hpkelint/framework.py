"""Fact extraction (with content-hash memoisation), obligation bookkeeping, violation
reports, known findings and evidence files."""
import fcntl
import hashlib
import json
import os
import subprocess
import sys
import time

VERIF = os.path.dirname(os.path.dirname(os.path.dirname(os.path.abspath(__file__))))
DRIVER = os.path.join(VERIF, 'engine', 'driver', 'target', 'release', 'hpke-facts')
CACHE = os.path.join(VERIF, '.cache')
EVID = os.path.join(VERIF, 'evidence')

CONFIGS = {
    'all': ['--all-features'],
    'default': [],
    'none': ['--no-default-features'],
    'x25519': ['--no-default-features', '--features', 'x25519'],
    'p256': ['--no-default-features', '--features', 'p256'],
    'p384': ['--no-default-features', '--features', 'p384'],
    'p521': ['--no-default-features', '--features', 'p521'],
    'alloc_x25519': ['--no-default-features', '--features', 'alloc,x25519'],
    'std_x25519': ['--no-default-features', '--features', 'std,x25519'],
}


NODEBUG = '@nodebug'     # build-profile dimension: cfg(debug_assertions) off (what --release compiles), overflow checks kept


def config_flags(config):
    if config.endswith(NODEBUG):
        config = config[:-len(NODEBUG)]
    if config in CONFIGS:
        return CONFIGS[config]
    if config.startswith('f:'):
        feats = config[2:]
        if not feats:
            return ['--no-default-features']
        return ['--no-default-features', '--features', feats]
    raise KeyError(config)


def nightly_sysroot():
    return subprocess.check_output(['rustc', '+nightly', '--print', 'sysroot'], text=True).strip()


def tree_hash(repo, extra=()):
    h = hashlib.sha256()
    files = []
    for root, dirs, fs in os.walk(os.path.join(repo, 'src')):
        dirs.sort()
        for f in sorted(fs):
            files.append(os.path.join(root, f))
    for f in ('Cargo.toml', 'Cargo.lock'):
        p = os.path.join(repo, f)
        if os.path.exists(p):
            files.append(p)
    cc = os.path.join(repo, '.cargo')
    if os.path.isdir(cc):
        for root, dirs, fs in os.walk(cc):
            dirs.sort()
            for f in sorted(fs):
                files.append(os.path.join(root, f))
    for p in files:
        h.update(os.path.relpath(p, repo).encode())
        h.update(b'\0')
        with open(p, 'rb') as fh:
            h.update(fh.read())
        h.update(b'\0')
    if os.path.exists(DRIVER):
        with open(DRIVER, 'rb') as fh:
            h.update(hashlib.sha256(fh.read()).digest())
    for e in extra:
        h.update(str(e).encode())
    return h.hexdigest()


_DRV_STAMP = None


def driver_stamp():
    """hash of the extractor's sources: fact files written by another version of the driver are never reused"""
    global _DRV_STAMP
    if _DRV_STAMP is None:
        h = hashlib.sha256()
        d = os.path.join(VERIF, 'engine', 'driver', 'src')
        for f in sorted(os.listdir(d)):
            with open(os.path.join(d, f), 'rb') as fh:
                h.update(f.encode() + b'\0' + fh.read())
        _DRV_STAMP = h.hexdigest()[:16]
    return _DRV_STAMP


def ensure_driver():
    if os.path.exists(DRIVER):
        return
    env = dict(os.environ, CARGO_NET_OFFLINE='true')
    subprocess.check_call(['cargo', '+nightly', 'build', '--release', '--offline'],
                          cwd=os.path.join(VERIF, 'engine', 'driver'), env=env,
                          stdout=subprocess.DEVNULL, stderr=subprocess.DEVNULL)


def _prune(d, keep):
    """bound the size of the memo directory (scratch-repo runs of the self-test create many fact files)"""
    try:
        fs = [os.path.join(d, f) for f in os.listdir(d) if f.endswith('.json')]
        if len(fs) <= keep:
            return
        fs.sort(key=lambda f: os.path.getmtime(f))
        for f in fs[:len(fs) - keep]:
            try:
                os.unlink(f)
            except OSError:
                pass
    except OSError:
        pass


class ExtractionError(Exception):
    pass


def extract_facts(repo, config='all', crate='hpke', force=False):
    """returns (path of fact file, meta).  Re-extracts unless a fact file with the same content
    hash of every input exists."""
    ensure_driver()
    os.makedirs(os.path.join(CACHE, 'facts'), exist_ok=True)
    os.makedirs(os.path.join(CACHE, 'target'), exist_ok=True)
    th = tree_hash(repo, extra=(config, crate, driver_stamp()))
    out = os.path.join(CACHE, 'facts', '%s-%s.json' % (th[:24], config.replace(':', '_').replace(',', '+')))
    if os.path.exists(out) and not force:
        try:
            with open(out) as f:
                head = f.read(400)
            if ('"tree_hash":"%s"' % th) in head:
                return out, {'cached': True, 'tree_hash': th}
        except OSError:
            pass
    lock = open(os.path.join(CACHE, 'extract.lock'), 'w')
    fcntl.flock(lock, fcntl.LOCK_EX)
    try:
        if os.path.exists(out) and not force:
            with open(out) as f:
                head = f.read(400)
            if ('"tree_hash":"%s"' % th) in head:
                return out, {'cached': True, 'tree_hash': th}
        nodebug = config.endswith(NODEBUG)
        tdir = os.path.join(CACHE, 'target', 'facts-nodebug' if nodebug else 'facts')
        # cargo's freshness cache would skip the wrapper: drop the member's fingerprints
        fp = os.path.join(tdir, 'debug', '.fingerprint')
        if os.path.isdir(fp):
            for d in os.listdir(fp):
                if d.startswith(crate + '-'):
                    subprocess.call(['rm', '-rf', os.path.join(fp, d)])
        nonce = hashlib.sha256(('%s-%s-%s' % (th, time.time(), os.getpid())).encode()).hexdigest()[:16]
        tmp = out + '.tmp.%d' % os.getpid()
        if os.path.exists(tmp):
            os.unlink(tmp)
        env = dict(os.environ)
        env.update({
            'CARGO_NET_OFFLINE': 'true',
            'CARGO_INCREMENTAL': '0',
            'LD_LIBRARY_PATH': nightly_sysroot() + '/lib' + (':' + env['LD_LIBRARY_PATH'] if env.get('LD_LIBRARY_PATH') else ''),
            'RUSTFLAGS': '-Awarnings',
            'RUSTC_WORKSPACE_WRAPPER': DRIVER,
            'CARGO_TARGET_DIR': tdir,
            'HPKE_FACTS_OUT': tmp,
            'HPKE_FACTS_NONCE': nonce,
            'HPKE_FACTS_CRATE': crate,
        })
        if nodebug:
            # debug_assert!/cfg(debug_assertions) code disappears, as in a release build; arithmetic overflow checks are
            # kept so that the MIR differs from the dev profile only where the source asks for it
            env['RUSTFLAGS'] += ' -C debug-assertions=off -C overflow-checks=on'
        cmd = ['cargo', '+nightly', 'check', '--offline', '--lib', '-q'] + config_flags(config)
        p = subprocess.run(cmd, cwd=repo, env=env, stdout=subprocess.PIPE, stderr=subprocess.STDOUT, text=True)
        if p.returncode != 0 or not os.path.exists(tmp):
            raise ExtractionError('fact extraction failed (config %s, exit %s):\n%s' % (config, p.returncode, p.stdout[-3000:]))
        with open(tmp) as f:
            doc = json.load(f)
        if doc['meta'].get('nonce') != nonce:
            raise ExtractionError('fact file nonce mismatch (stale wrapper output)')
        doc['meta']['tree_hash'] = th
        doc['meta']['config'] = config
        doc['meta']['repo'] = repo
        # meta first so that the cache probe above can read it from the head of the file
        ordered = {'meta': doc['meta']}
        ordered['meta'] = {'tree_hash': th, **{k: v for k, v in doc['meta'].items() if k != 'tree_hash'}}
        for k, v in doc.items():
            if k != 'meta':
                ordered[k] = v
        with open(tmp, 'w') as f:
            json.dump(ordered, f, separators=(',', ':'))
        os.replace(tmp, out)
        _prune(os.path.join(CACHE, 'facts'), keep=160)
        return out, {'cached': False, 'tree_hash': th}
    finally:
        fcntl.flock(lock, fcntl.LOCK_UN)
        lock.close()


# ----------------------------------------------------------------------------------------
class Reporter:
    """collects obligations of one property run"""

    def __init__(self, prop, tier, repo, seed=0):
        self.prop = prop
        self.tier = tier
        self.repo = repo
        self.seed = seed
        self.t0 = time.time()
        self.obligations = []     # dicts
        self.violations = []
        self.notes = []
        self.samples = []
        self.configs = []
        self.extra = {}
        self.posctl = 0
        self.cfgtag = None
        self.bodies_analysed = 0
        self.call_sites = 0

    def _inst(self, instance):
        return instance if not self.cfgtag else '%s@%s' % (instance, self.cfgtag)

    def ok(self, rule, fn, instance, found, nontrivial=True, sample=False):
        instance = self._inst(instance)
        self.obligations.append({'rule': rule, 'fn': fn, 'instance': instance, 'found': found,
                                 'verdict': 'ok', 'nontrivial': nontrivial})
        if sample or len([s for s in self.samples if s['rule'] == rule]) < 2:
            self.samples.append({'rule': rule, 'fn': fn, 'instance': instance, 'found': _short(found), 'verdict': 'ok'})

    def bad(self, rule, fn, instance, found, expected, where=None, kind='VIOLATION', path=None):
        instance = self._inst(instance)
        key = '%s|%s|%s' % (rule, fn, instance)
        self.obligations.append({'rule': rule, 'fn': fn, 'instance': instance, 'found': found,
                                 'verdict': 'violated', 'nontrivial': True})
        v = {'property': self.prop, 'rule': rule, 'kind': kind, 'key': key,
             'where': where or {'function': fn}, 'found': found, 'expected': expected}
        if path:
            v['path'] = path
        self.violations.append(v)

    def check(self, cond, rule, fn, instance, found, expected, where=None, kind='VIOLATION'):
        if cond:
            self.ok(rule, fn, instance, found)
        else:
            self.bad(rule, fn, instance, found, expected, where, kind)
        return cond

    def undecided(self, rule, fn, instance, found, expected, where=None):
        self.bad(rule, fn, instance, found, expected, where, kind='UNDECIDED')

    def anchor_lost(self, rule, what, expected, found):
        self.bad(rule, '-', 'anchor:' + what, found, expected, kind='ANCHOR-LOST')

    def floor(self, rule, what, n, floor):
        """fail closed when fewer instances than counted by hand are found"""
        if n < floor:
            self.bad(rule, '-', 'floor:' + what, '%d instance(s) found' % n,
                     'at least %d instances (counted on the pinned tree)' % floor, kind='ANCHOR-LOST')
            return False
        self.obligations.append({'rule': rule, 'fn': '-', 'instance': self._inst('floor:' + what),
                                 'found': '%d >= %d' % (n, floor), 'verdict': 'ok', 'nontrivial': False})
        return True

    def note(self, text):
        self.notes.append(text)


def _short(x, n=400):
    s = x if isinstance(x, str) else json.dumps(x, default=str)
    return s if len(s) <= n else s[:n] + '…'


def load_known():
    p = os.path.join(VERIF, 'known_findings.json')
    if not os.path.exists(p):
        return {'findings': [], 'fixed': []}
    with open(p) as f:
        return json.load(f)


def finish(rep, explanation, trusted_base, assumptions, level='other', checker_cmd=None, out=sys.stdout):
    """write evidence + violation files, print the verdict lines, return the exit code"""
    known = load_known()
    known_keys = {k['key']: k for k in known.get('findings', []) if k.get('property') == rep.prop}
    registered = os.path.realpath(rep.repo) == '/repo'
    vdir = os.path.join(EVID, 'violations') if registered else os.path.join(CACHE, 'scratch', str(os.getpid()))
    os.makedirs(vdir, exist_ok=True)
    # remove stale violation files of this property
    for f in os.listdir(vdir):
        if f.startswith(rep.prop + '-'):
            try:
                os.unlink(os.path.join(vdir, f))
            except FileNotFoundError:
                pass
    real = []
    knownhits = []
    for v in rep.violations:
        if v['key'] in known_keys:
            knownhits.append(v)
        else:
            real.append(v)
    for v in knownhits:
        print('KNOWN-FINDING: property=%s %s' % (rep.prop, known_keys[v['key']].get('what', v['key'])), file=out)
    n = 0
    for v in real:
        n += 1
        path = os.path.join(vdir, '%s-%d.json' % (rep.prop, n))
        v['tier'] = rep.tier
        v['repo'] = rep.repo
        with open(path, 'w') as f:
            json.dump(v, f, indent=1, default=str)
        w = v.get('where', {})
        print('%s %s %s: %s:%s %s — found: %s; expected: %s' % (
            v['kind'], v['rule'], v['key'].split('|', 2)[2], w.get('file', '?'), w.get('line', '?'),
            w.get('function', ''), _short(v['found'], 300), _short(v['expected'], 300)), file=out)
        print('VIOLATION property=%s replay=%s' % (rep.prop, path), file=out)
    stale = [k for k in known_keys if k not in {v['key'] for v in rep.violations}]
    obligations = len(rep.obligations)
    discharged = len([o for o in rep.obligations if o['verdict'] == 'ok'])
    distinct = len({(o['rule'], o['fn'], o['instance']) for o in rep.obligations if o['nontrivial']})
    rules = sorted({o['rule'] for o in rep.obligations})
    ev = {
        'property_id': rep.prop,
        'tier': rep.tier,
        'seed': rep.seed,
        'level': level,
        'wall_s': round(time.time() - rep.t0, 3),
        'violations': len(real),
        'coverage': {
            'explanation': explanation,
            'evaluations': obligations,
            'distinct_nontrivial': distinct,
            'obligations': obligations,
            'discharged': discharged,
            'rule': 'one evaluation = one (rule, function, instance) obligation evaluated on the MIR/type facts of the '
                    'current /repo tree; non-trivial = the anchor exists in the crate and the obligation inspected at '
                    'least one MIR construct or type fact (floor/count obligations are trivial); distinct = distinct '
                    '(rule, function, instance) triples',
            'rules': rules,
            'per_rule': {r: len([o for o in rep.obligations if o['rule'] == r]) for r in rules},
            'bodies_analysed': rep.bodies_analysed,
            'call_sites_examined': rep.call_sites,
            'configs': rep.configs,
            'positive_controls_fired': rep.posctl,
            'samples': rep.samples[:40] if rep.samples else [{'note': 'no obligations were generated'}],
            'known_findings_hit': [v['key'] for v in knownhits],
            'known_findings_stale': stale,
            'notes': rep.notes,
            'checker_cmd': checker_cmd or ('./check %s --tier %s' % (rep.prop, rep.tier)),
            'trusted_base': trusted_base,
            'repo': rep.repo,
        },
        'assumptions': assumptions,
    }
    ev['coverage'].update(rep.extra)
    os.makedirs(EVID, exist_ok=True)
    # evidence of a scratch-repo run must not overwrite the registered evidence
    target = os.path.join(EVID, rep.prop + '.json') if registered else os.path.join(vdir, 'evidence-%s.json' % rep.prop)
    tmp = target + '.tmp.%d' % os.getpid()
    with open(tmp, 'w') as f:
        json.dump(ev, f, indent=1, default=str)
    os.replace(tmp, target)
    if not real:
        print('OK property=%s tier=%s obligations=%d discharged=%d known=%d wall=%.1fs' % (
            rep.prop, rep.tier, obligations, discharged, len(knownhits), time.time() - rep.t0), file=out)
    return 1 if real else 0
