"""Loading of the fact document produced by engine/driver, and a MIR pretty-printer.

The fact document is plain data; this module only wraps it in small classes and gives
every construct a readable textual form (used in violation reports and evidence)."""
import json


class Facts:
    def __init__(self, doc):
        from .normalize import (canonicalize_generics, transparent_helpers, canonical_apis, expand_combinators, eliminate_try,
                                thread_known_discriminants, expand_int_try_from, expand_for_each, pinned_field_names, expand_result_ok, expand_find_map, pinned_adt_paths, expand_closure_calls, expand_array_try_from, drop_dead_closures, expand_array_from_fn, unroll_literal_loops, materialize_default_methods, hoist_return_conversion, expand_value_combinators, expand_bool_then)
        doc = hoist_return_conversion(doc)
        doc = canonicalize_generics(doc)
        doc = pinned_adt_paths(doc)
        doc = pinned_field_names(doc)
        doc = materialize_default_methods(doc)
        doc = transparent_helpers(doc)
        doc = canonical_apis(doc)
        doc = expand_int_try_from(doc)
        doc = expand_array_try_from(doc)
        doc = unroll_literal_loops(doc)
        doc = expand_array_from_fn(doc)
        doc = expand_bool_then(doc)
        doc = expand_closure_calls(doc)
        doc = expand_for_each(doc)
        doc = expand_find_map(doc)
        doc = expand_value_combinators(doc)
        doc = expand_result_ok(doc)
        doc = expand_combinators(doc)
        doc = expand_value_combinators(doc)
        doc = eliminate_try(doc)
        doc = thread_known_discriminants(doc)
        doc = drop_dead_closures(doc)
        self.doc = doc
        self.meta = doc['meta']
        self.bodies = {}
        self.body_list = []
        for b in doc['bodies']:
            body = Body(b, self)
            self.body_list.append(body)
            # keys are unique by construction; keep first on clash and record it
            if body.key in self.bodies:
                self.meta.setdefault('key_clashes', []).append(body.key)
            else:
                self.bodies[body.key] = body
        self.impls = doc['impls']
        self.adts = {a['path']: a for a in doc['adts']}
        self.traits = {t['path']: t for t in doc.get('traits', [])}
        self.statics = doc['statics']
        self.consts = doc['consts']
        self.unsafe_sites = doc['unsafe_sites']
        self.api = doc['api']
        self.derived = doc['derived']
        self.extern_crates = doc.get('extern_crates', [])

    @staticmethod
    def load(path):
        with open(path) as f:
            return Facts(json.load(f))

    def body(self, key):
        return self.bodies.get(key)

    def impls_of(self, trait_suffix):
        """impls whose trait path (without generic args) ends with trait_suffix"""
        out = []
        for im in self.impls:
            t = im.get('trait_def')
            if t and (t == trait_suffix or t.endswith('::' + trait_suffix)):
                out.append(im)
        return out

    def call_sites(self):
        for b in self.body_list:
            for bi, blk in enumerate(b.blocks):
                t = blk['term']
                if t['k'] == 'call':
                    yield b, bi, t


def callee_of(term):
    """callee description dict of a call terminator, or None for indirect calls"""
    f = term['func']
    if f.get('k') == 'const' and 'fn' in f:
        return f['fn']
    return None


def callee_path(term):
    c = callee_of(term)
    return c['path'] if c else None


class Body:
    def __init__(self, b, facts=None):
        self.raw = b
        self.facts = facts
        self.key = b.get('key')
        self.kind = b.get('kind')
        self.blocks = b['blocks']
        self.locals = b['locals']
        self.arg_count = b['arg_count']
        self.span = b.get('span')
        self.promoted = [Body(p, facts) for p in b.get('promoted', [])]
        for i, p in enumerate(self.promoted):
            p.key = '%s::promoted[%d]' % (self.key, i)
            p.span = self.span
        self.sig = b.get('sig')
        self.vis = b.get('vis')
        self.impl_of = b.get('impl_of')
        self.default_of = b.get('default_of')

    def raw_text(self):
        if not hasattr(self, '_raw_text'):
            self._raw_text = json.dumps(self.raw['blocks'], separators=(',', ':'))
        return self._raw_text

    @property
    def file(self):
        return self.span['file'] if self.span else '?'

    def local_name(self, l):
        d = self.locals[l]
        return d.get('name')

    def local_ty(self, l):
        """type of a local; a `Zeroizing<T>` holds a T and derefs to it (it only adds a wipe on drop): the value analysis treats
        `Zeroizing::new(x)` as x, so the local's type is reported as T (local_ty_raw gives the spelled type)"""
        ty = self.locals[l]['ty']
        while ty.startswith('zeroize::Zeroizing<') and ty.endswith('>'):
            ty = ty[len('zeroize::Zeroizing<'):-1]
        return ty

    def local_ty_raw(self, l):
        return self.locals[l]['ty']

    def where(self, bi=None, line=None):
        w = {'file': self.file, 'function': self.key}
        if bi is not None:
            w['block'] = 'bb%d' % bi
            if line is None:
                line = self.blocks[bi]['term'].get('line')
        if line is not None:
            w['line'] = line
        elif self.span:
            w['line'] = self.span['lo']
        return w

    # ---- pretty printing -------------------------------------------------
    def pp_place(self, p):
        s = '_%d' % p['l']
        n = self.local_name(p['l'])
        if n:
            s = '%s{%s}' % (s, n)
        for e in p['p']:
            if e == 'deref':
                s = '(*%s)' % s
            elif 'f' in e:
                s = '%s.%s' % (s, e['f'])
            elif 'index' in e:
                s = '%s[_%d]' % (s, e['index'])
            elif 'cindex' in e:
                s = '%s[%s%d]' % (s, '-' if e['from_end'] else '', e['cindex'])
            elif 'subslice' in e:
                s = '%s[%d..%s%d]' % (s, e['subslice'][0], '-' if e['from_end'] else '', e['subslice'][1])
            elif 'downcast' in e:
                s = '(%s as %s)' % (s, e['downcast'])
            else:
                s = '%s.<%s>' % (s, list(e.keys())[0])
        return s

    def pp_op(self, o):
        k = o['k']
        if k in ('copy', 'move'):
            return '%s %s' % (k, self.pp_place(o['place']))
        if k == 'const':
            if 'fn' in o:
                return 'fn ' + o['fn']['path_args']
            if 'promoted' in o:
                return 'promoted[%d]' % o['promoted']
            if 'bytes' in o:
                try:
                    return 'b%r' % bytes.fromhex(o['bytes']).decode('latin1')
                except Exception:
                    return 'bytes:' + o['bytes']
            if 'int' in o:
                return 'const %s_%s' % (o['int'], o['ty'])
            if 'uneval' in o:
                return 'const ' + o['uneval']
            return o.get('text', 'const ?')
        return k

    def pp_rv(self, rv):
        k = rv['k']
        if k == 'use':
            return self.pp_op(rv['op'])
        if k == 'ref':
            return '&%s%s' % ('mut ' if rv['mut'] else '', self.pp_place(rv['place']))
        if k == 'rawptr':
            return '&raw %s%s' % ('mut ' if rv['mut'] else 'const ', self.pp_place(rv['place']))
        if k == 'cast':
            return '%s as %s (%s)' % (self.pp_op(rv['op']), rv['ty'], rv['cast'])
        if k == 'binop':
            return '%s(%s, %s)' % (rv['op'], self.pp_op(rv['l']), self.pp_op(rv['r']))
        if k == 'unop':
            return '%s(%s)' % (rv['op'], self.pp_op(rv['x']))
        if k == 'discriminant':
            return 'discriminant(%s)' % self.pp_place(rv['place'])
        if k == 'repeat':
            return '[%s; %s]' % (self.pp_op(rv['op']), rv['n'])
        if k == 'aggregate':
            fs = ', '.join(self.pp_op(f) for f in rv['fields'])
            a = rv['agg']
            if a == 'adt':
                return '%s::%s { %s }' % (rv['adt'], rv['variant'], fs)
            if a == 'closure':
                return 'closure %s [%s]' % (rv['closure'], fs)
            return '%s(%s)' % (a, fs)
        return k

    def pp_term(self, t):
        k = t['k']
        if k == 'goto':
            return 'goto -> bb%d' % t['target']
        if k == 'switch':
            ts = ', '.join('%s: bb%d' % (v, bb) for v, bb in t['targets'])
            return 'switchInt(%s) -> [%s, otherwise: bb%d]' % (self.pp_op(t['discr']), ts, t['otherwise'])
        if k == 'call':
            c = callee_of(t)
            name = c['path_args'] if c else self.pp_op(t['func'])
            args = ', '.join(self.pp_op(a) for a in t['args'])
            tgt = ('bb%d' % t['target']) if t['target'] is not None else 'diverge'
            return '%s = %s(%s) -> %s [unwind %s]' % (self.pp_place(t['dest']), name, args, tgt, t['unwind'])
        if k == 'drop':
            return 'drop(%s) -> bb%d [unwind %s]' % (self.pp_place(t['place']), t['target'], t['unwind'])
        if k == 'assert':
            return 'assert(%s%s, %s) -> bb%d' % ('' if t['expected'] else '!', self.pp_op(t['cond']), t['msg'], t['target'])
        return k

    def pp(self, cleanup=False):
        out = ['fn %s  [%s:%s]' % (self.key, self.file, self.span['lo'] if self.span else '?')]
        for i, l in enumerate(self.locals):
            out.append('    let _%d: %s%s' % (i, l['ty'], (' // ' + l['name']) if l.get('name') else ''))
        for bi, blk in enumerate(self.blocks):
            if blk['cleanup'] and not cleanup:
                continue
            out.append('  bb%d%s:' % (bi, ' (cleanup)' if blk['cleanup'] else ''))
            for st in blk['stmts']:
                if st['k'] == 'assign':
                    out.append('    %s = %s    // L%s' % (self.pp_place(st['place']), self.pp_rv(st['rv']), st.get('line')))
                elif st['k'] == 'set_discr':
                    out.append('    discriminant(%s) = %d' % (self.pp_place(st['place']), st['v']))
                else:
                    out.append('    ' + st['k'])
            out.append('    ' + self.pp_term(blk['term']) + '    // L%s' % blk['term'].get('line'))
        for i, p in enumerate(self.promoted):
            out.append('  promoted[%d]:' % i)
            out.extend('    ' + x for x in p.pp(cleanup).split('\n')[1:])
        return '\n'.join(out)
