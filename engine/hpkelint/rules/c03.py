"""C03 — DHKEM conformance: wiring of Encap/Decap/Auth*, ExtractAndExpand, DeriveKeyPair
(DESIGN §5 C03: R03.1 … R03.6)."""
from ..prov import get_an, pp, bytes_of, strip_sites, unref, walk
from ..tyutil import typenum_usize, generic_args
from .common import all_ans, where, impl_bodies, switch_edge, is_ok_agg
from .hpketerms import Norm, concat_pieces, check_append_helper, ppn
from . import rfc9180 as rfc
from . import c18

EXPLANATION = (
    'Static analysis of MIR (all cargo features), separately for each of the four impl_dhkem! expansions and the '
    'X25519 / three nistp_dhkex! back-ends, against the RFC 9180 §4.1 / §7.1.3 reference terms in rules/rfc9180.py. '
    'R03.1 ExtractAndExpand = LabeledExpand(LabeledExtract("", "eae_prk", dh), "shared_secret", kem_context, Nsecret). '
    'R03.2 Encap/AuthEncap: dh = Ser(DH(skE,pkR)) [|| Ser(DH(skS,pkR))], kem_context = enc || pkRm [|| pkSm], enc = '
    'pk(skE), KEM suite id, the KDF of Table 2, output buffer of Nsecret bytes; Decap/AuthDecap: dh = Ser(DH(skR,pkE)) '
    '[|| Ser(DH(skR,pkS))], kem_context = enc || Ser(pk(skR)) [|| pkSm]; the auth branch is taken iff the identity '
    'option is Some. R03.3 DeriveKeyPair: X25519 (dkp_prk / sk, empty info, 32 bytes, pk from sk), NIST (dkp_prk, '
    'candidate loop over 0..=255 with the counter as one byte, per-curve bitmask on byte 0, acceptance through the '
    'validating from_bytes, early return, panic only after 256 failures). R03.4 gen_keypair = derive(random Nsk bytes); '
    'sk_to_pk wiring. R03.5 DH result serialisation (raw x-coordinate / dalek bytes, Ndh). R03.6 all four expansions '
    'yield the same abstract terms. Not decided: curve arithmetic, clamping, SEC1 encoding (dependencies).')
TRUSTED = ['x25519-dalek, p256/p384/p521 (scalar multiplication, encodings)', 'hkdf/hmac/sha2', 'the RFC transcription in rules/rfc9180.py']
ASSUME = ['EncappedKey serialises as its public key (checked: R03.2 enc-serialisation)']

XAE = 'kdf::extract_and_expand'


def check_extract_and_expand(rep, facts, rule='R03.1'):
    a = get_an(facts, XAE)
    if a is None:
        rep.anchor_lost(rule, XAE, 'ExtractAndExpand', 'not found')
        return
    rt = strip_sites(a.ret_val())
    fn = XAE
    ok = False
    if rt[0] == 'call' and rt[1] == 'kdf::LabeledExpand::labeled_expand' and len(rt[2]) == 5:
        prk, suite, label, info, out = rt[2]
        # prk = &hkdf_ctx where hkdf_ctx = labeled_extract(..).1
        ex = a.calls(lambda c: c.get('key') == 'kdf::labeled_extract')
        if len(ex) == 1:
            bi = ex[0][0]
            eargs = [a.arg_val(bi, i) for i in range(4)]
            exp_bi = a.calls(lambda c: c['name'] == 'labeled_expand')[0][0]
            prkv = a.deref_val(a.arg_val(exp_bi, 0), a.term_point(exp_bi))
            okprk = prkv[0] == 'field' and prkv[1] == '1' and prkv[2][0] == 'call' and prkv[2][3] == bi
            okex = bytes_of(eargs[0]) == b'' and eargs[1] == ('param', 2) and bytes_of(eargs[2]) == rfc.L_EAE_PRK and eargs[3] == ('param', 1) and \
                tuple(ex[0][2].get('generic_args', ())) == ('Kdf',)
            okxp = suite == ('param', 2) and bytes_of(label) == rfc.L_SHARED_SECRET and info == ('param', 3) and out == ('param', 4)
            ok = okprk and okex and okxp
    rep.check(ok, rule, fn, 'extract-and-expand', pp(a.ret_val())[:300],
              'labeled_expand(labeled_extract::<Kdf>("", suite, "eae_prk", dh).prk, suite, "shared_secret", kem_context, out)', where(a))


def kem_functions(facts, spec):
    """(encap body key, decap body key, Kem impl self type) for one KEM of the oracle table"""
    kty = spec['kem_mod'] + '::' + spec['ty']
    decap = '<%s as kem::Kem>::decap' % kty
    encap = '<%s as kem::Kem>::encap' % kty
    ea = get_an(facts, encap)
    inner = None
    if ea is not None:
        for bi, t, c in ea.calls(lambda c: c.get('local') and c['def_kind'] == 'Fn' and c['name'] != 'gen_keypair'):
            inner = c.get('key')
    return inner, decap, kty


def branch_of(a, bi):
    """'auth' / 'base' for a block, from the dominating switch on the identity option (param 2)"""
    for b2 in reversed(a.cfg.dom_chain(bi)):
        t = a.body.blocks[b2]['term']
        if t['k'] != 'switch':
            continue
        d = a.val_op(t['discr'], a.term_point(b2))
        if d == ('discr', ('param', 2)):
            some = switch_edge(t, 1)
            none = switch_edge(t, 0)
            if a.cfg.edge_dominates(b2, some, bi) and some != none:
                return 'auth'
            if a.cfg.edge_dominates(b2, none, bi) and some != none:
                return 'base'
    return None


def check_kem_side(rep, facts, spec, key, side, rule='R03.2'):
    a = get_an(facts, key)
    if a is None:
        rep.anchor_lost(rule, '%s of %s' % (side, spec['name']), key, 'not found')
        return None
    fn = key
    kty = spec['kem_mod'] + '::' + spec['ty']
    kdf_ty = 'kdf::' + rfc.KDFS[spec['kdf']]['ty']
    dh_ty = None
    if side == 'encap':
        sym = {('param', 1): 'pkR', ('param', 3): 'skE',
               ('field', '0', ('field', '0', ('variant', 'Some', ('param', 2)))): 'skS',
               ('field', '1', ('field', '0', ('variant', 'Some', ('param', 2)))): 'pkS'}
        ref = {
            'auth': ([('Ser', ('DH', ('sym', 'skE'), ('sym', 'pkR'))), ('Ser', ('DH', ('sym', 'skS'), ('sym', 'pkR')))],
                     [('Ser', ('Enc', ('PK', ('sym', 'skE')))), ('Ser', ('sym', 'pkR')), ('Ser', ('sym', 'pkS'))]),
            'base': ([('Ser', ('DH', ('sym', 'skE'), ('sym', 'pkR')))],
                     [('Ser', ('Enc', ('PK', ('sym', 'skE')))), ('Ser', ('sym', 'pkR'))]),
        }
    else:
        sym = {('param', 1): 'skR', ('param', 3): 'enc', ('field', '0', ('variant', 'Some', ('param', 2))): 'pkS'}
        ref = {
            'auth': ([('Ser', ('DH', ('sym', 'skR'), ('field0', ('sym', 'enc')))), ('Ser', ('DH', ('sym', 'skR'), ('sym', 'pkS')))],
                     [('Ser', ('sym', 'enc')), ('Ser', ('PK', ('sym', 'skR'))), ('Ser', ('sym', 'pkS'))]),
            'base': ([('Ser', ('DH', ('sym', 'skR'), ('field0', ('sym', 'enc'))))],
                     [('Ser', ('sym', 'enc')), ('Ser', ('PK', ('sym', 'skR')))]),
        }
    nm = Norm(a, sym)
    sites = a.calls(lambda c: c.get('key') == XAE)
    seen = {}
    helpers = set()
    for bi, t, c in sites:
        br = branch_of(a, bi)
        p = a.term_point(bi)
        if br is None or br in seen:
            rep.bad(rule, fn, 'branch', 'extract_and_expand at line %s: branch %s' % (t.get('line'), br),
                    'one ExtractAndExpand on the Some branch and one on the None branch of the identity option', where(a, p))
            continue
        args = [a.arg_val(bi, i) for i in range(4)]
        # KDF and suite
        gen = tuple(c.get('generic_args', ()))
        rep.check(gen == (kdf_ty,), rule, fn, '%s:kdf' % br, gen, 'the KDF of RFC Table 2 for %s: %s' % (spec['name'], kdf_ty), where(a, p))
        sv = a.deref_val(args[1], p)
        rep.check(sv[0] == 'call' and sv[1] == 'util::kem_suite_id' and sv[4] and sv[4][4] == (kty,), rule, fn, '%s:suite' % br, pp(sv)[:100],
                  'suite_id = "KEM" || I2OSP(kem_id, 2) of this KEM', where(a, p))

        def pieces_of(refterm):
            ps, helper, N = concat_pieces(a, refterm, p)
            if ps is None:
                # a single piece handed over directly
                return [nm.n(refterm, p)], None, helper
            helpers.add(helper)
            return [nm.n(pr, site) for pr, site in ps], N, None
        ikm, N1, why1 = pieces_of(args[0])
        ctx, N2, why2 = pieces_of(args[2])
        want_ikm, want_ctx = ref[br]
        rep.check(ikm == want_ikm, rule, fn, '%s:dh' % br, ' || '.join(ppn(x) for x in ikm),
                  ' || '.join(ppn(x) for x in want_ikm) + '  (RFC 9180 §4.1)', where(a, p))
        rep.check(ctx == want_ctx, rule, fn, '%s:kem_context' % br, ' || '.join(ppn(x) for x in ctx),
                  ' || '.join(ppn(x) for x in want_ctx) + '  (RFC 9180 §4.1)', where(a, p))
        # DH over the right group
        dh_ty = sorted(nm.dh_types, key=str)[0] if len(nm.dh_types) == 1 else sorted(nm.dh_types, key=str)
        # output: the whole SharedSecret buffer
        out = args[3]
        okout = out[0] == 'addr' and out[1][0] == 'local' and out[2] == (('f', '0'),) and a.body.local_ty(out[1][1]) == 'kem::SharedSecret<%s>' % kty
        rep.check(okout, rule, fn, '%s:output' % br, pp(out), 'the whole SharedSecret<Kem> buffer (Nsecret bytes)', where(a, p))
        seen[br] = (ikm, ctx, bi, out)
    rep.check(set(seen) == {'auth', 'base'}, rule, fn, 'both-branches', sorted(seen), 'AuthEncap/AuthDecap and Encap/Decap are both present', where(a))
    # what is returned
    for s, t in a.return_terms():
        if is_ok_agg(t):
            pl = t[3][0]
            if side == 'encap':
                good = pl[0] == 'agg' and pl[1] == 'tuple' and len(pl[3]) == 2 and nm.n(pl[3][1], s) == ('Enc', ('PK', ('sym', 'skE')))
                ss = pl[3][0] if good else None
                exp = 'Ok((shared_secret, EncappedKey(pk(skE))))'
            else:
                good = True
                ss = pl
                exp = 'Ok(shared_secret)'
            okss = False
            if ss is not None:
                alts = [x[1] for x in ss[1]] if ss[0] == 'phi' else [ss]
                okss = bool(alts)
                xae_sites = {v2[2] for v2 in seen.values()}
                for v in alts:
                    if v[0] != 'mem' or not v[3]:
                        okss = False
                        continue
                    ws = v[3]
                    shape = all(w[2][0] == 'call' and w[2][1] == XAE and w[1] == (('f', '0'),) and w[0][0] in xae_sites for w in ws)
                    if len(ws) == 1:
                        okss = okss and shape
                    else:
                        # one buffer filled on either branch of the identity option: the writers sit on different branches and no
                        # path reaches this return without passing one of them
                        wb = [w[0][0] for w in ws]
                        excl = len(set(wb)) == len(wb) and all(not a.cfg.reaches_avoiding(x, y) for x in wb for y in wb if x != y)
                        covered = s not in (None, 'entry') and not a.cfg.reaches_avoiding(0, s[0], avoid_blocks=set(wb))
                        okss = okss and shape and excl and covered
            rep.check(good and okss, rule, fn, 'result', pp(t)[:200], exp + ' — the buffer written by ExtractAndExpand', where(a, s))
    for h in helpers:
        if h:
            check_append_helper(rep, facts, h, rule)
    return {'terms': {k: (v[0], v[1]) for k, v in seen.items()}, 'dh_ty': dh_ty}


def check_kem_wrappers(rep, facts, spec, rule='R03.2'):
    kty = spec['kem_mod'] + '::' + spec['ty']
    dhx = None
    for im in facts.impls_of('dhkex::DhKeyExchange'):
        if im['self_ty'].startswith(spec['dh_mod'] + '::'):
            dhx = im['self_ty']
    kdf_ty = 'kdf::' + rfc.KDFS[spec['kdf']]['ty']
    a = get_an(facts, '<%s as kem::Kem>::derive_keypair' % kty)
    if a is None:
        rep.anchor_lost(rule, 'Kem::derive_keypair of ' + spec['name'], 'impl body', 'not found')
    else:
        rt = a.ret_val()
        ok = False
        if rt[0] == 'call' and rt[1] == 'dhkex::DhKeyExchange::derive_keypair' and rt[4]:
            sv = a.deref_val(rt[2][0], a.term_point(rt[3]))
            suite_ok = sv[0] == 'call' and sv[1] == 'util::kem_suite_id' and sv[4][4] == (kty,)
            if not suite_ok:
                # the same five bytes spelled out: "KEM" || I2OSP(this KEM's id, 2)
                from .c02 import symbolic_bytes
                sb = symbolic_bytes(sv)
                if sb is not None and len(sb) == 5 and [x for x in sb[:3]] == [('c', c) for c in b'KEM']:
                    hi, lo = sb[3], sb[4]
                    kid = [k for k, v in rfc.KEMS.items() if v is spec][0]
                    def byte_of(x, k):
                        if x[0] == 'c':
                            return x[1]
                        if x[0] == 'be' and x[2] == k and x[3] == 2 and x[1][0] == 'const' and isinstance(x[1][2], int):
                            return (x[1][2] >> (8 * (1 - k))) & 0xFF
                        return None
                    suite_ok = byte_of(hi, 0) == (kid >> 8) & 0xFF and byte_of(lo, 1) == kid & 0xFF
            ok = rt[4][2] == dhx and rt[4][4][-1:] == (kdf_ty,) and rt[2][1] == ('param', 1) and suite_ok
        rep.check(ok, 'R03.3', a.body.key, 'derive-dispatch', pp(rt)[:200],
                  '<%s>::derive_keypair::<%s>(&kem_suite_id::<Self>(), ikm)' % (dhx, kdf_ty), where(a))
    a = get_an(facts, '<%s as kem::Kem>::sk_to_pk' % kty)
    if a is not None:
        rt = a.ret_val()
        ok = rt[0] == 'call' and rt[1] == 'dhkex::DhKeyExchange::sk_to_pk' and rt[4] and rt[4][2] == dhx and rt[2] == (('param', 1),)
        rep.check(ok, 'R03.4', a.body.key, 'sk_to_pk-dispatch', pp(rt)[:120], '<%s>::sk_to_pk(sk)' % dhx, where(a))
    # EncappedKey serialises as its public key
    a = get_an(facts, '<%s::EncappedKey as Serializable>::write_exact' % spec['kem_mod'])
    if a is None:
        rep.anchor_lost(rule, 'EncappedKey::write_exact of ' + spec['name'], 'impl body', 'not found')
    else:
        cs = a.calls(lambda c: c['name'] == 'copy_from_slice')
        ok = False
        if len(cs) == 1:
            src = a.deref_val(a.arg_val(cs[0][0], 1), a.term_point(cs[0][0]))
            ok = a.arg_val(cs[0][0], 0) == ('param', 2) and src[0] == 'call' and src[1] == 'Serializable::to_bytes' and pp(src[2][0]) == '&*p1.0'
        if not cs:
            # the wrapped public key serialises itself straight into the caller's buffer
            ds = a.calls(lambda c: c['name'] == 'write_exact' and c.get('trait') == 'Serializable')
            ok = len(ds) == 1 and pp(a.arg_val(ds[0][0], 0)) == '&*p1.0' and a.arg_val(ds[0][0], 1) == ('param', 2) and \
                all(a.cfg.dominates(ds[0][0], r) for r in a.cfg.returns)
        rep.check(ok, rule, a.body.key, 'enc-serialisation', [pp(a.arg_val(bi, 1)) for bi, _, _ in cs],
                  'enc = SerializePublicKey(pkE): EncappedKey writes its public key\'s bytes', where(a))
    return dhx


def check_x25519_derive(rep, facts, dhx, rule='R03.3'):
    a = get_an(facts, '<%s as dhkex::DhKeyExchange>::derive_keypair' % dhx)
    if a is None:
        rep.anchor_lost(rule, 'X25519 derive_keypair', dhx, 'not found')
        return
    fn = a.body.key
    ex = a.calls(lambda c: c.get('key') == 'kdf::labeled_extract')
    xp = a.calls(lambda c: c['name'] == 'labeled_expand')
    if len(ex) != 1 or len(xp) != 1:
        rep.bad(rule, fn, 'shape', '%d extract, %d expand' % (len(ex), len(xp)), 'one LabeledExtract and one LabeledExpand', where(a))
        return
    eb, xb = ex[0][0], xp[0][0]
    ea = [a.arg_val(eb, i) for i in range(4)]
    oke = bytes_of(ea[0]) == b'' and ea[1] == ('param', 1) and bytes_of(ea[2]) == rfc.L_DKP_PRK and ea[3] == ('param', 2) and tuple(ex[0][2]['generic_args']) == ('Kdf',)
    rep.check(oke, rule, fn, 'dkp_prk', 'labeled_extract(%s)' % ', '.join(pp(x) for x in ea), 'dkp_prk = LabeledExtract("", "dkp_prk", ikm)', where(a, a.term_point(eb)))
    xa = [a.arg_val(xb, i) for i in range(5)]
    prk = a.deref_val(xa[0], a.term_point(xb))
    out = xa[4]
    okx = prk[0] == 'field' and prk[1] == '1' and prk[2][0] == 'call' and prk[2][3] == eb and xa[1] == ('param', 1) and \
        bytes_of(xa[2]) == rfc.L_SK and bytes_of(xa[3]) == b'' and out[0] == 'addr' and out[1][0] == 'local' and not out[2] and a.body.local_ty(out[1][1]) == '[u8; 32]'
    rep.check(okx, rule, fn, 'sk', 'labeled_expand(%s)' % ', '.join(pp(x)[:50] for x in xa), 'sk = LabeledExpand(dkp_prk, "sk", "", 32)', where(a, a.term_point(xb)))
    rt = a.ret_val()
    ok = False
    if rt[0] == 'agg' and rt[1] == 'tuple' and len(rt[3]) == 2:
        skw, pkw = rt[3]
        if skw[0] == 'agg' and len(skw[3]) == 1 and pkw[0] == 'call' and pkw[1] == 'dhkex::DhKeyExchange::sk_to_pk' and pkw[4] and pkw[4][2] == dhx:
            # pk through this group's own sk_to_pk (verified by `pk-of-sk`) applied to the private key being returned
            sk = skw[3][0]
            sk_ok = sk[0] == 'call' and sk[1] == 'core::convert::Into::into' and sk[4] and sk[4][4][1:] == ('x25519_dalek::StaticSecret',) and \
                sk[2][0][0] == 'mem' and len(sk[2][0][3]) == 1 and sk[2][0][3][0][0] == a.term_point(xb)
            src = a.deref_val(pkw[2][0], a.term_point(pkw[3]))
            ok = sk_ok and strip_sites(src) == strip_sites(skw)
        elif skw[0] == 'agg' and pkw[0] == 'agg' and len(skw[3]) == 1 and len(pkw[3]) == 1:
            sk, pk = skw[3][0], pkw[3][0]
            sk_ok = sk[0] == 'call' and sk[1] == 'core::convert::Into::into' and sk[4] and sk[4][4][1:] == ('x25519_dalek::StaticSecret',) and \
                sk[2][0][0] == 'mem' and len(sk[2][0][3]) == 1 and sk[2][0][3][0][0] == a.term_point(xb)
            pk_ok = pk[0] == 'call' and pk[1] == 'core::convert::Into::into' and pk[4] and pk[4][4][1:] == ('x25519_dalek::PublicKey',)
            if pk_ok:
                src = a.deref_val(pk[2][0], a.term_point(pk[3]))
                pk_ok = src == sk or strip_sites(src) == strip_sites(sk)
            ok = sk_ok and pk_ok
    rep.check(ok, rule, fn, 'result', pp(rt)[:260], '(StaticSecret::from(sk bytes), PublicKey::from(&that secret))', where(a))


def check_nist_derive(rep, facts, spec, dhx, rule='R03.3'):
    a = get_an(facts, '<%s as dhkex::DhKeyExchange>::derive_keypair' % dhx)
    if a is None:
        rep.anchor_lost(rule, 'NIST derive_keypair ' + spec['name'], dhx, 'not found')
        return
    fn = a.body.key
    ex = a.calls(lambda c: c.get('key') == 'kdf::labeled_extract')
    xp = a.calls(lambda c: c['name'] == 'labeled_expand')
    if len(ex) != 1 or len(xp) != 1:
        rep.bad(rule, fn, 'shape', '%d extract, %d expand' % (len(ex), len(xp)), 'one LabeledExtract and one LabeledExpand', where(a))
        return
    eb, xb = ex[0][0], xp[0][0]
    ea = [a.arg_val(eb, i) for i in range(4)]
    oke = bytes_of(ea[0]) == b'' and ea[1] == ('param', 1) and bytes_of(ea[2]) == rfc.L_DKP_PRK and ea[3] == ('param', 2) and tuple(ex[0][2]['generic_args']) == ('Kdf',)
    rep.check(oke, rule, fn, 'dkp_prk', 'labeled_extract(%s)' % ', '.join(pp(x) for x in ea), 'dkp_prk = LabeledExtract("", "dkp_prk", ikm)', where(a, a.term_point(eb)))
    # the loop: a single back edge, iterator over 0..=255 (u8)
    be = a.cfg.back_edges()
    rep.check(len(be) == 1, rule, fn, 'single-loop', be, 'one candidate loop', where(a))
    nx = a.calls(lambda c: c['name'] == 'next' and c.get('trait') == 'core::iter::Iterator')
    rng_ok = False
    counter = None
    if len(nx) == 1:
        nb = nx[0][0]
        it = a.deref_val(a.arg_val(nb, 0), a.term_point(nb))
        src = it[2] if it[0] == 'mem' else it
        while src[0] == 'call' and src[1] == 'core::iter::IntoIterator::into_iter':
            src = src[2][0]
        if src[0] == 'call' and src[1] == 'core::ops::RangeInclusive::new':
            rng_ok = src[2] == (('const', 'u8', 0), ('const', 'u8', 255))
        elif src[0] == 'agg' and src[2].startswith('core::ops::RangeInclusive'):
            rng_ok = False
        counter = nb
    rep.check(rng_ok, rule, fn, 'counter-range', pp(a.arg_val(nx[0][0], 0)) if nx else 'no iterator', 'counter ranges over 0..=255 (u8): 256 attempts', where(a))
    xa = [a.arg_val(xb, i) for i in range(5)]
    prk = a.deref_val(xa[0], a.term_point(xb))
    info = unref(xa[3])
    okinfo = info[0] == 'agg' and info[1] == 'array' and len(info[3]) == 1 and info[3][0][0] == 'field' and info[3][0][2][0] == 'variant' and \
        info[3][0][2][1] == 'Some' and info[3][0][2][2][0] == 'call' and info[3][0][2][2][3] == counter
    out = xa[4]
    buf_l = out[1][1] if out[0] == 'addr' and out[1][0] == 'local' else None
    bty = a.body.local_ty(buf_l) if buf_l is not None else ''
    ga = generic_args(bty)
    nbuf = typenum_usize(ga[1]) if len(ga) == 2 else None
    okx = prk[0] == 'field' and prk[1] == '1' and prk[2][0] == 'call' and prk[2][3] == eb and xa[1] == ('param', 1) and bytes_of(xa[2]) == rfc.L_CANDIDATE
    rep.check(okx and okinfo and not out[2] and nbuf == spec['Nsk'], rule, fn, 'candidate',
              'labeled_expand(prk ok=%s, label=%s, info=%s, out=%s of %s bytes)' % (okx, pp(xa[2]), pp(info)[:80], pp(out), nbuf),
              'bytes = LabeledExpand(dkp_prk, "candidate", I2OSP(counter, 1), Nsk = %d)' % spec['Nsk'], where(a, a.term_point(xb)))
    # bitmask on byte 0
    masks = []
    for site, pl in a.deref_stores:
        st = a.stmt_at(site)
        base, path = a.place_desc(pl, site)
        if base == ('local', buf_l):
            v = a.val_rv(st['rv'], site)
            masks.append((site, path, v))
    okm = False
    if len(masks) == 1:
        site, path, v = masks[0]
        idx0 = len(path) == 1 and path[0][0] == 'i' and path[0][1] == ('const', 'usize', 0)
        okm = idx0 and v[0] == 'bin' and v[1] == 'BitAnd' and v[3] == ('const', 'u8', spec['mask']) and \
            a.cfg.dominates(xb, site[0])
        # the from_bytes call must come after the mask
        fb = a.calls(lambda c: c['name'] == 'from_bytes')
        okm = okm and len(fb) == 1 and a.cfg.dominates(site[0], fb[0][0])
    rep.check(okm, rule, fn, 'bitmask', [(pp(('addr', ('local', buf_l), p, True)), pp(v)) for _, p, v in masks],
              'bytes[0] &= 0x%02X after the expand and before the range check (RFC 9180 §7.1.3)' % spec['mask'], where(a))
    # acceptance through the validating from_bytes of this curve's PrivateKey; early return (sk, pk(sk))
    fb = a.calls(lambda c: c['name'] == 'from_bytes')
    okf = False
    if len(fb) == 1:
        fbi, ft, fc = fb[0]
        okf = (fc.get('resolved') or {}).get('key') == '<%s::PrivateKey as Deserializable>::from_bytes' % spec['dh_mod'] and \
            a.arg_val(fbi, 0)[:3] == ('addr', ('local', buf_l), ())
    rep.check(okf, rule, fn, 'range-check', [c['path_args'] for _, _, c in fb], 'sk accepted iff PrivateKey::from_bytes(&bytes) succeeds (0 < sk < order)', where(a))
    rt = a.ret_val()
    okr = False
    if rt[0] == 'agg' and rt[1] == 'tuple' and len(rt[3]) == 2 and fb:
        sk, pk = rt[3]
        okr = sk[0] == 'okval' and sk[1][0] == 'call' and sk[1][3] == fb[0][0] and \
            pk[0] == 'call' and pk[1] == 'dhkex::DhKeyExchange::sk_to_pk' and pk[4] and pk[4][2] == dhx
        if okr:
            src = a.deref_val(pk[2][0], a.term_point(pk[3]))
            okr = strip_sites(src) == strip_sites(sk)
    rep.check(okr, rule, fn, 'result', pp(rt)[:200], '(sk, pk(sk)) on the first accepted candidate', where(a))
    # the None exit of the iterator reaches only a diverging panic
    if nx:
        nb = nx[0][0]
        for b2 in a.cfg.reach:
            t2 = a.body.blocks[b2]['term']
            if t2['k'] == 'switch':
                d = a.val_op(t2['discr'], a.term_point(b2))
                if d[0] == 'discr' and d[1][0] == 'call' and d[1][3] == nb:
                    none_t = switch_edge(t2, 0)
                    reach_ret = any(r in a.cfg.fwd(none_t) for r in a.cfg.returns) and none_t not in a.cfg.bwd(nb)
                    leads_back = nb in a.cfg.fwd(none_t)
                    rep.check(not leads_back and not any(r in a.cfg.fwd(none_t) for r in a.cfg.returns), rule, fn, 'exhaustion-diverges',
                              'None arm: returns=%s loops=%s' % (any(r in a.cfg.fwd(none_t) for r in a.cfg.returns), leads_back),
                              'after 256 failed candidates the function diverges (DeriveKeyPairError), it never returns a key', where(a, a.term_point(b2)))


def check_sk_to_pk_and_kex(rep, facts, spec, dhx, rule='R03.4'):
    a = get_an(facts, '<%s as dhkex::DhKeyExchange>::sk_to_pk' % dhx)
    if a is not None:
        rt = a.ret_val()
        ok = False
        if rt[0] == 'agg' and len(rt[3]) == 1:
            v = rt[3][0]
            if spec['nist']:
                ok = v[0] == 'call' and v[1].endswith('SecretKey::public_key') and pp(v[2][0]) == '&*p1.0'
            else:
                ok = v[0] == 'call' and v[1] == 'core::convert::Into::into' and v[4] and v[4][4][1:] == ('x25519_dalek::PublicKey',) and pp(v[2][0]) == '&*p1.0'
        rep.check(ok, rule, a.body.key, 'pk-of-sk', pp(rt)[:160], 'PublicKey(pk(sk)) through the curve crate', where(a))
    a = get_an(facts, '<%s::KexResult as Serializable>::write_exact' % spec['dh_mod'])
    if a is None:
        rep.anchor_lost('R03.5', 'KexResult::write_exact of ' + spec['name'], 'impl body', 'not found')
        return
    cs = a.calls(lambda c: c['name'] == 'copy_from_slice')
    ok = False
    src = None
    if len(cs) == 1:
        src = a.arg_val(cs[0][0], 1)
        want = 'raw_secret_bytes' if spec['nist'] else 'as_bytes'
        ok = a.arg_val(cs[0][0], 0) == ('param', 2) and src[0] == 'call' and src[1].endswith('::' + want) and pp(src[2][0]) == '&*p1.0'
    rep.check(ok, 'R03.5', a.body.key, 'dh-serialisation', pp(src) if src else 'none',
              'the DH result is serialised as its raw bytes (x-coordinate for NIST, u-coordinate for X25519)', where(a))
    d = facts.derived.get(spec['dh_mod'] + '::KexResult', {}).get('Serializable::OutputSize', {}).get('usize')
    rep.check(d == spec['Ndh'], 'R03.5', spec['dh_mod'] + '::KexResult', 'Ndh', d, 'Ndh = %d' % spec['Ndh'], None)


def run(ctx):
    rep, facts = ctx.rep, ctx.facts
    feats = facts.meta.get('features', [])
    check_extract_and_expand(rep, facts)
    results = {}
    n = 0
    for kid, spec in sorted(rfc.KEMS.items()):
        if spec['feature'] not in feats:
            continue
        n += 1
        inner, decap, kty = kem_functions(facts, spec)
        if inner is None:
            rep.anchor_lost('R03.2', 'encapsulation body of ' + spec['name'], 'a local function called by Kem::encap', 'not found')
        else:
            results[(kid, 'encap')] = check_kem_side(rep, facts, spec, inner, 'encap')
        results[(kid, 'decap')] = check_kem_side(rep, facts, spec, decap, 'decap')
        dhx = check_kem_wrappers(rep, facts, spec)
        if dhx is None:
            rep.anchor_lost('R03.3', 'DhKeyExchange impl of ' + spec['name'], spec['dh_mod'], 'not found')
            continue
        for side in ('encap', 'decap'):
            r = results.get((kid, side))
            if r:
                rep.check(r['dh_ty'] == dhx, 'R03.2', kty, '%s:group' % side, r['dh_ty'], 'DH over %s' % dhx, None)
        if spec['nist']:
            check_nist_derive(rep, facts, spec, dhx)
        else:
            check_x25519_derive(rep, facts, dhx)
        check_sk_to_pk_and_kex(rep, facts, spec, dhx)
    nk = len([f for f in ('x25519', 'p256', 'p384', 'p521') if f in feats])
    rep.floor('R03.2', 'KEM expansions', n, nk)
    # R03.6 sibling agreement
    for side in ('encap', 'decap'):
        terms = {kid: r['terms'] for (kid, s2), r in results.items() if s2 == side and r}
        vals = list(terms.values())
        rep.check(all(v == vals[0] for v in vals) if vals else False if nk else True, 'R03.6', '-', 'siblings:%s' % side,
                  '%d expansions, identical abstract terms: %s' % (len(vals), all(v == vals[0] for v in vals) if vals else None),
                  'all KEM expansions yield the same terms up to their type parameters', None)
    # R03.7: ExtractAndExpand and DeriveKeyPair are built on LabeledExtract / LabeledExpand: both must absorb exactly
    # "HPKE-v1" || suite_id || label || ikm resp. I2OSP(L,2) || "HPKE-v1" || suite_id || label || info
    from . import c02 as _c02
    _c02.check_labeled_extract(rep, facts, rule='R03.7')
    _c02.check_labeled_expand(rep, facts, rule='R03.7')
    # R03.8: the shared secret is labelled with suite_id = "KEM" || I2OSP(kem_id, 2): each KEM announces the kem_id and Nsecret of
    # RFC 9180 Table 2 for its own curve and KDF, and kem_suite_id lays that id out byte-exactly
    impls = {im['self_ty']: im for im in facts.impls_of('kem::Kem')}
    nt = 0
    for kid, spec in sorted(rfc.KEMS.items()):
        if spec['feature'] not in feats:
            continue
        st = spec['kem_mod'] + '::' + spec['ty']
        im = impls.get(st)
        if im is None:
            rep.anchor_lost('R03.8', 'impl Kem for ' + st, 'the KEM of ' + spec['name'], 'not found')
            continue
        nt += 1
        got = im['consts'].get('KEM_ID')
        rep.check(got == kid, 'R03.8', st, 'kem-id', '0x%04x' % got if isinstance(got, int) else got, 'KEM_ID = 0x%04x for %s' % (kid, spec['name']), None)
        ns = im['types'].get('NSecret', {}).get('usize')
        rep.check(ns == spec['Nsecret'], 'R03.8', st, 'Nsecret', ns, 'Nsecret = %d' % spec['Nsecret'], None)
    rep.floor('R03.8', 'KEM table entries', nt, nk)
    _c02.check_suite_ids(rep, facts, rule='R03.8')
    g = get_an(facts, 'kem::Kem::gen_keypair')
    if g is not None:
        c18.check_gen_keypair(rep, facts, g, 'R03.4')
    else:
        rep.anchor_lost('R03.4', 'kem::Kem::gen_keypair', 'default body', 'not found')
    rep.bodies_analysed = len(facts.body_list)
