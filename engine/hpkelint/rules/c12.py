"""C12 — serialization: sizes, guards (DESIGN §5 C12: R12.1 … R12.5)."""
from ..prov import get_an, pp, strip_generics, strip_sites
from ..tyutil import typenum_usize, array_len, strip_ref, generic_args
from .. import booldec
from .common import impl_bodies, where, ret_classes, switch_edge, uses_of_local_blocks, explicit_len_guard, is_incorrect_len_err, len_value
from . import c09
from . import rfc9180 as rfc

EXPLANATION = (
    'Static analysis of type-level facts and MIR (all cargo features). R12.1: Npk/Nsk/Nenc/Ndh/Nt of every '
    'Serializable impl equal RFC 9180 Tables 2 and 5 (typenum constants decoded; EncappedKey::OutputSize is defined as '
    'the public key\'s; AeadTag::OutputSize is the AEAD\'s TagSize). R12.2: every Deserializable::from_bytes either '
    'starts with the exact-length guard enforce_equal_len(expected = Self::OutputSize, given = input.len()) whose '
    'success edge dominates every other use of the input, or delegates the whole input and returns the error '
    'unchanged; fixed-size copies that follow use a buffer whose type-level length equals the guard\'s constant. '
    'R12.3: every write_exact panics iff buf.len() != Self::size(): an unconditional enforce_outbuf_len::<T> with '
    'T::OutputSize = Self::OutputSize that precedes any write, or a whole-buffer copy_from_slice from a source of '
    'type-level length Self::OutputSize; to_bytes/size are not overridden. R12.4: decision tables of the two helpers. '
    'R12.5: NIST public keys are encoded uncompressed. R12.6 value flow: from_bytes wraps exactly the input bytes (one '
    'whole copy or the validating parser\'s Ok payload) and write_exact writes exactly the encoding of the wrapped value; '
    'nothing is masked, truncated or rewritten inside this crate. Not decided: from_bytes(to_bytes(x)) == x and canonicity of '
    'the dependency encoders (numerical, inside the dependency crates).')
TRUSTED = ['dependency encoders (dalek as_bytes/from, RustCrypto to_encoded_point/to_bytes/raw_secret_bytes) are lossless and canonical',
           'copy_from_slice panics exactly on length mismatch']
ASSUME = ['typenum constants decode to the integers they denote']


def ser_impls(facts):
    return [im for im in facts.impls if im.get('trait') == 'Serializable']


def size_of_self(facts, self_ty):
    return c09.output_size(facts, self_ty)


def check_sizes(rep, facts, rule='R12.1'):
    n = 0
    feats = facts.meta.get('features', [])
    for im in ser_impls(facts):
        st = im['self_ty']
        osz = im['types'].get('OutputSize', {})
        n += 1
        want = None
        what = None
        short = st.rsplit('::', 2)
        for kem in rfc.KEMS.values():
            if st == kem['dh_mod'] + '::PublicKey':
                want, what = kem['Npk'], 'Npk of %s' % kem['name']
            elif st == kem['dh_mod'] + '::PrivateKey':
                want, what = kem['Nsk'], 'Nsk of %s' % kem['name']
            elif st == kem['dh_mod'] + '::KexResult':
                want, what = kem['Ndh'], 'Ndh of %s' % kem['name']
            elif st == kem['kem_mod'] + '::EncappedKey':
                want, what = kem['Nenc'], 'Nenc of %s' % kem['name']
                raw = osz.get('raw', '')
                rep.check(raw == '<%s::PublicKey as Serializable>::OutputSize' % kem['dh_mod'] or osz.get('usize') == kem['Npk'],
                          rule, st, 'nenc-is-npk', raw, 'EncappedKey::OutputSize is the public key\'s OutputSize', None)
        if st.startswith('aead::AeadTag<'):
            raw = osz.get('raw', '')
            rep.check(raw == '<<A as aead::Aead>::AeadImpl as aead::AeadCore>::TagSize', rule, st, 'tag-size-is-aead-tagsize', raw,
                      'AeadTag::OutputSize = the AEAD\'s TagSize (Nt)', None)
            continue
        if want is None:
            rep.undecided(rule, st, 'unknown-serializable', 'no RFC size known for %s' % st, 'a type listed in RFC 9180 Table 2', None)
            continue
        rep.check(osz.get('usize') == want, rule, st, 'size', 'OutputSize = %s' % osz.get('usize'), '%s = %d (RFC 9180 Table 2 / §4.1)' % (what, want), None)
    # Nt per AEAD
    for im in facts.impls_of('aead::Aead'):
        name = im['self_ty'].rsplit('::', 1)[-1]
        spec = rfc.AEADS.get(im['consts'].get('AEAD_ID'))
        impl_ty = im['types'].get('AeadImpl', {}).get('ty')
        d = facts.derived.get(impl_ty, {})
        nt = d.get('aead::AeadCore::TagSize', {}).get('usize')
        if spec is None:
            rep.bad(rule, im['self_ty'], 'aead-id', im['consts'].get('AEAD_ID'), 'an AEAD id of RFC 9180 Table 5', None)
            continue
        rep.check(nt == spec['Nt'], rule, im['self_ty'], 'Nt', 'TagSize = %s' % nt, 'Nt = %d for %s' % (spec['Nt'], spec['name']), None)
        n += 1
    return n


def find_guard_expected(a, facts, self_ty, bi, exp=None):
    exp = a.arg_val(bi, 0) if exp is None else exp
    n_expected = size_of_self(facts, self_ty)
    n_found = None
    symbolic = False
    own_raw = [im['types']['OutputSize']['raw'] for im in facts.impls if im.get('trait') == 'Serializable' and im['self_ty'] == self_ty]
    if exp[0] == 'call' and exp[1].endswith('::to_usize') and exp[4]:
        n_found = typenum_usize(exp[4][2] or '')
        if n_found is None and exp[4][2] in ['<%s as Serializable>::OutputSize' % self_ty] + own_raw:
            symbolic = True
    elif exp[0] == 'call' and exp[1] == 'Serializable::size' and exp[4] and exp[4][2] == self_ty:
        n_found = n_expected
        symbolic = True
    elif exp[0] == 'const' and isinstance(exp[2], int):
        n_found = exp[2]
    return exp, n_found, n_expected, symbolic


def check_from_bytes(rep, facts, b, rule='R12.2'):
    a = get_an(facts, b.key)
    fn = b.key
    self_ty = b.impl_of['self_ty']
    guards = a.calls(lambda c: c.get('key') == 'util::enforce_equal_len')
    delegs = a.calls(lambda c: c['name'] == 'from_bytes' and c.get('trait') == 'Deserializable')
    if not guards and len(delegs) == 1:
        bi = delegs[0][0]
        rep.check(a.arg_val(bi, 0) == ('param', 1), rule, fn, 'delegates-whole-input', pp(a.arg_val(bi, 0)),
                  'the whole input is handed to another from_bytes', where(a, a.term_point(bi)))
        errs = [tt for s, tt, cls in ret_classes(a, facts) if isinstance(cls, tuple) and cls[0] == 'err']
        ident = all(tt[0] == 'from_residual' and tt[1][0] == 'residual' and tt[1][1][0] == 'call' and tt[1][1][3] == bi for tt in errs)
        rep.check(ident and errs, rule, fn, 'delegate-error-identity', [pp(t)[:100] for t in errs], 'the delegate\'s error is returned unchanged', where(a))
        uses = uses_of_local_blocks(a, 1)
        rep.check(uses == {bi}, rule, fn, 'input-used-once', 'blocks using the input: %s' % sorted(uses), 'the input is only used by the delegation', where(a))
        return
    eg = explicit_len_guard(a, facts) if not guards else None
    if len(guards) != 1 and not eg:
        rep.bad(rule, fn, 'length-guard', '%d enforce_equal_len call(s), %d delegation(s)' % (len(guards), len(delegs)),
                'an exact-length guard or a whole-input delegation', where(a))
        return
    gbi = guards[0][0] if guards else eg['switch']
    exp, n_found, n_expected, symbolic = find_guard_expected(a, facts, self_ty, gbi, eg['n'] if eg else None)
    okexp = (n_found is not None and n_found == n_expected) or (symbolic and n_expected is None)
    if n_expected is None and not symbolic:
        # generic Self (AeadTag<A>): expected must be Self::size() / Self::OutputSize
        okexp = exp[0] == 'call' and exp[1] == 'Serializable::size' and exp[4] and exp[4][2] == self_ty
    if symbolic:
        n_found = None
    rep.check(okexp, rule, fn, 'guard-expected', '%s = %s' % (pp(exp), n_found), 'expected = Self::OutputSize (%s)' % n_expected, where(a, a.term_point(gbi)))
    giv = a.arg_val(gbi, 1) if not eg else ('len', ('param', 1))
    rep.check(giv == ('len', ('param', 1)), rule, fn, 'guard-given', pp(giv), 'given = encoded.len()', where(a, a.term_point(gbi)))
    if eg:
        # the guard spelled out as a comparison: a wrong length returns exactly Err(IncorrectInputLength(N, encoded.len()))
        okr = bool(eg['ne_returns']) and all(is_incorrect_len_err(tt, eg['n'], 1, facts) for s, tt in eg['ne_returns'])
        rep.check(okr, rule, fn, 'guard-propagated', [pp(tt)[:100] for s, tt in eg['ne_returns']],
                  'a wrong length returns Err(IncorrectInputLength(OutputSize, encoded.len()))', where(a, a.term_point(gbi)))
    else:
        prop = [tt for s, tt, cls in ret_classes(a, facts) if tt[0] == 'from_residual' and tt[1][0] == 'residual' and tt[1][1][0] == 'call' and tt[1][1][3] == gbi]
        rep.check(len(prop) == 1, rule, fn, 'guard-propagated', '%d propagating return(s)' % len(prop), 'the guard\'s error is returned unchanged (`?`)', where(a, a.term_point(gbi)))
    edge = eg['eq_edge'] if eg else None
    for b2 in a.cfg.reach if not eg else ():
        t2 = a.body.blocks[b2]['term']
        if t2['k'] == 'switch':
            d = a.val_op(t2['discr'], a.term_point(b2))
            if d[0] == 'discr' and d[1][0] == 'try' and d[1][1][0] == 'call' and d[1][1][3] == gbi:
                edge = (b2, switch_edge(t2, 0))
    if edge is None:
        rep.bad(rule, fn, 'guard-branch', 'guard result not inspected', '`?` on the guard', where(a, a.term_point(gbi)))
        return
    # every other use of the input is dominated by the success edge
    uses = uses_of_local_blocks(a, 1, ignore_len=bool(eg))
    lenblocks = {bi for bi, t, c in a.calls(lambda c: c['name'] == 'len') if a.arg_val(bi, 0) == ('param', 1) and a.cfg.dominates(bi, gbi)}
    late = [u for u in uses if u not in lenblocks and (u != gbi or eg) and not a.cfg.edge_dominates(edge[0], edge[1], u)]
    if eg:
        # on the wrong-length edge the input only feeds the error value, whose exact form was just checked
        late = [u for u in late if not a.cfg.edge_dominates(eg['ne_edge'][0], eg['ne_edge'][1], u)]
    rep.check(not late, rule, fn, 'guard-first', 'uses of the input not dominated by the guard\'s success edge: %s' % late,
              'nothing touches the input before its length is known to be exactly OutputSize', where(a))
    # fixed-size copies
    for bi, t, c in a.calls(lambda c: c['name'] == 'copy_from_slice'):
        dst = a.arg_val(bi, 0)
        src = a.arg_val(bi, 1)
        if src != ('param', 1):
            continue
        n_dst = None
        if dst[0] == 'addr' and dst[1][0] == 'local':
            ty = a.body.local_ty(dst[1][1])
            for e in dst[2]:
                if e[0] == 'f':
                    adt = facts.adts.get(ty.split('<', 1)[0])
                    ty = None if adt is None else [f['ty'] for f in adt['variants'][0]['fields'] if f['name'] == e[1]][0]
                else:
                    ty = None
                if ty is None:
                    break
            if ty:
                n_dst = array_len(ty)
                if n_dst is None and ty.startswith('generic_array::GenericArray<u8,'):
                    ga = generic_args(ty)
                    n_dst = typenum_usize(ga[1]) if len(ga) == 2 else None
                    if n_dst is None and len(ga) == 2:
                        n_dst = ga[1]      # symbolic: compared with the guard's symbolic size below
        if isinstance(n_dst, int):
            okc = n_dst == n_found
        elif isinstance(n_dst, str):
            own = [im['types']['OutputSize']['raw'] for im in facts.impls if im.get('trait') == 'Serializable' and im['self_ty'] == self_ty]
            okc = n_dst in ('<%s as Serializable>::OutputSize' % self_ty,) + tuple(own)
        else:
            okc = False
        rep.check(okc, rule, fn, 'copy-length', 'copy into %s of length %s, guard constant %s' % (pp(dst), n_dst, n_found if n_found is not None else 'Self::OutputSize'),
                  'the fixed-size destination has exactly the guarded length (copy_from_slice cannot panic)', where(a, a.term_point(bi)))


def src_type_len(a, facts, bi, self_ty):
    """type-level length of the source of copy_from_slice at block bi, if determinable"""
    t = a.body.blocks[bi]['term']
    op = t['args'][1]
    seen = 0
    cur = op
    while seen < 12 and cur.get('k') in ('copy', 'move'):
        seen += 1
        l = cur['place']['l']
        ty = a.body.local_ty(l)
        inner = strip_ref(ty)
        n = array_len(inner)
        if n is not None:
            return n
        if inner.startswith('generic_array::GenericArray<u8,'):
            ga = generic_args(inner)
            if len(ga) == 2:
                return typenum_usize(ga[1]) if typenum_usize(ga[1]) is not None else ga[1]
        defs = a.defs.get(l, [])
        if len(defs) != 1:
            return None
        st = a.stmt_at(defs[0])
        if st['k'] == 'assign':
            rv = st['rv']
            if rv['k'] == 'use':
                cur = rv['op']
            elif rv['k'] == 'cast':
                cur = rv['op']
            elif rv['k'] == 'ref':
                pl = rv['place']
                if pl['p'] and pl['p'][-1] != 'deref' and isinstance(pl['p'][-1], dict) and 'ty' in pl['p'][-1]:
                    fty = pl['p'][-1]['ty']
                    n = array_len(fty)
                    if n is not None:
                        return n
                    if fty.startswith('generic_array::GenericArray<u8,'):
                        ga = generic_args(fty)
                        if len(ga) == 2:
                            return typenum_usize(ga[1]) if typenum_usize(ga[1]) is not None else ga[1]
                    return None
                cur = {'k': 'copy', 'place': {'l': pl['l'], 'p': []}}
            else:
                return None
        elif st['k'] == 'call':
            dt = strip_ref(st['dest_ty'])
            n = array_len(dt)
            if n is not None:
                return n
            if dt.startswith('generic_array::GenericArray<u8,'):
                ga = generic_args(dt)
                if len(ga) == 2:
                    return typenum_usize(ga[1]) if typenum_usize(ga[1]) is not None else ga[1]
            from ..mirjson import callee_of
            c = callee_of(st)
            if c and c['name'] in ('deref', 'as_ref', 'as_slice', 'borrow') and st['args']:
                cur = st['args'][0]
            else:
                return None
        else:
            return None
    return None


def check_write_exact(rep, facts, b, rule='R12.3'):
    a = get_an(facts, b.key)
    fn = b.key
    self_ty = b.impl_of['self_ty']
    n_self = size_of_self(facts, self_ty)
    own_raw = [im['types']['OutputSize']['raw'] for im in facts.impls if im.get('trait') == 'Serializable' and im['self_ty'] == self_ty]
    mech = []
    # (a) enforce_outbuf_len::<T>(buf)
    for bi, t, c in a.calls(lambda c: c.get('key') == 'util::enforce_outbuf_len'):
        T = c['generic_args'][0] if c.get('generic_args') else None
        okarg = a.arg_val(bi, 0) == ('param', 2)
        if T == self_ty or T == 'Self':
            same = True
        else:
            nT = size_of_self(facts, T) if T else None
            same = nT is not None and nT == n_self
        dom = all(a.cfg.dominates(bi, r) for r in a.cfg.returns)
        first = all(a.cfg.dominates(bi, u) for u in uses_of_local_blocks(a, 2))
        if okarg and same and dom and first:
            mech.append('enforce_outbuf_len::<%s>(buf) first and on every path' % T)
        else:
            rep.bad(rule, fn, 'outbuf-guard', 'enforce_outbuf_len::<%s>(%s): same size as Self: %s, on every path: %s, before any use of buf: %s' % (
                T, pp(a.arg_val(bi, 0)), same, dom, first),
                'the guard compares with Self::size() (a guard for a type of different size rejects correct buffers), unconditionally, before any write',
                where(a, a.term_point(bi)))
    # (b) whole-buffer copy from a source of type-level length Self::OutputSize
    for bi, t, c in a.calls(lambda c: c['name'] == 'copy_from_slice'):
        if a.arg_val(bi, 0) != ('param', 2):
            continue
        n_src = src_type_len(a, facts, bi, self_ty)
        dom = all(a.cfg.dominates(bi, r) for r in a.cfg.returns)
        if dom and ((isinstance(n_src, int) and n_src == n_self) or (isinstance(n_src, str) and n_src in own_raw)):
            mech.append('buf.copy_from_slice(<source of type-level length %s>) on every path' % n_src)
    # (c) uncompressed SEC1 encoding of a (non-identity) NIST point: 1 + 2 * field size bytes (sec1::EncodedPoint)
    for bi, t, c in a.calls(lambda c: c['name'] == 'copy_from_slice'):
        if a.arg_val(bi, 0) != ('param', 2):
            continue
        src = a.arg_val(bi, 1)
        if src[0] == 'call' and src[1].endswith('EncodedPoint::as_bytes') and len(src[2]) == 1:
            ep = a.deref_val(src[2][0], a.term_point(bi))
            if ep[0] == 'call' and ep[1].endswith('::to_encoded_point') and ep[2][1] == ('const', 'bool', False):
                kem = [k for k in rfc.KEMS.values() if k['nist'] and self_ty == k['dh_mod'] + '::PublicKey']
                dom = all(a.cfg.dominates(bi, r) for r in a.cfg.returns)
                if kem and dom and n_self == 1 + 2 * kem[0]['Nsk']:
                    mech.append('whole-buffer copy of an uncompressed SEC1 point: 1 + 2*%d = %d bytes' % (kem[0]['Nsk'], n_self))
    rep.check(bool(mech), rule, fn, 'panics-iff-wrong-length', mech or 'no mechanism found',
              'write_exact panics exactly when buf.len() != Self::size(): an unconditional guard or a whole-buffer copy of type-level length Self::OutputSize',
              where(a))
    # the whole buffer is written by one copy on every path
    copies = [(bi, a.arg_val(bi, 0)) for bi, t, c in a.calls(lambda c: c['name'] == 'copy_from_slice')]
    whole = [bi for bi, dst in copies if dst == ('param', 2) and all(a.cfg.dominates(bi, r) for r in a.cfg.returns)]
    if not copies:
        # a wrapper whose only field serialises itself straight into the whole buffer (same OutputSize)
        for bi, t, c in a.calls(lambda c: c['name'] == 'write_exact' and c.get('trait') == 'Serializable'):
            inner_ty = (c.get('self_ty') or (c.get('generic_args') or [None])[0])
            same = inner_ty is not None and size_of_self(facts, inner_ty) == n_self and n_self is not None
            if pp(a.arg_val(bi, 0)) == '&*p1.0' and a.arg_val(bi, 1) == ('param', 2) and same and all(a.cfg.dominates(bi, r) for r in a.cfg.returns):
                whole.append(bi)
                copies.append((bi, ('param', 2)))
    rep.check(len(whole) == 1 and len(copies) == 1, rule, fn, 'writes-whole-buffer', 'copy_from_slice calls: %s' % [(bi, pp(d)) for bi, d in copies],
              'exactly one whole-buffer copy on every path (no partial write)', where(a))


ENCODERS = ('as_bytes', 'to_bytes', 'raw_secret_bytes')     # lossless views/copies of the wrapped dependency value


def _whole_input(arg):
    """the input slice itself, or `&input[..Self::size()]` / `&input[0..Self::size()]` — the same bytes on every accepted path,
    because the length guard (R12.2, decided separately and reported separately) admits only len == Self::size()"""
    if arg == ('param', 1):
        return True
    x = strip_sites(arg) if arg is not None else None
    if not (isinstance(x, tuple) and len(x) == 4 and x[0] == 'addr' and x[1] == ('pointee', ('param', 1)) and len(x[2]) == 1):
        return False
    sl = x[2][0]
    if sl[0] != 'slice' or not (sl[1] is None or (sl[1][0] == 'const' and sl[1][2] == 0)):
        return False
    hi = sl[2]
    return hi is not None and hi[0] == 'call' and hi[1].endswith('Serializable::size') and not hi[2]


def check_value_flow(rep, facts, fb, we, rule='R12.6'):
    """from_bytes wraps exactly the input bytes; write_exact writes exactly the wrapped value's bytes (no masking,
    truncation or reordering in this crate; losslessness of the dependency encoders themselves is trusted)"""
    n = 0
    for b in fb:
        a = get_an(facts, b.key)
        fn = b.key
        for s, tt, cls in ret_classes(a, facts):
            if cls != 'ok':
                continue
            n += 1
            pl = tt[3][0]
            v = pl[3][0] if pl[0] == 'agg' and len(pl[3]) == 1 else ('unknown', 'shape')
            # the value built as `let mut t = Self::default(); t.0.copy_from_slice(input); t`: a default value of the
            # single-field type whose only write is a whole copy of the input into that field
            if pl[0] == 'mem' and not pl[4] and len(pl[3]) == 1 and pl[2][0] == 'call' and pl[2][1].endswith('Default::default'):
                w = pl[3][0]
                selfty = (b.impl_of or {}).get('self_ty', '').split('<')[0]
                adt = facts.adts.get(selfty)
                one_field = bool(adt) and len(adt['variants']) == 1 and len(adt['variants'][0]['fields']) == 1
                if one_field and w[3] and w[1] == (('f', '0'),):
                    v = ('mem', pl[1], pl[2], ((w[0], (), w[2], w[3]),), ())
            how = None
            x = v
            if x[0] == 'call' and x[1] == 'core::convert::Into::into' and len(x[2]) == 1:
                x = x[2][0]
                how = 'From::from of '
            if x[0] == 'mem' and len(x[3]) == 1 and x[3][0][3] and not x[3][0][1] and x[3][0][2][0] == 'call' and \
                    x[3][0][2][1].endswith('copy_from_slice') and _whole_input(x[3][0][2][2][1]):
                ok = True
                how = (how or '') + 'a buffer written once by a whole copy of the input'
            elif x[0] == 'call' and x[1].endswith('GenericArray::clone_from_slice') and len(x[2]) == 1 and _whole_input(x[2][0]):
                ok = True
                how = (how or '') + 'GenericArray::clone_from_slice of the whole input'
            elif x[0] == 'okval':
                y = x[1]
                if y[0] == 'call' and y[1] == 'core::result::Result::map_err':
                    y = y[2][0]
                arg = y[2][0] if y[0] == 'call' and y[2] else None
                ok = arg == ('param', 1) or (arg is not None and arg[0] == 'call' and arg[1] == 'core::convert::Into::into' and arg[2] == (('param', 1),))
                how = 'Ok payload of %s applied to the whole input' % (y[1] if y[0] == 'call' else '?')
            else:
                ok = False
                how = pp(v)[:160]
            rep.check(ok, rule, fn, 'wraps-input-bytes', how, 'the accepted value is built from exactly the input bytes (one whole copy / the parser\'s Ok payload), nothing is masked or rewritten', where(a, s))
    for b in we:
        a = get_an(facts, b.key)
        fn = b.key
        cs = a.calls(lambda c: c['name'] == 'copy_from_slice')
        if not cs:
            # the wrapped value writes itself (Serializable::write_exact(&self.0, buf)): its own write_exact is checked here too
            ds = a.calls(lambda c: c['name'] == 'write_exact' and c.get('trait') == 'Serializable')
            if len(ds) == 1:
                n += 1
                dbi = ds[0][0]
                later = [c2['name'] for b2, t2, c2 in a.calls() if c2 and b2 != dbi and dbi in a.cfg.bwd(b2) and
                         any(a.arg_val(b2, i) == ('param', 2) for i in range(len(t2['args']))) and c2['name'] not in ('len',)]
                stores = [st for st, pl in a.deref_stores if pl['l'] == 2]
                okd = pp(a.arg_val(dbi, 0)) == '&*p1.0' and a.arg_val(dbi, 1) == ('param', 2)
                rep.check(okd and not later and not stores, rule, fn, 'writes-value-bytes',
                          'write_exact(&self.0, buf) ; later uses of buf: %s ; direct stores: %d' % (later, len(stores)),
                          'the buffer receives exactly the encoding of the wrapped value (self.0) and is not modified afterwards', where(a, a.term_point(dbi)))
            continue
        if len(cs) != 1:
            continue          # reported by R12.3
        n += 1
        bi = cs[0][0]
        p = a.term_point(bi)
        src = a.arg_val(bi, 1)
        x = src
        steps = []
        okflow = False
        for _ in range(6):
            if x[0] == 'addr' and x[1][0] == 'local':
                x = a.load(x[1], x[2], p)
                continue
            if x[0] == 'addr' and x[1] == ('pointee', ('param', 1)) and x[2] == (('f', '0'),):
                okflow = True
                break
            if x[0] == 'call' and len(x[2]) >= 1:
                nm = x[1].rsplit('::', 1)[-1]
                if nm in ENCODERS or nm == 'as_affine' or (nm == 'to_encoded_point' and x[2][1:] == (('const', 'bool', False),)):
                    steps.append(nm)
                    p = a.term_point(x[3])
                    x = x[2][0]
                    continue
            break
        # the buffer is not touched afterwards
        later = [c2['name'] for b2, t2, c2 in a.calls() if c2 and b2 != bi and bi in a.cfg.bwd(b2) and b2 != bi and
                 any(a.arg_val(b2, i) == ('param', 2) for i in range(len(t2['args']))) and c2['name'] not in ('len',)]
        stores = [st for st, pl in a.deref_stores if pl['l'] == 2]
        rep.check(okflow and not later and not stores, rule, fn, 'writes-value-bytes', '%s(self.0) ; later uses of buf: %s ; direct stores: %d' % (' . '.join(reversed(steps)) or 'bytes of', later, len(stores)),
                  'the buffer receives exactly the encoding of the wrapped value (self.0) and is not modified afterwards', where(a, a.term_point(bi)))
    return n


def check_enforce_outbuf_len(rep, facts, rule='R12.4'):
    a = get_an(facts, 'util::enforce_outbuf_len')
    if a is None:
        rep.anchor_lost(rule, 'util::enforce_outbuf_len', 'output-length guard helper', 'not found')
        return
    fn = a.body.key

    def atom_ok(x):
        if x[0] == 'bin' and x[1] in ('Eq', 'Ne'):
            s = {pp(x[2]), pp(x[3])}
            return s == {'Serializable::size()', 'len(p1)'}
        return False
    # paths: equal -> return, differ -> diverge (panic). bool_table only follows returning paths, so enumerate manually.
    sw = [bi for bi in a.cfg.reach if a.body.blocks[bi]['term']['k'] == 'switch']
    if len(sw) != 1:
        rep.bad(rule, fn, 'single-comparison', '%d branches' % len(sw), 'one comparison of T::size() with buf.len()', where(a))
        return
    t = a.body.blocks[sw[0]]['term']
    d = a.val_op(t['discr'], a.term_point(sw[0]))
    from ..prov import strip_sites
    d = strip_sites(d)
    if not atom_ok(d):
        rep.bad(rule, fn, 'comparison', pp(d), 'T::size() == buf.len()', where(a, a.term_point(sw[0])))
        return
    sizeT = [c for bi, tt, c in a.calls(lambda c: c['name'] == 'size' and c.get('trait') == 'Serializable')]
    rep.check(len(sizeT) == 1 and sizeT[0].get('self_ty') == 'T', rule, fn, 'size-of-T', [c.get('self_ty') for c in sizeT], 'the size compared is T::size()', where(a))
    eq_edge = switch_edge(t, 1 if d[1] == 'Eq' else 0)
    ne_edge = switch_edge(t, 0 if d[1] == 'Eq' else 1)
    returns_on_eq = any(r in a.cfg.fwd(eq_edge) for r in a.cfg.returns)
    returns_on_ne = any(r in a.cfg.fwd(ne_edge) for r in a.cfg.returns) and ne_edge != eq_edge
    rep.check(returns_on_eq and not returns_on_ne, rule, fn, 'panics-iff-differ',
              'equal -> returns: %s ; different -> can return: %s' % (returns_on_eq, returns_on_ne),
              'returns iff the lengths are equal, diverges (panics) otherwise', where(a, a.term_point(sw[0])))


def check_uncompressed(rep, facts, rule='R12.5'):
    n = 0
    for b in impl_bodies(facts, 'Serializable', 'write_exact'):
        if b.default_of or not b.impl_of['self_ty'].startswith('dhkex::ecdh_nistp::') or not b.impl_of['self_ty'].endswith('::PublicKey'):
            continue
        a = get_an(facts, b.key)
        cs = a.calls(lambda c: c['name'] == 'to_encoded_point')
        n += 1
        ok = len(cs) == 1 and a.arg_val(cs[0][0], 1) == ('const', 'bool', False)
        rep.check(ok, rule, b.key, 'uncompressed', [pp(a.arg_val(bi, 1)) for bi, _, _ in cs], 'to_encoded_point(compress = false)', where(a))
    return n


def run(ctx):
    rep, facts = ctx.rep, ctx.facts
    feats = facts.meta.get('features', [])
    ncurves = len([f for f in ('p256', 'p384', 'p521') if f in feats])
    nx = 1 if 'x25519' in feats else 0
    nkems = ncurves + nx
    n1 = check_sizes(rep, facts)
    rep.floor('R12.1', 'Serializable impls + AEAD tag sizes', n1, 1 + 3 * nx + 3 * ncurves + nkems + 4)
    fb = [b for b in impl_bodies(facts, 'Deserializable', 'from_bytes') if not b.default_of]
    rep.floor('R12.2', 'Deserializable::from_bytes impls', len(fb), 1 + 2 * nx + 2 * ncurves + nkems)
    for b in fb:
        check_from_bytes(rep, facts, b)
    we = [b for b in impl_bodies(facts, 'Serializable', 'write_exact') if not b.default_of]
    rep.floor('R12.3', 'Serializable::write_exact impls', len(we), 1 + 3 * nx + 3 * ncurves + nkems)
    for b in we:
        check_write_exact(rep, facts, b)
    # to_bytes / size not overridden
    for im in ser_impls(facts):
        names = [f['name'] for f in im['fns']]
        rep.check(names == ['write_exact'], 'R12.3', im['self_ty'], 'no-override', names, 'only write_exact is implemented (to_bytes/size keep their default bodies)', None)
    for k, want in (('Serializable::to_bytes', None), ('Serializable::size', None)):
        a = get_an(facts, k)
        if a is None:
            rep.anchor_lost('R12.3', k, 'default body', 'not found')
    check_default_bodies(rep, facts)
    n6 = check_value_flow(rep, facts, [b for b in fb if not b.impl_of['self_ty'].endswith('::EncappedKey')], we)
    rep.floor('R12.6', 'value-flow obligations', n6, len(fb) - nkems + len(we))
    check_enforce_outbuf_len(rep, facts)
    a = get_an(facts, 'util::enforce_equal_len')
    if a is not None:
        c09.check_enforce_equal_len(rep, a, rule='R12.4')
    n5 = check_uncompressed(rep, facts)
    rep.floor('R12.5', 'NIST public key encoders', n5, ncurves)
    rep.bodies_analysed = len(facts.body_list)


def check_default_bodies(rep, facts, rule='R12.3'):
    a = get_an(facts, 'Serializable::size')
    if a is not None:
        rt = a.ret_val()
        ok = rt[0] == 'call' and rt[1].endswith('::to_usize') and rt[4] and rt[4][2] == '<Self as Serializable>::OutputSize'
        rep.check(ok, rule, 'Serializable::size', 'size-is-outputsize', pp(rt), 'size() = Self::OutputSize::to_usize()', where(a))
    a = get_an(facts, 'Serializable::to_bytes')
    if a is not None:
        rt = a.ret_val()
        ok = False
        if rt[0] == 'mem' and len(rt[3]) == 1 and rt[3][0][3]:
            w = rt[3][0][2]
            ok = w[0] == 'call' and w[1] == 'Serializable::write_exact' and w[2][0] == ('param', 1) and not rt[3][0][1] and \
                a.body.local_ty(rt[1]) == 'generic_array::GenericArray<u8, <Self as Serializable>::OutputSize>'
        rep.check(ok, rule, 'Serializable::to_bytes', 'to_bytes-shape', pp(rt)[:200],
                  'to_bytes() = write_exact into a whole GenericArray<u8, Self::OutputSize>', where(a))
