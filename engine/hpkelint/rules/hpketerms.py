"""Abstraction of code terms into RFC 9180 vocabulary: concatenation buffers, labeled KDF calls,
DH / serialisation / public-key-of terms.  Used by C01, C02, C03, C07, C08, C11."""
from ..prov import get_an, pp, bytes_of, strip_sites, unref, walk
from .common import where


# ---------------------------------------------------------------------- concat idiom
def check_append_helper(rep, facts, key, rule):
    """the role "append": copies arg1 into arg0[..len(arg1)] and returns arg0[len(arg1)..]"""
    a = get_an(facts, key)
    if a is None:
        rep.anchor_lost(rule, 'append helper ' + str(key), 'local helper', 'no body')
        return False
    fn = key
    rt = a.ret_val()
    want_ret = ('addr', ('pointee', ('param', 1)), (('slice', ('len', ('param', 2)), None),))
    okr = rt[:3] == want_ret
    cs = a.calls(lambda c: c['name'] == 'copy_from_slice')
    okc = False
    if len(cs) == 1:
        bi = cs[0][0]
        dst, src = a.arg_val(bi, 0), a.arg_val(bi, 1)
        okc = dst[:3] == ('addr', ('pointee', ('param', 1)), (('slice', None, ('len', ('param', 2))),)) and src == ('param', 2) \
            and all(a.cfg.dominates(bi, r) for r in a.cfg.returns)
    others = [c['name'] for bi, t, c in a.calls() if c and c['name'] not in ('copy_from_slice', 'index_mut', 'len')]
    rep.check(okr and okc and not others, rule, fn, 'append-role',
              'returns %s ; copy: %s ; other calls: %s' % (pp(rt), okc, others),
              'buf[..len(x)] = x; return &mut buf[len(x)..]', where(a))
    return okr and okc and not others


def lin(t):
    """linear form {atom | 1: coefficient} of an index term built from constants, slice lengths, + and -; None if not linear"""
    if t is None:
        return {}
    if t[0] == 'const' and isinstance(t[2], int) and not isinstance(t[2], bool):
        return {1: t[2]} if t[2] else {}
    if t[0] == 'len':
        return {('len', strip_sites(t[1])): 1}
    if t[0] == 'bin' and t[1] in ('Add', 'Sub'):
        x, y = lin(t[2]), lin(t[3])
        if x is None or y is None:
            return None
        out = dict(x)
        for k, v in y.items():
            out[k] = out.get(k, 0) + (v if t[1] == 'Add' else -v)
        return {k: v for k, v in out.items() if v}
    return None


def concat_pieces_explicit(a, ref, point):
    """decode a buffer laid out by hand: `buf[k] = b`, `buf[s..e].copy_from_slice(x)` with s, e linear in constants and
    lengths — contiguous from 0, each range exactly as long as its source, and the reference is `&buf[..total]`.
    -> (pieces [(ref_term, site)], None, N) or (None, why, None)"""
    if ref[0] != 'addr' or ref[1][0] != 'local':
        return None, 'not a reference into a local buffer', None
    path = ref[2]
    if len(path) != 1 or path[0][0] != 'slice' or path[0][1] is not None:
        return None, 'not a prefix slice', None
    v = a.val_local(ref[1][1], point)
    if v[0] != 'mem' or v[4]:
        return None, 'buffer is not a written local', None
    init = v[2]
    if not (init[0] == 'repeat' and init[1] == ('const', 'u8', 0) and isinstance(init[2], int)):
        return None, 'buffer not zero-initialised array', None
    N = init[2]
    cur = {}
    pieces = []
    def lin_ty(t):
        """lengths of whole local arrays of the same type are the same number (two digests of one KDF)"""
        d = lin(t)
        if d is None:
            return None
        out = {}
        for k, x in d.items():
            if isinstance(k, tuple) and k[0] == 'len' and k[1][0] == 'addr' and k[1][1][0] == 'local' and not k[1][2]:
                ty = a.body.local_ty(k[1][1][1])
                if ty.startswith('generic_array::GenericArray<') or (ty.startswith('[') and ty.endswith(']') and ';' in ty):
                    k = ('tylen', ty)
            out[k] = out.get(k, 0) + x
        return {k: x for k, x in out.items() if x}
    for (site, wpath, desc, dom) in v[3]:
        if not dom or wpath is None or len(wpath) != 1:
            return None, 'writer not on every path / unknown target', None
        e = wpath[0]
        if desc[0] == 'store' and e[0] == 'i':
            start = lin_ty(e[1])
            if start is None:
                return None, 'non-linear index', None
            end = dict(start)
            end[1] = end.get(1, 0) + 1
            piece = ('addr', ('cell', ('agg', 'array', 'array', (desc[1],), ('0',))), (), False)
        elif desc[0] == 'call' and desc[1].endswith('copy_from_slice') and e[0] == 'slice' and len(desc[2]) == 2:
            start, end = lin_ty(e[1]), lin_ty(e[2]) if e[2] is not None else None
            if start is None or end is None:
                return None, 'non-linear range', None
            piece = desc[2][1]
            ln = {k: end.get(k, 0) - start.get(k, 0) for k in set(end) | set(start)}
            ln = {k: x for k, x in ln.items() if x}
            if ln != lin_ty(('len', piece)):
                return None, 'range length is not the source length', None
        else:
            return None, 'writer is neither a byte store nor a copy into a range', None
        if {k: x for k, x in start.items() if x} != cur:
            return None, 'pieces are not contiguous', None
        cur = {k: x for k, x in end.items() if x}
        pieces.append((piece, site))
    total = lin_ty(path[0][2])
    if total is None or {k: x for k, x in total.items() if x} != cur or not pieces:
        return None, 'the slice does not end where the last piece ends', None
    return pieces, None, N


def concat_pieces(a, ref, point):
    """decode `&buf[..N - unused.len()]` built by the append chain, or a buffer laid out by explicit index arithmetic
    -> (pieces [(ref_term, site)], helper_key | None, N) or (None, why, None)"""
    r = _concat_pieces_chain(a, ref, point)
    if r[0] is None:
        r2 = concat_pieces_explicit(a, ref, point)
        if r2[0] is not None:
            return r2
    return r


def _concat_pieces_chain(a, ref, point):
    if ref[0] != 'addr' or ref[1][0] != 'local':
        return None, 'not a reference into a local buffer: ' + pp(ref)[:80], None
    path = ref[2]
    if len(path) != 1 or path[0][0] != 'slice' or path[0][1] is not None:
        return None, 'not a prefix slice: ' + pp(ref)[:80], None
    hi = path[0][2]
    v = a.val_local(ref[1][1], point)
    if v[0] != 'mem' or v[4]:
        return None, 'buffer is not a written local: ' + pp(v)[:80], None
    root = v[1]
    init = v[2]
    if not (init[0] == 'repeat' and init[1] == ('const', 'u8', 0) and isinstance(init[2], int)):
        return None, 'buffer not zero-initialised array: ' + pp(init)[:60], None
    N = init[2]
    pieces = []
    expect = ()
    helper = None
    for (site, wpath, desc, dom) in v[3]:
        if desc[0] != 'call' or not dom:
            return None, 'writer is not an unconditional call: ' + desc[0], None
        k = desc[4][3] if desc[4] else None
        if k is None or (helper is not None and k != helper):
            return None, 'writers are not one local append helper', None
        helper = k
        if tuple(wpath) != expect or desc[3] != 0:
            return None, 'writer target %s is not the unused tail %s' % (wpath, expect), None
        piece = desc[2][1]
        pieces.append((piece, site))
        expect = expect + (('slice', ('len', piece), None),)
    want_hi = ('bin', 'Sub', ('const', 'usize', N), ('len', ('addr', ('local', root), expect)))
    got = hi
    if got[0] == 'bin' and got[3][0] == 'len' and got[3][1][0] == 'addr':
        lhs = got[2]
        # `buf.len()` of the N-byte array is the constant N
        if lhs[0] == 'len' and lhs[1][0] == 'addr' and lhs[1][1] == ('local', root) and not lhs[1][2]:
            from ..tyutil import array_len
            if array_len(a.body.local_ty(root)) == N:
                lhs = ('const', 'usize', N)
        got = ('bin', got[1], lhs, ('len', got[3][1][:3]))
    if got != want_hi:
        return None, 'length %s is not N - unused.len()' % pp(hi)[:120], None
    return pieces, helper, N


# ---------------------------------------------------------------------- symbolic normaliser for KEM terms
class Norm:
    """maps code terms of one body into the vocabulary DH / Ser / PK / Enc over named symbols"""

    def __init__(self, a, symmap):
        self.a = a
        self.sym = symmap     # {stripped term: name}
        self.dh_types = set()

    def at(self, t, site_bb):
        return self.n(t, self.a.term_point(site_bb))

    def n(self, t, point):
        a = self.a
        t = unref(t)
        key = strip_sites(t)
        if key in self.sym:
            return ('sym', self.sym[key])
        k = t[0]
        if k == 'addr':
            base, path = t[1], t[2]
            if base[0] == 'pointee':
                inner = ('load', base[1], path) if path else base[1]
                ks = strip_sites(inner)
                if ks in self.sym:
                    return ('sym', self.sym[ks])
                # &x.0 of a symbol
                if path and path[-1] == ('f', '0'):
                    b2 = ('load', base[1], path[:-1]) if path[:-1] else base[1]
                    if strip_sites(b2) in self.sym:
                        return ('field0', ('sym', self.sym[strip_sites(b2)]))
                return ('?', pp(t)[:80])
            if base[0] == 'local':
                return self.n(a.load(base, path, point), point)
            return ('?', pp(t)[:80])
        if k == 'load':
            ks = strip_sites(t)
            if ks in self.sym:
                return ('sym', self.sym[ks])
            if t[2] and t[2][-1] == ('f', '0'):
                b2 = ('load', t[1], t[2][:-1]) if t[2][:-1] else t[1]
                if strip_sites(b2) in self.sym:
                    return ('field0', ('sym', self.sym[strip_sites(b2)]))
            return ('?', pp(t)[:80])
        if k == 'okval':
            x = t[1]
            if x[0] == 'call' and x[1] == 'core::result::Result::map_err':
                x = x[2][0]
            return self.n(x, point)
        if k == 'call':
            path, args, site = t[1], t[2], t[3]
            p2 = a.term_point(site)
            info = t[4] if len(t) > 4 else None
            if path in ('dhkex::DhKeyExchange::dh',):
                self.dh_types.add(info[2] if info else None)
                return ('DH', self.n(args[0], p2), self.n(args[1], p2))
            if path == 'Serializable::to_bytes':
                return ('Ser', self.n(args[0], p2))
            if path in ('kem::Kem::sk_to_pk', 'dhkex::DhKeyExchange::sk_to_pk'):
                return ('PK', self.n(args[0], p2))
            if path == 'core::clone::Clone::clone':
                return self.n(args[0], p2)
            return ('?call', path, tuple(self.n(x, p2) for x in args))
        if k == 'agg' and t[1] == 'adt' and t[2].endswith('::EncappedKey::EncappedKey') and len(t[3]) == 1:
            return ('Enc', self.n(t[3][0], point))
        if k == 'field' and t[1] == '0':
            inner = self.n(t[2], point)
            if inner[0] == 'Enc':
                return inner[1]
            return ('field0', inner)
        if k == 'mem':
            return ('?mem', pp(t)[:80])
        if k == 'param':
            return ('?', pp(t))
        return ('?', pp(t)[:80])

    def pieces(self, ref, point):
        """normalised concatenation pieces of a buffer reference, or a single piece for a plain reference"""
        ps, helper, N = concat_pieces(self.a, ref, point)
        if ps is None:
            return None, helper, None
        return [self.n(p, self.a.term_point(site[0]) if False else site) for p, site in ps], helper, N


def ppn(t):
    if not isinstance(t, tuple):
        return str(t)
    if t[0] == 'sym':
        return t[1]
    if t[0] == 'DH':
        return 'DH(%s, %s)' % (ppn(t[1]), ppn(t[2]))
    if t[0] in ('Ser', 'PK', 'Enc', 'field0'):
        return '%s(%s)' % (t[0], ppn(t[1]))
    return '%s' % (t,)
