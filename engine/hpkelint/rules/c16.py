"""C16 — secrets are wiped when dropped (DESIGN §5 C16: R16.1 … R16.3)."""
from ..prov import get_an, pp
from .common import all_ans, where, addr_fields

EXPLANATION = (
    'Static analysis of drop-elaborated MIR and ADT facts (all cargo features). R16.1: each secret-holding type named '
    'by the property (AeadKey, AeadNonce, ExporterSecret, SharedSecret) has a Drop impl whose body, on every normal '
    'path, calls Zeroize::zeroize on the whole secret field — directly or through the type\'s own Zeroize impl, '
    'followed through the call graph down to an implementation in the `zeroize`/`generic_array` crates (not a local '
    'no-op). R16.2: the context keeps base_nonce/exporter_secret/seq in exactly those types, so dropping a context '
    'drops them; no mem::forget / ManuallyDrop / Box::leak is applied to a value whose type mentions a secret or '
    'context type (positive control in fixtures/posctl). R16.3: in the key schedule the temporary AeadKey local is only '
    'borrowed (never moved out) and every path from its initialisation to Return passes a Drop terminator on it; the '
    'by-value SharedSecret parameter is likewise dropped inside. Not decided: actual memory contents after drop '
    '(compiler-introduced copies, registers, the AEAD\'s internal key schedule).')
TRUSTED = ['zeroize::Zeroize for u8/u64/arrays and generic_array::impl_zeroize perform volatile writes of zeros',
           'rustc drop elaboration']
ASSUME = ['moves of the secret newtypes do not leave readable copies behind (not decidable statically at this level)']

SECRET_TYPES = ['aead::AeadKey', 'aead::AeadNonce', 'setup::ExporterSecret', 'kem::SharedSecret']
CTX_TYPES = ['aead::AeadCtx', 'aead::AeadCtxS', 'aead::AeadCtxR']
CTX_FIELDS = {'base_nonce': 'aead::AeadNonce<', 'exporter_secret': 'setup::ExporterSecret<', 'seq': 'aead::Seq'}
LEAF_CRATES = {'zeroize', 'generic_array'}
LEAKERS = ('mem::forget', 'mem::ManuallyDrop::new', 'boxed::Box::leak', 'mem::transmute', 'intrinsics::transmute',
           'mem::MaybeUninit::new', 'mem::transmute_copy', 'ptr::write', 'ptr::read', 'mem::ManuallyDrop::take')


def is_leaker(path):
    from ..prov import strip_generics
    p = strip_generics(path)
    for root in ('std::', 'core::', 'alloc::'):
        if p.startswith(root):
            p = p[len(root):]
            break
    return p in LEAKERS


def zeroizes(facts, key, want_path, depth=0):
    """does body `key` (fn(&mut self)) zeroize self<want_path> on every path? -> (ok, description)"""
    if depth > 4:
        return False, 'recursion too deep'
    a = get_an(facts, key)
    if a is None:
        return False, 'no body ' + key
    hits = []
    for bi, t, c in a.calls(lambda c: c.get('trait') == 'zeroize::Zeroize' and c['name'] == 'zeroize'):
        arg = a.arg_val(bi, 0)
        base, fs = addr_fields(arg)
        if base != ('param', 1):
            continue
        if arg[0] == 'addr' and any(e[0] != 'f' for e in arg[2]):
            hits.append((bi, False, 'zeroize of a sub-slice/element only: ' + pp(arg)))
            continue
        covers = fs == list(want_path) or fs == [] or (len(fs) <= len(want_path) and list(want_path[:len(fs)]) == fs)
        if not covers:
            continue
        dom = all(a.cfg.dominates(bi, r) for r in a.cfg.returns)
        r = c.get('resolved')
        if r and r.get('local'):
            rest = list(want_path[len(fs):])
            ok, why = zeroizes(facts, r['key'], rest, depth + 1)
            hits.append((bi, ok and dom, 'via %s: %s' % (r['key'], why)))
        elif r and r.get('crate') in LEAF_CRATES:
            full = fs == list(want_path)
            hits.append((bi, dom and full, 'zeroize(%s) resolved to %s%s' % (pp(arg), r['path'], '' if dom else ' (not on every path)')))
        else:
            hits.append((bi, False, 'zeroize resolved to %s' % (r['path'] if r else 'nothing (generic)')))
    good = [h for h in hits if h[1]]
    if good:
        return True, good[0][2]
    if hits:
        return False, hits[0][2]
    return False, 'no Zeroize::zeroize call on self' + ''.join('.' + p for p in want_path)


def check_secret_types(rep, facts, rule='R16.1'):
    n = 0
    for path in SECRET_TYPES:
        adt = facts.adts.get(path)
        if adt is None:
            rep.anchor_lost(rule, path, 'secret-holding type', 'not found')
            continue
        n += 1
        fields = adt['variants'][0]['fields']
        secret_fields = [f for f in fields if not f['ty'].startswith('core::marker::PhantomData')]
        rep.check(adt['has_drop'], rule, path, 'has-drop', 'Drop impl: %s' % adt.get('drop_key'), 'the type implements Drop', None)
        if not adt['has_drop']:
            continue
        for f in secret_fields:
            ok, why = zeroizes(facts, adt['drop_key'], (f['name'],))
            a = get_an(facts, adt['drop_key'])
            rep.check(ok, rule, adt['drop_key'], 'zeroizes:%s' % f['name'], why,
                      'drop() zeroizes the whole field `%s` on every path, ending in the zeroize crate\'s implementation' % f['name'],
                      where(a) if a else None)
    return n


def check_ctx_fields(rep, facts, rule='R16.2'):
    adt = facts.adts.get('aead::AeadCtx')
    if adt is None:
        rep.anchor_lost(rule, 'aead::AeadCtx', 'context type', 'not found')
        return
    fields = {f['name']: f['ty'] for f in adt['variants'][0]['fields']}
    for name, pre in CTX_FIELDS.items():
        rep.check(fields.get(name, '').startswith(pre), rule, 'aead::AeadCtx', 'field-type:' + name, fields.get(name),
                  'field `%s` has the zeroize-on-drop type %s..' % (name, pre), None)
    seq = facts.adts.get('aead::Seq')
    if seq:
        rep.note('Seq (information only): has_drop=%s' % seq['has_drop'])
    for p in CTX_TYPES + SECRET_TYPES:
        a = facts.adts.get(p)
        if a is None:
            continue
        for f in a['variants'][0]['fields']:
            rep.check('ManuallyDrop' not in f['ty'] and 'MaybeUninit' not in f['ty'], rule, p, 'no-manuallydrop:' + f['name'], f['ty'],
                      'no field wrapped in ManuallyDrop/MaybeUninit', None)


def leak_sites(rep, facts, sites_unused=None, rule='R16.2', names=None):
    names = names or [t for t in SECRET_TYPES + CTX_TYPES]
    n = 0
    for a in all_ans(facts):
        for bi, t, c in a.calls():
            if c is None:
                continue
            p = c['path']
            if not is_leaker(p):
                continue
            tys = ' '.join(t['arg_tys']) + ' ' + t['dest_ty'] + ' ' + ' '.join(c.get('generic_args', []))
            hit = [nm for nm in names if nm in tys]
            n += 1
            rep.check(not hit, rule, a.body.key, 'leak:%s' % c['name'], '%s applied to %s' % (p, t['arg_tys']),
                      'no forget/ManuallyDrop/leak/transmute of a value whose type mentions %s' % ', '.join(names), where(a, a.term_point(bi)))
    return n


def check_temp_key(rep, facts, rule='R16.3'):
    n = 0
    for a in all_ans(facts):
        b = a.body
        if b.kind != 'Fn' and b.kind != 'AssocFn':
            continue
        for l, d in enumerate(b.locals):
            ty = d['ty']
            is_key = ty.startswith('aead::AeadKey<')
            is_ss_param = ty.startswith('kem::SharedSecret<') and 1 <= l <= b.arg_count
            if not (is_key or is_ss_param) or l == 0:
                continue
            if not (b.sig and b.sig['output'].startswith('aead::AeadCtx<')):
                continue       # only the key schedule function owns such values by value and returns a context
            n += 1
            fn = b.key
            what = 'temporary AEAD key' if is_key else 'by-value shared secret'
            # (a) never moved/copied out as a whole
            moved = []
            for bi, blk in enumerate(b.blocks):
                if blk['cleanup'] or bi not in a.cfg.reach:
                    continue
                for st in blk['stmts']:
                    if st['k'] == 'assign':
                        moved += _whole_moves(st['rv'], l, blk, st.get('line'))
                t = blk['term']
                if t['k'] == 'call':
                    for x in t['args']:
                        if x.get('k') in ('move', 'copy') and x['place']['l'] == l and not x['place']['p']:
                            moved.append(('call arg', t.get('line')))
            rep.check(not moved, rule, fn, 'borrowed-only:_%s' % (b.local_name(l) or l), 'whole-value moves: %s' % moved,
                      'the %s is only borrowed, never moved out (a move would escape the wipe-before-return)' % what, where(a))
            # (b) dropped on every path from initialisation to Return
            defs = a.defs.get(l, [])
            start = [s[0] for s in defs] if defs else [0]
            drops = [bi for bi, blk in enumerate(b.blocks) if not blk['cleanup'] and blk['term']['k'] == 'drop'
                     and blk['term']['place']['l'] == l and not blk['term']['place']['p']]
            skipping = []
            for sb in start:
                for r in a.cfg.returns:
                    if a.cfg.reaches_avoiding(sb, r, avoid_blocks=drops):
                        skipping.append((sb, r))
            rep.check(bool(drops) and not skipping, rule, fn, 'dropped-on-all-paths:_%s' % (b.local_name(l) or l),
                      'drop terminators: %s ; init->return paths avoiding them: %s' % (['bb%d' % d for d in drops], skipping),
                      'every path from the initialisation of the %s to Return passes Drop (-> zeroize, R16.1)' % what, where(a))
    return n


def _whole_moves(rv, l, blk, line):
    out = []
    k = rv['k']
    ops = []
    if k == 'use':
        ops = [rv['op']]
    elif k == 'aggregate':
        ops = rv['fields']
    elif k == 'cast':
        ops = [rv['op']]
    for x in ops:
        if x.get('k') in ('move', 'copy') and x['place']['l'] == l and not x['place']['p']:
            out.append((k, line))
    return out


def run(ctx):
    rep, facts = ctx.rep, ctx.facts
    n = check_secret_types(rep, facts)
    rep.floor('R16.1', 'secret-holding types', n, 4)
    check_ctx_fields(rep, facts)
    leak_sites(rep, facts)
    n3 = check_temp_key(rep, facts)
    rep.floor('R16.3', 'owned secrets in the key schedule (temporary key + shared secret)', n3, 2)
    rep.bodies_analysed = len(facts.body_list)
    # positive control for the zero-count leak rule
    pf = ctx.posctl_facts()
    from ..framework import Reporter
    probe = Reporter('C16', ctx.tier, 'posctl')
    leak_sites(probe, pf, names=['leaks::Secret'])
    fired = [v for v in probe.violations]
    if len(fired) >= 2:
        rep.posctl += 1
        rep.obligations.append({'rule': 'R16.2', 'fn': 'fixtures/posctl', 'instance': 'positive-control',
                                'found': '%d report(s), e.g. %s' % (len(fired), fired[0]['key']), 'verdict': 'ok', 'nontrivial': True})
    else:
        rep.bad('R16.2', 'fixtures/posctl', 'positive-control', '%d report(s)' % len(fired),
                'the leak rule must report mem::forget and ManuallyDrop::new in fixtures/posctl', kind='CHECKER-BROKEN')
