"""Inter-procedural dependence sets over provenance terms (DESIGN A.5): which parameters, associated
constants, labels and accessor results a value depends on.  Absence of a static dependence proves
run-time independence; presence is necessary, not sufficient."""
from ..prov import get_an, bytes_of, strip_generics
from .common import callee_targets

MAXD = 40


def deps(facts, a, t, point, depth=0, _seen=None):
    out = set()
    if depth > MAXD or not isinstance(t, tuple) or not t:
        return out
    k = t[0]
    if not isinstance(k, str):
        # a tuple of terms (aggregate fields, argument lists)
        for x in t:
            if isinstance(x, tuple):
                out |= deps(facts, a, x, point, depth + 1)
        return out
    if k == 'param':
        out.add(('param', t[1]))
        return out
    if k == 'aconst':
        out.add(('aconst', t[2]))
        return out
    if k == 'const':
        b = bytes_of(t)
        if b is not None and 0 < len(b) <= 16:
            out.add(('label', b))
        return out
    if k == 'addr':
        base, path = t[1], t[2]
        for e in path:
            for x in e[1:]:
                if isinstance(x, tuple):
                    out |= deps(facts, a, x, point, depth + 1)
        if base[0] == 'local':
            out |= deps(facts, a, a.load(base, (), point), point, depth + 1)
        elif base[0] == 'pointee':
            out |= deps(facts, a, base[1], point, depth + 1)
        elif base[0] == 'cell':
            out |= deps(facts, a, base[1], point, depth + 1)
        elif base[0] == 'promoted':
            out |= deps(facts, a, base[2], point, depth + 1)
        return out
    if k == 'load':
        out |= deps(facts, a, t[1], point, depth + 1)
        return out
    if k == 'call':
        path, args, site = t[1], t[2], t[3]
        info = t[4] if len(t) > 4 else None
        p2 = a.term_point(site)
        argdeps = [deps(facts, a, x, p2, depth + 1) for x in args]
        if info and info[0] and info[0].startswith('op_mode::'):
            out.add(('method', info[1]))
        if info and info[0] and info[0].startswith('dhkex::'):
            out.add(('op', info[1]))          # a DH-trait operation, whichever impl it resolves to
        targets = callee_targets(facts, info, path) if info else []
        if targets and info and info[3]:
            # resolved local callee: map its return dependences through the arguments
            ca = get_an(facts, targets[0].key)
            key = ('ret', targets[0].key)
            cache = facts.__dict__.setdefault('_deps_cache', {})
            if key not in cache:
                cache[key] = set()
                if ca is not None and ca.cfg.returns:
                    cache[key] = deps(facts, ca, ca.ret_val(), ca.term_point(ca.cfg.returns[0]), depth + 1)
            for d in cache[key]:
                if d[0] == 'param':
                    i = d[1] - 1
                    if i < len(argdeps):
                        out |= argdeps[i]
                else:
                    out.add(d)
            # generic associated constants of the callee are instantiated by the call's type arguments
            return out
        for ad in argdeps:
            out |= ad
        out.add(('op', strip_generics(path).rsplit('::', 1)[-1]))
        return out
    if k == 'mem':
        out |= deps(facts, a, t[2], point, depth + 1)
        for w in t[3]:
            site, wpath, desc = w[0], w[1], w[2]
            if desc[0] == 'call':
                p2 = site
                cinfo = desc[4]
                for x in desc[2]:
                    out |= deps(facts, a, x, p2, depth + 1)
                # a local callee writing through the reference: add what its body depends on besides parameters
                tg = callee_targets(facts, cinfo, desc[1]) if cinfo else []
                for b in tg[:4]:
                    out |= body_consts(facts, b.key, depth + 1)
                if cinfo and cinfo[0] and cinfo[0].startswith('op_mode::'):
                    out.add(('method', cinfo[1]))
            elif desc[0] == 'store':
                out |= deps(facts, a, desc[1], site, depth + 1)
            elif desc[0] == 'call?':
                for x in desc[2]:
                    out |= deps(facts, a, x, site, depth + 1)
        return out
    if k == 'phi':
        for _, x in t[1]:
            out |= deps(facts, a, x, point, depth + 1)
        return out
    for x in t[1:]:
        if isinstance(x, tuple):
            out |= deps(facts, a, x, point, depth + 1)
    return out


def body_consts(facts, key, depth=0):
    """labels / associated constants mentioned anywhere in a local body (for out-parameter writers)"""
    cache = facts.__dict__.setdefault('_bodyconst_cache', {})
    if key in cache:
        return cache[key]
    cache[key] = set()
    a = get_an(facts, key)
    out = set()
    if a is not None and depth <= MAXD:
        for bi, t, c in a.calls():
            for i in range(len(t['args'])):
                v = a.arg_val(bi, i)
                if v[0] == 'aconst':
                    out.add(('aconst', v[2]))
                b = bytes_of(v)
                if b is not None and 0 < len(b) <= 16:
                    out.add(('label', b))
    cache[key] = out
    return out
