"""C04 — nonce sequencing (DESIGN §5 C04: R04.1 … R04.7)."""
from ..prov import get_an, pp, strip_generics, contains, walk
from .common import (switch_on, all_ans, adt_field_stores, adt_field_mut_borrows, aggregates_of, is_ok_agg, enumerate_paths,
                     switch_edge, uses_of_local_blocks, addr_fields, load_path_fields, where, hpke_variant,
                     is_err_agg, site_reaches, ret_classes, result_err_variants)
from .common import HPKE_ERR
from .aeadctx import (aead_sites, SiteInfo, check_nonce_helper, field_ref_of_self, CTX_ADT, is_zero_init)

EXPLANATION = (
    'Static analysis of drop-elaborated MIR (all cargo features). Decides the structural clause of C04 for every '
    'input and history: R04.1 nonce = base XOR big-endian u64 counter in the last 8 bytes (bit-provenance of the '
    'encoder, position of the written sub-slice, whole-buffer XOR); R04.2 the AEAD call receives that nonce computed '
    'from self.base_nonce/self.seq before any counter update; R04.3 the overflow flag is tested on the edge that '
    'dominates the AEAD call and every use of the caller\'s buffer, the refusing branch returns MessageLimitReached; '
    'R04.4 on every Ok path exactly one counter update (seq := Some-payload of the increment, or overflowed := true on '
    'None) after the AEAD verdict, none on any Err path; R04.5 the increment is u64::checked_add(seq.0, 1); R04.6 '
    'whole-crate who-writes for the context fields and monotone latch; R04.7 the allocating seal delegates with '
    'unchanged aad and error. Not decided: the AEAD primitives, cryptographic consequences of nonce reuse.')
TRUSTED = ['rustc 1.97-nightly MIR construction (mir-opt-level=0)', 'aead / aes-gcm / chacha20poly1305 crates',
           'generic_array::GenericArray::<u8,N>::default() is all-zero', 'core::num::checked_add, Option::map semantics']
ASSUME = ['dependencies behave as documented', 'no unsafe code in hpke (checked by C18 R18.1)']


def nonce_helper_call(si):
    """the nonce argument of the AEAD call as a call of a local helper on (&self.base_nonce, &self.seq):
    -> (nonce value, helper call term, helper key | None, helper args, indexes of base_nonce args, indexes of seq args)"""
    a = si.a
    nonce = si.args[1] if len(si.args) > 1 else ('unknown', 'no nonce arg')
    nv = a.deref_val(nonce, si.point)
    hv = nv
    if hv[0] == 'field' and hv[1] == '0':
        hv = hv[2]
    if hv[0] == 'call' and hv[4] and hv[4][3]:
        hargs = hv[2]
        bidx = [i for i, x in enumerate(hargs) if field_ref_of_self(x, 'base_nonce')]
        sidx = [i for i, x in enumerate(hargs) if field_ref_of_self(x, 'seq')]
        return nv, hv, hv[4][3], hargs, bidx, sidx
    return nv, hv, None, [], [], []


def check_site(rep, facts, si, role):
    """rules on one sealing (role='seal') or opening (role='open') body. Rule ids are R04.x; C05 re-labels."""
    R = (lambda n: 'R04.%d' % n) if role == 'seal' else (lambda n: {2: 'R05.7', 3: 'R05.4', 4: 'R05.2'}.get(n, 'R05.%d' % n))
    a, fn = si.a, si.key
    # ---- R04.2 nonce argument
    nv, hv, helper, hargs, bidx, sidx = nonce_helper_call(si)
    ok2 = False
    if helper is not None:
        ok2 = len(hargs) == 2 and len(bidx) == 1 and len(sidx) == 1
        found = '%s(%s)' % (helper, ', '.join(pp(x) for x in hargs))
        if ok2:
            # the helper call must not be preceded by a counter update
            hsite = a.term_point(hv[3])
            early = [s for s, f, _ in si.stores if f in ('seq', 'base_nonce') and site_reaches(a, s, hsite)]
            ok2 = not early
            found += ' ; counter updates that can precede it: %d' % len(early)
            ok2 = ok2 and a.cfg.dominates(hv[3], si.bi)
    else:
        found = pp(nv)[:300]
    rep.check(ok2, R(2), fn, 'nonce-arg', found,
              'nonce = helper(&self.base_nonce, &self.seq), computed before any counter update, dominating the AEAD call',
              where(a, si.point))
    if ok2:
        # the receiver needs the same injective counter encoding: otherwise ciphertexts of other positions verify (replay)
        check_nonce_helper(rep, facts, helper, bidx[0] + 1, sidx[0] + 1, 'R04.1' if role == 'seal' else 'R05.7')
    si.helper = helper if ok2 else None
    # the AEAD object is self.encryptor, borrowed immutably
    rep.check(field_ref_of_self(si.args[0], 'encryptor') and not (si.args[0][0] == 'addr' and si.args[0][3]),
              R(2), fn, 'aead-object', pp(si.args[0]), '&self.encryptor (shared borrow)', where(a, si.point))

    # ---- R04.3 overflow check first
    if si.ovf is None:
        rep.bad(R(3), fn, 'overflow-switch', '%d branch(es) on self.overflowed' % len(si.ovf_all),
                'exactly one branch on self.overflowed', where(a))
    else:
        obi, ot, _ = si.ovf
        fsrc, ftgt = si.ovf_false
        dom_call = a.cfg.edge_dominates(fsrc, ftgt, si.bi)
        rep.check(dom_call, R(3), fn, 'check-dominates-aead', 'edge bb%d->bb%d (overflowed == false) dominates the AEAD call: %s' % (fsrc, ftgt, dom_call),
                  'the not-overflowed edge dominates the AEAD call', where(a, a.term_point(obi)))
        # buffer parameter: the &mut [u8] param that reaches the AEAD buffer argument
        bufarg = si.args[3] if len(si.args) > 3 else None
        bufp = bufarg[1] if bufarg and bufarg[0] == 'param' else None
        if bufp is None:
            rep.undecided(R(3), fn, 'buffer-param', pp(bufarg) if bufarg else 'none', 'the buffer argument is a parameter', where(a, si.point))
        else:
            ub = uses_of_local_blocks(a, bufp)
            notdom = [b for b in ub if not a.cfg.edge_dominates(fsrc, ftgt, b)]
            rep.check(not notdom, R(3), fn, 'buffer-untouched-when-refusing',
                      'blocks using the buffer parameter: %s ; not dominated by the not-overflowed edge: %s' % (sorted(ub), notdom),
                      'every use of the caller\'s buffer is dominated by the not-overflowed edge', where(a))
        # the refusing branch returns Err(MessageLimitReached)
        tb = si.ovf_true[1] if si.ovf_true else None
        refusal = []
        for s, t, cls in si.classes:
            if s is None:
                continue
            if tb is not None and (s[0] == tb or s[0] in a.cfg.fwd(tb)) and not a.cfg.edge_dominates(fsrc, ftgt, s[0]):
                refusal.append((s, t, cls))
        okr = len(refusal) == 1 and refusal[0][2] == ('err', frozenset(['MessageLimitReached']))
        if not okr and tb is not None:
            # returns shared by several paths (a re-wrapping join at the end): decide per path — every path that takes the
            # overflowed edge returns exactly Err(MessageLimitReached)
            try:
                from ..booldec import paths_with_constraints, Undecidable
                from ..prov import strip_sites
                want = ('agg', 'adt', 'core::result::Result::Err', (('agg', 'adt', HPKE_ERR + '::MessageLimitReached', (), ()),), ('0',))
                pr = [strip_sites(rt) for cons, rt, rs, path in paths_with_constraints(a, with_path=True)
                      if any(path[i] == obi and path[i + 1] == tb for i in range(len(path) - 1))]
                if pr and all(x == want for x in pr):
                    okr = True
                    refusal = []
                    rep.note('%s: refusal value decided per path (%d path(s) through the overflowed edge)' % (fn, len(pr)))
            except Undecidable:
                pass
        rep.check(okr, R(3), fn, 'refusal-value', '; '.join(pp(t) for _, t, _ in refusal) or 'none',
                  'Err(MessageLimitReached) on the overflowed branch', where(a, refusal[0][0]) if refusal else where(a))
    # ---- R04.4 increment after success, exactly once on Ok paths, never on Err paths
    check_effects(rep, facts, si, R(4), role)


def effects_by_paths(rep, facts, si, rule, role, as_rule=None):
    """The AEAD result is inspected by more than one branch (`match (next_seq, &res)`, a re-built Result tested again): decide the
    same obligations per *path*.  Every acyclic path of the body is enumerated with consistent outcomes of repeated tests (a value
    rebuilt on the path has the variant it was built with); on each feasible path that runs the AEAD call:
      verdict Err  -> no counter write, an Err is returned;      verdict Ok, next = Some -> exactly one write, self.seq = next;
      verdict Ok, next = None -> exactly one write, overflowed = true;   and Ok is returned only on verdict-Ok paths.
    Paths that do not run the AEAD call (the refusal) write nothing.  -> True if every obligation held."""
    from ..booldec import paths_with_constraints, Undecidable
    from ..prov import strip_sites
    a, fn = si.a, si.key
    RR = as_rule or ('R05.3' if role == 'open' else rule)
    W = [(s, f, st) for s, f, st in si.stores if f in ('seq', 'overflowed')]
    try:
        paths = paths_with_constraints(a, with_path=True)
    except Undecidable as e:
        rep.undecided(rule, fn, 'verdict-paths', str(e), 'an acyclic sealing/opening body', where(a, si.point))
        return False
    site_bi = si.bi

    def from_aead(t):
        for x in walk(t):
            if isinstance(x, tuple) and x and x[0] == 'call' and x[1].endswith(si.method):
                return True
        return False

    def from_inc(t):
        for x in walk(t):
            if isinstance(x, tuple) and x and x[0] == 'call' and len(x) > 2 and (_is_seq_checked_add_nosite(x) or
                    (len(x[2]) == 1 and field_ref_of_self(x[2][0], 'seq') and x[1] not in ('core::clone::Clone::clone',))):
                return True
        return False

    def allowed(v, k):
        if isinstance(v, frozenset):
            return v == frozenset([k])
        return isinstance(v, tuple) and v[0] == 'not' and k not in v[1] and len(v[1]) >= 1 and False
    ok_all = True
    n_ok = n_err = 0
    for cons, rt, rsite, path in paths:
        ran = site_bi in path
        verdict = None
        inc = None
        for atom, v in cons.items():
            d = atom
            if d[0] == 'discr':
                x = d[1][1] if d[1][0] == 'try' else d[1]
                vals = v if isinstance(v, frozenset) else None
                if from_aead(x) and not from_inc(x):
                    ok_ = (vals == frozenset([0])) if vals is not None else (isinstance(v, tuple) and 0 not in v[1] and False)
                    this = 'Ok' if vals == frozenset([0]) else 'Err'
                    if verdict is not None and verdict != this:
                        verdict = 'conflict'
                    else:
                        verdict = this
                elif from_inc(x):
                    this = 'Some' if vals == frozenset([1]) else 'None'
                    inc = this if inc in (None, this) else 'conflict'
            elif d[0] == 'call' and d[1] in ('core::result::Result::is_err', 'core::result::Result::is_ok') and from_aead(d):
                truth = not (isinstance(v, frozenset) and v == frozenset([0]))
                this = ('Err' if truth else 'Ok') if d[1].endswith('is_err') else ('Ok' if truth else 'Err')
                verdict = this if verdict in (None, this) else 'conflict'
        if verdict == 'conflict' or inc == 'conflict':
            continue                    # infeasible: the same outcome tested both ways
        writes = [(s, f, st) for s, f, st in W if s[0] in path]
        cls = None
        for s2, t2, c2 in si.classes:
            pass
        is_ok = rt[0] == 'agg' and rt[2] == 'core::result::Result::Ok'
        is_err = (rt[0] == 'agg' and rt[2] == 'core::result::Result::Err') or rt[0] == 'from_residual'
        desc = 'path %s: AEAD %s, verdict=%s, next=%s, writes=%s, returns %s' % (
            '->'.join(str(b) for b in path[:3]) + '..', 'run' if ran else 'not run', verdict, inc, [f for _, f, _ in writes], 'Ok' if is_ok else ('Err' if is_err else pp(rt)[:40]))
        good = True
        if not ran:
            good = not writes and is_err
        elif verdict == 'Err':
            good = not writes and is_err
            n_err += 1
        elif verdict == 'Ok':
            n_ok += 1
            if inc == 'Some':
                good = is_ok and len(writes) == 1 and writes[0][1] == 'seq'
            elif inc == 'None':
                good = is_ok and len(writes) == 1 and writes[0][1] == 'overflowed'
            else:
                good = False
        else:
            good = False               # the AEAD ran and its result was not inspected on this path
        if not good:
            ok_all = False
            rep.bad(RR, fn, 'path-effects', desc,
                    'verdict Err: no counter write and an Err; verdict Ok: Ok and exactly one write (seq on Some, overflowed on None); '
                    'no AEAD call: no write and an Err', where(a, rsite if isinstance(rsite, tuple) else si.point))
    if ok_all:
        rep.ok(RR, fn, 'path-effects',
               '%d feasible path(s): %d with verdict Ok, %d with verdict Err — effects and results as required on each' % (len(paths), n_ok, n_err))
    rep.check(n_ok >= 1 and n_err >= 1, RR, fn, 'both-verdicts-reachable', 'Ok paths: %d, Err paths: %d' % (n_ok, n_err),
              'the body has a success path and a failure path after the AEAD call', where(a, si.point))
    return ok_all and n_ok >= 1 and n_err >= 1


def _is_seq_checked_add_nosite(c):
    if not (c[0] == 'call' and c[1] == 'core::num::<impl u64>::checked_add' and len(c[2]) == 2 and c[2][1] == ('const', 'u64', 1)):
        return False
    b, fs = load_path_fields(c[2][0])
    return b == ('param', 1) and fs in (['0', 'seq', '0'], ['seq', '0'])


def check_effects(rep, facts, si, rule, role):
    a, fn = si.a, si.key
    W = [(s, f, st) for s, f, st in si.stores if f in ('seq', 'overflowed')]
    other = [(s, f, st) for s, f, st in si.stores if f not in ('seq', 'overflowed')]
    rep.check(not other, rule, fn, 'other-field-writes', '%s' % [(f, a.line_at(s)) for s, f, _ in other],
              'no write to base_nonce/encryptor/exporter_secret/suite_id after construction', where(a, other[0][0]) if other else where(a))
    rep.check(not si.borrows, rule, fn, 'no-mut-borrow-of-fields', '%s' % [(f, a.line_at(s)) for s, f, _ in si.borrows],
              'no &mut of a context field escapes', where(a, si.borrows[0][0]) if si.borrows else where(a))
    if si.verdict is None and len(si.verdict_cands) > 1:
        # several branches look at the result: decided per path instead of by dominance
        si.path_decided = effects_by_paths(rep, facts, si, rule, role)
        for s, f, st in W:
            v = a.val_rv(st['rv'], s) if st['k'] == 'assign' else ('unknown', 'call dest')
            if f == 'overflowed':
                rep.check(v == ('const', 'bool', True), 'R04.6', fn, 'latch-monotone', 'self.overflowed = %s' % pp(v),
                          'outside the constructor `overflowed` is only ever set to true', where(a, s))
            else:
                src = v
                okp = False
                if src[0] == 'field' and src[1] == '0' and src[2][0] == 'variant' and src[2][1] == 'Some':
                    c = src[2][2]
                    okp = c[0] == 'call' and len(c[2]) == 1 and field_ref_of_self(c[2][0], 'seq') and bool(c[4] and c[4][3])
                    if okp:
                        si.__dict__.setdefault('inc_calls', {})[c[4][3]] = c
                if not okp and src[0] == 'agg' and src[2] == 'aead::Seq::Seq' and len(src[3]) == 1:
                    pv = src[3][0]
                    if pv[0] == 'field' and pv[1] == '0' and pv[2][0] == 'variant' and pv[2][1] == 'Some' and _is_seq_checked_add(pv[2][2]):
                        okp = True
                        si.__dict__.setdefault('direct_incs', []).append(pv[2][2])
                rep.check(okp, rule, fn, 'seq-update-value', 'self.seq = %s' % pp(v), 'self.seq = Some-payload of increment(&self.seq)', where(a, s))
        si.__dict__.setdefault('inc_calls', {})
        si.__dict__.setdefault('direct_incs', [])
        return
    if si.verdict is None:
        rep.bad('R05.3' if role == 'open' else rule, fn, 'verdict-switch', '%d candidate branch(es) on the AEAD result' % len(si.verdict_cands),
                'exactly one branch inspects the AEAD result (?, match, is_err/is_ok)', where(a, si.point))
        return
    vbi, vt, ok_edge, form, _ = si.verdict
    # every counter update is dominated by the "AEAD said Ok" edge
    for s, f, st in W:
        d = a.cfg.edge_dominates(vbi, ok_edge, s[0])
        rep.check(d, rule, fn, 'update-after-verdict:%s' % f, 'store to self.%s at line %s dominated by verdict-Ok edge bb%d->bb%d: %s' % (f, a.line_at(s), vbi, ok_edge, d),
                  'counter updates happen only after the AEAD call succeeded', where(a, s))
    # classify the updates
    inc_calls = {}
    direct_incs = []
    for s, f, st in W:
        if f == 'overflowed':
            v = a.val_rv(st['rv'], s) if st['k'] == 'assign' else ('unknown', 'call dest')
            rep.check(v == ('const', 'bool', True), 'R04.6', fn, 'latch-monotone', 'self.overflowed = %s' % pp(v),
                      'outside the constructor `overflowed` is only ever set to true', where(a, s))
        else:
            v = a.val_rv(st['rv'], s) if st['k'] == 'assign' else ('unknown', 'call dest')
            # must be the Some payload of increment(&self.seq)
            src = v
            okp = False
            if src[0] == 'field' and src[1] == '0' and src[2][0] == 'variant' and src[2][1] == 'Some':
                c = src[2][2]
                if c[0] == 'call' and c[4] and c[4][3] and len(c[2]) == 1 and field_ref_of_self(c[2][0], 'seq'):
                    okp = True
                    inc_calls[c[4][3]] = c
            # the increment written out in place: Seq(self.seq.0.checked_add(1)'s Some payload)
            if not okp and src[0] == 'agg' and src[2] == 'aead::Seq::Seq' and len(src[3]) == 1:
                pv = src[3][0]
                if pv[0] == 'field' and pv[1] == '0' and pv[2][0] == 'variant' and pv[2][1] == 'Some' and _is_seq_checked_add(pv[2][2]):
                    okp = True
                    direct_incs.append(pv[2][2])
            rep.check(okp, rule, fn, 'seq-update-value', 'self.seq = %s' % pp(v),
                      'self.seq = Some-payload of increment(&self.seq)', where(a, s))
    # the overflowed store sits on the None arm of the same increment call, the seq store on the Some arm
    for s, f, st in W:
        # find the nearest dominating switch on discr(increment result)
        arm_ok = False
        for bi in reversed(a.cfg.dom_chain(s[0])[:-1]):
            t = a.body.blocks[bi]['term']
            if t['k'] != 'switch':
                continue
            d = a.val_op(t['discr'], a.term_point(bi))
            is_helper = d[0] == 'discr' and d[1][0] == 'call' and d[1][4] and d[1][4][3] in inc_calls or \
                (d[0] == 'discr' and d[1][0] == 'call' and d[1][4] and d[1][4][3] and len(d[1][2]) == 1 and field_ref_of_self(d[1][2][0], 'seq'))
            is_direct = d[0] == 'discr' and _is_seq_checked_add(d[1])
            if is_helper or is_direct:
                want = 1 if f == 'seq' else 0    # Option: None = 0, Some = 1
                tgt = switch_edge(t, want)
                arm_ok = a.cfg.edge_dominates(bi, tgt, s[0]) and not any(
                    a.cfg.edge_dominates(bi, switch_edge(t, v), s[0]) for v in (0, 1) if v != want and switch_edge(t, v) != tgt)
                if is_helper and d[1][4][3]:
                    inc_calls.setdefault(d[1][4][3], d[1])
                break
        rep.check(arm_ok, rule, fn, 'update-arm:%s' % f, 'store to self.%s at line %s on the %s arm: %s' % (f, a.line_at(s), 'Some' if f == 'seq' else 'None', arm_ok),
                  'seq updated on Some, overflowed latched on None of the increment result', where(a, s))
    si.inc_calls = inc_calls
    si.direct_incs = direct_incs
    # per return class
    for s, t, cls in si.classes:
        if s is None:
            rep.undecided(rule, fn, 'return-shape', pp(t)[:200], 'explicit Ok/Err return values', where(a))
            continue
        before = [(ws, f) for ws, f, _ in W if site_reaches(a, ws, s)]
        if cls == 'ok':
            d = a.cfg.edge_dominates(vbi, ok_edge, s[0])
            rep.check(d, 'R05.3' if role == 'open' else rule, fn, 'ok-needs-verdict',
                      'Ok return at line %s dominated by the verdict-Ok edge: %s (form: %s)' % (a.line_at(s), d, form),
                      'Ok is returned only if the AEAD call returned Ok', where(a, s))
            paths = enumerate_paths(a.cfg, 0, s[0])
            if paths is None:
                rep.undecided(rule, fn, 'ok-paths', 'cyclic or too many paths', 'acyclic sealing/opening body', where(a, s))
                continue
            wblocks = {}
            for ws, f, _ in W:
                wblocks.setdefault(ws[0], []).append(f)
            bad = []
            for p in paths:
                n = sum(len(wblocks.get(b, [])) for b in p)
                if n != 1:
                    bad.append((p, n))
            rep.check(not bad, rule, fn, 'ok-advances-once',
                      '%d path(s) to the Ok return; paths with != 1 counter update: %s' % (len(paths), [(list(p), n) for p, n in bad][:3]),
                      'every path to Ok performs exactly one counter update', where(a, s))
        elif isinstance(cls, tuple) and cls[0] == 'err':
            rep.check(not before, rule if role == 'seal' else 'R05.1', fn, 'err-no-effect:%s' % ','.join(sorted(cls[1])),
                      'counter updates that can precede this Err return: %s' % [(f, a.line_at(ws)) for ws, f in before],
                      'no write to the context on any failing path', where(a, s))
        else:
            rep.undecided(rule, fn, 'return-class', pp(t)[:200], 'Ok(..) or Err(..)', where(a, s))


def _is_seq_checked_add(c):
    """u64::checked_add(self.seq.0, 1) on the context's own counter (through self.0 of the wrapper or directly)"""
    if not (c[0] == 'call' and c[1] == 'core::num::<impl u64>::checked_add' and len(c[2]) == 2 and c[2][1] == ('const', 'u64', 1)):
        return False
    b, fs = load_path_fields(c[2][0])
    return b == ('param', 1) and fs in (['0', 'seq', '0'], ['seq', '0'])


def check_increment(rep, facts, key, rule='R04.5'):
    a = get_an(facts, key)
    if a is None:
        rep.anchor_lost(rule, 'increment ' + str(key), 'local increment function', 'no body')
        return
    rt = a.ret_val()
    ok = False
    # after normalisation `x.map(Seq)` and the match it abbreviates are the same term:
    #   phi( Some(Seq(checked_add(seq.0, 1).Some.0)) | None )
    if rt[0] == 'phi' and len(rt[1]) == 2:
        alts = [x[1] for x in rt[1]]
        some = [x for x in alts if x[0] == 'agg' and x[2] == 'core::option::Option::Some' and len(x[3]) == 1]
        none = [x for x in alts if x[0] == 'agg' and x[2] == 'core::option::Option::None']
        if len(some) == 1 and len(none) == 1:
            w = some[0][3][0]
            if w[0] == 'agg' and w[2] == 'aead::Seq::Seq' and len(w[3]) == 1:
                v = w[3][0]
                if v[0] == 'bin' and v[1] == 'Add' and v[3] == ('const', 'u64', 1):
                    # `if seq.0 < u64::MAX { Some(Seq(seq.0 + 1)) } else { None }`: the sum is built only under x < MAX, None
                    # only under x == MAX (decided from the dominating comparisons: no saturation, no wrap)
                    b, fs = load_path_fields(v[2])
                    if b == ('param', 1) and fs == ['0']:
                        from .common import cmp_guard
                        mx = ('const', 'u64', 2 ** 64 - 1)
                        ssite = [x[0] for x in rt[1] if x[1] is some[0]][0]
                        nsite = [x[0] for x in rt[1] if x[1] is none[0]][0]
                        gs = cmp_guard(a, ssite[0], v[2], mx)
                        gn = cmp_guard(a, nsite[0], v[2], mx)
                        ok = gs['guards'] >= 1 and gs['lt'] and not gs['eq'] and not gs['gt'] and gn['guards'] >= 1 and not gn['lt']
                if v[0] == 'field' and v[1] == '0' and v[2][0] == 'variant' and v[2][1] == 'Some':
                    inner = v[2][2]
                    if inner[0] == 'call' and inner[1] == 'core::num::<impl u64>::checked_add':
                        x, one = inner[2]
                        b, fs = load_path_fields(x)
                        ok = b == ('param', 1) and fs == ['0'] and one == ('const', 'u64', 1)
                        if ok:
                            # the None alternative is returned exactly when checked_add returned None
                            sw = switch_on(a, lambda d: d[0] == 'discr' and d[1][0] == 'call' and d[1][1] == 'core::num::<impl u64>::checked_add')
                            ok = len(sw) == 1
    rep.check(ok, rule, key, 'checked-add', pp(rt), 'u64::checked_add(seq.0, 1).map(Seq), or the same spelled as a guarded seq.0 + 1 (no wrap, no saturation, step 1, full width)', where(a))


def who_writes(rep, facts, sites, rule='R04.6'):
    """whole-crate: context fields are written only by the constructor and the seal/open bodies"""
    site_keys = {si.key for si in sites}
    n_bodies = 0
    ctor_sites = 0
    for a in all_ans(facts):
        n_bodies += 1
        fn = a.body.key
        st = adt_field_stores(a, CTX_ADT)
        br = adt_field_mut_borrows(a, CTX_ADT)
        ag = aggregates_of(a, CTX_ADT)
        if not st and not br and not ag and ('"adt":"%s"' % CTX_ADT) not in a.body.raw_text():
            continue          # body never touches a context field
        if fn not in site_keys:
            rep.check(not st, rule, fn, 'no-store', '%s' % [(f, a.line_at(s)) for s, f, _ in st],
                      'only the sealing/opening bodies store to context fields', where(a, st[0][0]) if st else where(a))
            rep.check(not br, rule, fn, 'no-mut-borrow', '%s' % [(f, a.line_at(s)) for s, f, _ in br],
                      'no &mut borrow of a context field outside the sealing/opening bodies', where(a, br[0][0]) if br else where(a))
        for s, stmt in ag:
            ctor_sites += 1
            v = a.val_rv(stmt['rv'], s)
            fields = dict(zip(v[4], v[3]))
            okc = a.body.sig and a.body.sig['output'].startswith('aead::AeadCtx<') and not a.body.raw.get('exported')
            rep.check(okc, rule, fn, 'ctor-site', 'AeadCtx{..} built in %s (exported=%s)' % (fn, a.body.raw.get('exported')),
                      'the context is only built by a crate-private constructor', where(a, s))
            rep.check(fields.get('overflowed') == ('const', 'bool', False), rule, fn, 'ctor-overflowed',
                      pp(fields.get('overflowed', ('unknown', 'missing'))), 'overflowed: false', where(a, s))
            rep.check(is_zero_init(facts, fields.get('seq', ('unknown', 'missing'))), rule, fn, 'ctor-seq',
                      pp(fields.get('seq', ('unknown', 'missing'))), 'seq starts at 0', where(a, s))
    rep.floor(rule, 'AeadCtx constructor sites', ctor_sites, 1)
    # nobody outside the crate can reach the fields either
    for path in ('aead::AeadCtx', 'aead::AeadCtxS', 'aead::AeadCtxR', 'aead::Seq'):
        adt = facts.adts.get(path)
        if adt is None:
            continue
        pubf = [f['name'] for f in adt['variants'][0]['fields'] if f['vis'] == 'pub' and adt.get('exported')]
        rep.check(not pubf, rule, path, 'fields-not-public', pubf, 'context state is not writable from outside the crate', None)
    return n_bodies


def check_alloc_wrapper(rep, facts, si, rule='R04.7'):
    """public functions calling the in-place seal: pass self/aad through, propagate the error unchanged"""
    n = 0
    for a in all_ans(facts):
        for bi, t, c in a.calls(lambda c: c.get('key') == si.key or (c.get('resolved') or {}).get('key') == si.key):
            if a.body.key == si.key:
                continue
            io = a.body.impl_of
            if not io or io.get('self_ty') != si.a.body.impl_of.get('self_ty'):
                continue   # single-shot wrappers are C14's business
            n += 1
            fn = a.body.key
            args = [a.arg_val(bi, i) for i in range(len(t['args']))]
            rep.check(args[0] == ('param', 1), rule, fn, 'self-passthrough', pp(args[0]), 'self', where(a, a.term_point(bi)))
            aad_params = [i for i in range(1, a.body.arg_count + 1) if a.body.local_name(i) == 'aad']
            rep.check(args[2][0] == 'param' and a.body.local_ty(args[2][1]) == '&[u8]' and args[2][1] == a.body.arg_count,
                      rule, fn, 'aad-passthrough', pp(args[2]), 'the aad parameter (last parameter), unmodified', where(a, a.term_point(bi)))
            rep.check(a.body.sig['inputs'][1] == '&[u8]', rule, fn, 'plaintext-immutable', a.body.sig['inputs'][1],
                      'plaintext taken by shared reference (caller\'s data cannot be touched)', where(a))
            # error propagated unchanged
            errs = [(s, tt) for s, tt, cls in ret_classes(a, facts) if isinstance(cls, tuple) and cls[0] == 'err']
            for s, tt in errs:
                same = tt[0] == 'from_residual' and tt[1][0] == 'residual' and tt[1][1][0] == 'call' and tt[1][1][3] == bi
                rep.check(same, rule, fn, 'error-identity', pp(tt)[:200], 'the in-place seal\'s error, propagated by `?` unchanged', where(a, s))
    return n


def run(ctx):
    rep, facts = ctx.rep, ctx.facts
    sites = [SiteInfo(facts, a, bi, t, 'encrypt_in_place_detached') for a, bi, t, c in aead_sites(facts, 'encrypt_in_place_detached')]
    if not rep.floor('R04.0', 'sealing sites (callers of AeadInPlace::encrypt_in_place_detached)', len(sites), 1):
        return
    incs = {}
    for si in sites:
        check_site(rep, facts, si, 'seal')
        incs.update(getattr(si, 'inc_calls', {}))
    ndirect = sum(len(getattr(si, 'direct_incs', [])) for si in sites)
    rep.floor('R04.5', 'increment functions (or increments written in place)', len(incs) + ndirect, 1)
    for k in incs:
        check_increment(rep, facts, k)
    open_sites = [SiteInfo(facts, a, bi, t, 'decrypt_in_place_detached') for a, bi, t, c in aead_sites(facts, 'decrypt_in_place_detached')]
    nb = who_writes(rep, facts, sites + open_sites)
    rep.bodies_analysed = nb
    for si in sites:
        n = check_alloc_wrapper(rep, facts, si)
        if 'alloc' in facts.meta.get('features', []) or 'std' in facts.meta.get('features', []):
            rep.floor('R04.7', 'allocating wrappers of the in-place seal', n, 1)
    rep.call_sites = sum(len(get_an(facts, b.key).calls()) for b in facts.body_list)
    ctx.posctl_who_writes(who_writes, 'R04.6')
