"""C10 — X25519 all-zero DH result aborts setup (DESIGN §5 C10: R10.1 … R10.3)."""
from ..prov import get_an, pp, bytes_of, strip_sites, walk, unref
from .. import booldec
from .common import (all_ans, impl_bodies, bodies_calling, where, is_ok_agg, is_err_agg, closure_ret, hpke_variant,
                     fn_err_variants, ret_classes, switch_edge, uses_of_local_blocks, result_outcome)

EXPLANATION = (
    'Static analysis of MIR (all cargo features). R10.1: in the X25519 `dh` body the result of the dalek '
    'diffie_hellman call is compared with 32 zero bytes (ct_eq / == / was_contributory); the complete decision table '
    'over that single atom is enumerated: zero -> Err(DhError), non-zero -> Ok(KexResult(that same result)); no other '
    'Err is constructed, so other keys are never rejected. R10.2: every call of DhKeyExchange::dh in the crate has its '
    'result consumed by map_err(-> EncapError)+`?` on the encapsulation side and map_err(-> DecapError)+`?` in decap; '
    'none is unwrapped or discarded. R10.3: inter-procedural error-set analysis (CHA over the KEM impls): '
    'setup_sender can only return EncapError, setup_receiver only DecapError, and the key schedule call is dominated '
    'by the success edge of encap/decap (no context on failure). Not decided: which inputs give the zero output '
    '(curve25519 group theory; trusted).')
TRUSTED = ['x25519-dalek diffie_hellman / SharedSecret::as_bytes', 'subtle::ConstantTimeEq for [u8]',
           'small-order inputs produce the all-zero output (RFC 7748)']
ASSUME = ['dependencies behave as documented']

DH_TRAIT = 'dhkex::DhKeyExchange'


def zero_atom(x):
    """(is_atom, polarity) — polarity True: atom true means 'result is all-zero'"""
    if x[0] == 'call' and x[1] == 'core::convert::Into::into' and len(x[2]) == 1:
        return zero_atom(x[2][0])
    if x[0] == 'call' and x[1] in ('subtle::ConstantTimeEq::ct_eq', 'core::cmp::PartialEq::eq', 'core::cmp::PartialEq::ne'):
        l, r = x[2]
        for dh, z in ((l, r), (r, l)):
            zb = bytes_of(z)
            if zb is not None and len(zb) == 32 and set(zb) == {0} and _is_dh_bytes(dh):
                return True, not x[1].endswith('::ne')
    if x[0] == 'call' and x[1].endswith('::was_contributory') and len(x[2]) == 1:
        return True, False
    return False, None


def _is_dh_bytes(t):
    # as_bytes(&res) / to_bytes(&res) / &res where res is the diffie_hellman result
    t = unref(t)
    if t[0] == 'call' and t[1].rsplit('::', 1)[-1] in ('as_bytes', 'to_bytes') and len(t[2]) == 1:
        return True
    return False


def check_x25519_dh(rep, facts, a):
    fn = a.body.key
    dh_calls = a.calls(lambda c: c['crate'] == 'x25519_dalek' and c['name'] == 'diffie_hellman')
    if len(dh_calls) != 1:
        rep.bad('R10.1', fn, 'dh-call', '%d dalek diffie_hellman call(s)' % len(dh_calls), 'exactly one', where(a))
        return
    dbi, dt, _ = dh_calls[0]
    dargs = [a.arg_val(dbi, i) for i in range(2)]
    okargs = pp(dargs[0]) == '&*p1.0' and pp(dargs[1]) == '&*p2.0'
    rep.check(okargs, 'R10.1', fn, 'dh-args', 'diffie_hellman(%s, %s)' % (pp(dargs[0]), pp(dargs[1])), 'diffie_hellman(&sk.0, &pk.0)', where(a, a.term_point(dbi)))
    res_local = dt['dest']['l']
    try:
        atoms, rows = booldec.bool_table(a, lambda x: zero_atom(x)[0])
    except booldec.Undecidable as e:
        rep.undecided('R10.1', fn, 'decision-table', str(e), 'a single branch on "DH output == 32 zero bytes"', where(a))
        return
    if len(atoms) != 1:
        rep.bad('R10.1', fn, 'zero-test', '%d zero-test atom(s): %s' % (len(atoms), [pp(x) for x in atoms]),
                'exactly one comparison of the DH output with the all-zero value', where(a))
        return
    atom = atoms[0]
    _, pol = zero_atom(atom)
    # the compared bytes belong to *this* dh result
    refs = [s for s in walk(atom) if isinstance(s, tuple) and s[:2] == ('addr', ('local', res_local))]
    rep.check(bool(refs), 'R10.1', fn, 'zero-test-subject', pp(atom), 'the bytes compared are those of the diffie_hellman result', where(a))
    for asg, rt, site in rows:
        is_zero = asg[atom] if pol else not asg[atom]
        if is_zero:
            ok = is_err_agg(rt) and rt[3][0][0] == 'agg' and rt[3][0][2].startswith('dhkex::DhError')
            rep.check(ok, 'R10.1', fn, 'zero->Err', pp(rt), 'Err(DhError) when the DH output is all zeros', where(a, site))
        else:
            ok = False
            if is_ok_agg(rt):
                pl = rt[3][0]
                if pl[0] == 'agg' and len(pl[3]) == 1:
                    inner = pl[3][0]
                    ok = inner[0] == 'call' and inner[3] == dbi
            rep.check(ok, 'R10.1', fn, 'nonzero->Ok', pp(rt), 'Ok(KexResult(the diffie_hellman result)) for every other output (never rejects other keys)', where(a, site))
    rep.extra['exhaustive'] = True


def check_dh_call_sites(rep, facts):
    sites = bodies_calling(facts, trait=DH_TRAIT, name='dh', exclude_impls_of=DH_TRAIT)
    for a, bi, t, c in sites:
        fn = a.body.key
        is_decap = bool(a.body.impl_of and a.body.impl_of.get('name') == 'decap')
        want = 'DecapError' if is_decap else 'EncapError'
        inst = 'dh@%s' % _site_name(a, bi)
        if t['dest']['p']:
            rep.undecided('R10.2', fn, inst, 'result stored into a projection', 'result bound to a local', where(a, a.term_point(bi)))
            continue
        # form-independent: one branch of the body decides on this result; every path through its failure edge returns
        # Err(want); nothing else reads the result (it is not unwrapped, discarded or stored)
        o = result_outcome(a, facts, bi)
        if o is None:
            rep.bad('R10.2', fn, inst, 'no branch of the body decides on the result (unwrapped / discarded / stored?)',
                    'dh(..) checked: failure mapped to HpkeError::%s and propagated' % want, where(a, a.term_point(bi)))
            continue
        hows = sorted({h for _, _, h in o['err_returns']})
        chain_ok = bool(o['err_returns']) and hows == [want]
        # the failure edge must lead to a return, not fall back into the success code
        chain_ok = chain_ok and not a.cfg.reaches_avoiding(o['err_edge'][1], o['ok_edge'][1])
        found = '%s form; on failure returns %s' % (o['form'], hows or 'nothing')
        if not t['dest']['p']:
            bad_users = [u for u in _users(a, t['dest']['l']) if u[1] == 'call' and u[2] not in ('map_err', 'branch', 'is_err', 'is_ok')]
            if bad_users:
                chain_ok = False
                found += '; also consumed by %s' % sorted({u[2] for u in bad_users})
        rep.check(chain_ok, 'R10.2', fn, inst, found, 'dh(..) checked: failure mapped to HpkeError::%s and propagated (`.map_err(..)?`, match or early return)' % want,
                  where(a, a.term_point(bi)))
    return len(sites)


def _site_name(a, bi):
    """line-free name of a dh call site: ordinal among the dh calls of the body along block order"""
    n = 0
    for b2, t, c in a.calls(lambda c: c.get('trait') == DH_TRAIT and c['name'] == 'dh'):
        if b2 == bi:
            return '#%d' % n
        n += 1
    return '#?'


def _users(a, l):
    """[(bi, 'call'|'stmt'|'switch', name)] of places where local l is read"""
    out = []

    def mentions(x):
        if isinstance(x, dict):
            if x.get('l') == l and 'p' in x:
                return True
            return any(mentions(v) for v in x.values())
        if isinstance(x, list):
            return any(mentions(v) for v in x)
        return False
    for bi, blk in enumerate(a.body.blocks):
        if blk['cleanup'] or bi not in a.cfg.reach:
            continue
        for st in blk['stmts']:
            if st['k'] == 'assign' and mentions(st['rv']):
                out.append((bi, 'stmt', st['rv']['k']))
        t = blk['term']
        if t['k'] == 'call' and mentions(t['args']):
            from ..mirjson import callee_of
            c = callee_of(t)
            out.append((bi, 'call', c['name'] if c else '?'))
        elif t['k'] == 'switch' and mentions(t['discr']):
            out.append((bi, 'switch', ''))
        elif t['k'] == 'drop' and mentions(t['place']):
            pass
    return out


def check_setup_errors(rep, facts, rule='R10.3'):
    for key, want, kemfn in (('setup::setup_sender', {'EncapError'}, 'encap'), ('setup::setup_receiver', {'DecapError'}, 'decap')):
        a = get_an(facts, key)
        if a is None:
            rep.anchor_lost(rule, key, 'public setup function', 'not found')
            continue
        if facts.impls_of('kem::Kem'):
            errs = fn_err_variants(facts, key)
            rep.check(errs == want, rule, key, 'error-set', sorted(errs), 'exactly %s' % sorted(want), where(a))
        else:
            rep.note('no Kem impl in this feature configuration: %s cannot be instantiated, error-set obligation is vacuous' % key)
        # no context on the Err path: the key schedule call is dominated by the success edge of the `?`
        kcalls = a.calls(lambda c: c.get('trait') == 'kem::Kem' and c['name'] == kemfn)
        if len(kcalls) != 1:
            rep.bad(rule, key, 'kem-call', '%d call(s) of Kem::%s' % (len(kcalls), kemfn), 'exactly one', where(a))
            continue
        kbi = kcalls[0][0]
        ks = a.calls(lambda c: c.get('local') and (c.get('name') not in ('get_sender_id_keypair', 'get_pk_sender_id')) and c['def_kind'] == 'Fn')
        for sbi, st, sc in ks:
            dom = False
            for b2 in a.cfg.dom_chain(sbi):
                t2 = a.body.blocks[b2]['term']
                if t2['k'] == 'switch':
                    d = a.val_op(t2['discr'], a.term_point(b2))
                    if d[0] == 'discr' and d[1][0] == 'try' and d[1][1][0] == 'call' and d[1][1][3] == kbi:
                        dom = a.cfg.edge_dominates(b2, switch_edge(t2, 0), sbi)
            rep.check(dom, rule, key, 'no-context-on-failure:%s' % sc['name'], 'call of %s dominated by success of Kem::%s: %s' % (sc['path'], kemfn, dom),
                      'the key schedule runs only after the KEM operation succeeded', where(a, a.term_point(sbi)))
        # the error is propagated unchanged
        for s, tt, cls in ret_classes(a, facts):
            if isinstance(cls, tuple) and cls[0] == 'err':
                ident = tt[0] == 'from_residual' and tt[1][0] == 'residual' and tt[1][1][0] == 'call' and tt[1][1][3] == kbi
                rep.check(ident, rule, key, 'error-identity', pp(tt)[:160], 'the KEM error propagated by `?` unchanged', where(a, s))


def run(ctx):
    rep, facts = ctx.rep, ctx.facts
    feats = facts.meta.get('features', [])
    if 'x25519' in feats:
        xs = [get_an(facts, b.key) for b in impl_bodies(facts, DH_TRAIT, 'dh')
              if not b.default_of and any(c and c['crate'] == 'x25519_dalek' for _, _, c in get_an(facts, b.key).calls())]
        if rep.floor('R10.1', 'X25519 dh bodies', len(xs), 1):
            for a in xs:
                check_x25519_dh(rep, facts, a)
    n = check_dh_call_sites(rep, facts)
    nk = len(facts.impls_of('kem::Kem'))
    rep.floor('R10.2', 'DhKeyExchange::dh call sites (4 per KEM)', n, 4 * nk)
    check_setup_errors(rep, facts)
    rep.bodies_analysed = len(facts.body_list)
