"""C02 — RFC 9180 wire conformance: wiring of the key schedule, labeled KDF, suite ids, tables
(DESIGN §5 C02: R02.1 … R02.8)."""
from .. import booldec
from ..prov import get_an, pp, bytes_of, strip_sites, unref, walk
from ..tyutil import typenum_usize
from .common import all_ans, bodies_calling, where, aggregates_of, impl_bodies
from .aeadctx import check_be_encoder, is_zero_init, aead_sites, SiteInfo
from .hpketerms import concat_pieces, check_append_helper
from . import rfc9180 as rfc
from . import modes, c04, c18

EXPLANATION = (
    'Static analysis of MIR and type-level facts (all cargo features) against a hand-encoded RFC 9180 oracle '
    '(rules/rfc9180.py: Tables 1, 2, 3, 5, label strings, concatenation orders). R02.1 identifier/size tables of every '
    'Aead/Kdf/Kem impl (ids, primitive types, Nk/Nn/Nt/Nh/Nsecret/Npk/Nsk/Nenc, KEM->KDF pairing). R02.2 suite ids '
    '"HPKE"||BE16(kem)||BE16(kdf)||BE16(aead) and "KEM"||BE16(kem) (positions, order, prefix). R02.3 integer encoders '
    'in the bit-provenance domain. R02.4 LabeledExtract = Extract(salt, "HPKE-v1"||suite||label||ikm) and '
    'LabeledExpand info = BE16(L)||"HPKE-v1"||suite||label||info in exactly this order on the right HKDF objects, result '
    'propagated; 255*Nh <= 65535 for every KDF so the u16 length prefix is exact on every Ok path. R02.5 KeySchedule: '
    'psk_id_hash, info_hash, key_schedule_context = mode||psk_id_hash||info_hash, secret = LabeledExtract(shared_secret, '
    '"secret", psk), key/base_nonce/exp expands writing the whole buffers, context constructor slots, seq = 0. R02.6 mode '
    'tables. R02.7 ephemeral key = DeriveKeyPair(random Nsk bytes). R02.8 ComputeNonce/Seal/Open wiring (shared with '
    'C04/C06) and Export. Not decided: byte-exactness of HKDF, HMAC, SHA-2, AES-GCM, ChaCha20-Poly1305 and the curve '
    'arithmetic (trusted base).')
TRUSTED = ['hkdf 0.12 (HkdfExtract::input_ikm concatenates, expand_multi_info concatenates info components)', 'hmac::SimpleHmac', 'sha2',
           'aes-gcm', 'chacha20poly1305', 'x25519-dalek', 'p256/p384/p521', 'the RFC 9180 transcription in rules/rfc9180.py']
ASSUME = ['the RFC tables and labels were transcribed correctly (single small file, reviewed)']

EXTRACT = 'kdf::labeled_extract'
EXPAND_TRAIT = 'kdf::LabeledExpand'


# ---------------------------------------------------------------------- R02.1
def check_tables(rep, facts, rule='R02.1'):
    n = 0
    for im in facts.impls_of('aead::Aead'):
        n += 1
        st = im['self_ty']
        aid = im['consts'].get('AEAD_ID')
        spec = rfc.AEADS.get(aid)
        if spec is None:
            rep.bad(rule, st, 'aead-id', aid, 'an id of RFC 9180 Table 5', None)
            continue
        it = im['types'].get('AeadImpl', {}).get('ty', '')
        rep.check(it.startswith(spec['impl']), rule, st, 'aead-primitive', it[:80], 'AEAD_ID 0x%04x is %s (%s..)' % (aid, spec['name'], spec['impl']), None)
        d = facts.derived.get(it, {})
        nk = d.get('crypto_common::KeySizeUser::KeySize', d.get('aead::KeySizeUser::KeySize', {})).get('usize')
        nn = d.get('aead::AeadCore::NonceSize', {}).get('usize')
        nt = d.get('aead::AeadCore::TagSize', {}).get('usize')
        if nk is None:
            for k2, v2 in d.items():
                if k2.endswith('KeySizeUser::KeySize'):
                    nk = v2.get('usize')
        rep.check(nk == spec['Nk'], rule, st, 'Nk', nk, 'Nk = %d' % spec['Nk'], None)
        if spec['Nn'] is not None:
            rep.check(nn == spec['Nn'], rule, st, 'Nn', nn, 'Nn = %d' % spec['Nn'], None)
        else:
            rep.check(nn is not None and nn >= 8, rule, st, 'Nn', nn, 'export-only: any nonce size >= 8 (never used to encrypt)', None)
        rep.check(nt == spec['Nt'], rule, st, 'Nt', nt, 'Nt = %d' % spec['Nt'], None)
    for im in facts.impls_of('kdf::Kdf'):
        n += 1
        st = im['self_ty']
        kid = im['consts'].get('KDF_ID')
        spec = rfc.KDFS.get(kid)
        if spec is None:
            rep.bad(rule, st, 'kdf-id', kid, 'an id of RFC 9180 Table 3', None)
            continue
        ht = im['types'].get('HashImpl', {}).get('ty', '')
        rep.check(('Oid' + spec['hash']) in ht, rule, st, 'kdf-hash', ht[-60:], 'KDF_ID %d is %s' % (kid, spec['name']), None)
        nh = None
        for k2, v2 in facts.derived.get(ht, {}).items():
            if k2.endswith('OutputSizeUser::OutputSize'):
                nh = v2.get('usize')
        rep.check(nh == spec['Nh'], rule, st, 'Nh', nh, 'Nh = %d' % spec['Nh'], None)
        rep.check(nh is not None and 255 * nh <= 65535, 'R02.4', st, 'u16-prefix-exact', '255*Nh = %s' % (255 * nh if nh else None),
                  '255*Nh <= 65535: HKDF\'s own bound makes the usize->u16 length prefix lossless on every Ok path', None)
    for im in facts.impls_of('kem::Kem'):
        n += 1
        st = im['self_ty']
        kid = im['consts'].get('KEM_ID')
        spec = rfc.KEMS.get(kid)
        if spec is None:
            rep.bad(rule, st, 'kem-id', kid, 'an id of RFC 9180 Table 2', None)
            continue
        rep.check(st == spec['kem_mod'] + '::' + spec['ty'], rule, st, 'kem-type', st, 'KEM_ID 0x%04x is %s' % (kid, spec['name']), None)
        ns = im['types'].get('NSecret', {}).get('usize')
        rep.check(ns == spec['Nsecret'], rule, st, 'Nsecret', ns, 'Nsecret = %d' % spec['Nsecret'], None)
        for assoc, want_ty, key in (('PublicKey', spec['dh_mod'] + '::PublicKey', 'Npk'), ('PrivateKey', spec['dh_mod'] + '::PrivateKey', 'Nsk'),
                                    ('EncappedKey', spec['kem_mod'] + '::EncappedKey', 'Nenc')):
            t = im['types'].get(assoc, {}).get('ty')
            rep.check(t == want_ty, rule, st, 'type:' + assoc, t, want_ty, None)
            sz = facts.derived.get(t, {}).get('Serializable::OutputSize', {}).get('usize')
            rep.check(sz == spec[key], rule, st, key, sz, '%s = %d' % (key, spec[key]), None)
    # the buffers that receive key-schedule / KEM outputs have exactly the RFC lengths at type level
    want = {
        'aead::AeadKey': ('0', 'generic_array::GenericArray<u8, <<A as aead::Aead>::AeadImpl as aead::KeySizeUser>::KeySize>', 'Nk'),
        'aead::AeadNonce': ('0', 'generic_array::GenericArray<u8, <<A as aead::Aead>::AeadImpl as aead::AeadCore>::NonceSize>', 'Nn'),
        'aead::AeadTag': ('0', 'generic_array::GenericArray<u8, <<A as aead::Aead>::AeadImpl as aead::AeadCore>::TagSize>', 'Nt'),
        'setup::ExporterSecret': ('0', 'generic_array::GenericArray<u8, <<Kdf as kdf::Kdf>::HashImpl as digest::OutputSizeUser>::OutputSize>', 'Nh'),
        'kem::SharedSecret': ('0', 'generic_array::GenericArray<u8, <Kem as kem::Kem>::NSecret>', 'Nsecret'),
    }
    for path, (fname, ty, what) in want.items():
        adt = facts.adts.get(path)
        if adt is None:
            rep.anchor_lost(rule, path, 'buffer type', 'not found')
            continue
        fl = [f['ty'] for f in adt['variants'][0]['fields'] if f['name'] == fname]
        got = fl[0] if fl else None
        okt = got == ty or (got or '').replace('crypto_common::', 'aead::') == ty
        rep.check(okt, rule, path, 'buffer-length:' + what, got, '%s bytes at type level: %s' % (what, ty), None)
        n += 1
    for im in facts.impls_of('kem::Kem'):
        raw = im['types'].get('NSecret', {}).get('raw', '')
        spec = rfc.KEMS.get(im['consts'].get('KEM_ID'))
        if spec:
            rep.check(im['types'].get('NSecret', {}).get('usize') == rfc.KDFS[spec['kdf']]['Nh'], rule, im['self_ty'], 'Nsecret-is-Nh-of-kem-kdf',
                      raw[-80:], 'Nsecret = Nh of the KEM\'s KDF (RFC 9180 §4.1)', None)
    return n


# ---------------------------------------------------------------------- R02.2
def check_suite_ids(rep, facts, rule='R02.2'):
    for key, prefix, slots in (('util::full_suite_id', rfc.SUITE_PREFIX_FULL,
                                [(4, ('kem::Kem', 'KEM_ID', 'Kem')), (6, ('kdf::Kdf', 'KDF_ID', 'Kdf')), (8, ('aead::Aead', 'AEAD_ID', 'A'))]),
                               ('util::kem_suite_id', rfc.SUITE_PREFIX_KEM, [(3, ('kem::Kem', 'KEM_ID', 'Kem'))])):
        a = get_an(facts, key)
        if a is None:
            # re-find by role: local fn returning [u8; N] and taking no arguments
            rep.anchor_lost(rule, key, 'suite id constructor', 'not found')
            continue
        fn = key
        rt = a.ret_val()
        total = len(prefix) + 2 * len(slots)
        enc_keys = set()
        sym = symbolic_bytes(rt, enc_keys, a)
        if sym is None:
            rep.undecided(rule, fn, 'shape', pp(rt)[:200], 'a byte array built from constants and big-endian encodings of the identifiers '
                          '(template + write_u16_be, or an array literal over to_be_bytes)', where(a))
            continue
        rep.check(len(sym) == total and all(x == ('c', p) for x, p in zip(sym, prefix)), rule, fn, 'prefix',
                  [x[1] if x[0] == 'c' else '?' for x in sym[:len(prefix)]], '%d bytes starting with %r' % (total, prefix), where(a))
        for lo_v, (tr, cname, gparam) in slots:
            got = sym[lo_v:lo_v + 2] if len(sym) >= lo_v + 2 else []
            ok = len(got) == 2 and all(g[0] == 'be' and g[2] == k and g[3] == 2 and g[1][0] == 'aconst' and g[1][1] == tr and g[1][2] == cname and g[1][3] == gparam
                                       for k, g in enumerate(got))
            rep.check(ok, rule, fn, 'id@%s' % lo_v, [pp(g[1]) + '.be[%d/%d]' % (g[2], g[3]) if g[0] == 'be' else str(g) for g in got],
                      'bytes [%s..%s) = I2OSP(%s, 2)' % (lo_v, lo_v + 2, cname), where(a))
        rep.check(len([x for x in sym if x[0] == 'be']) == 2 * len(slots), rule, fn, 'writers', '%d identifier byte(s)' % len([x for x in sym if x[0] == 'be']),
                  '%d identifiers, two bytes each, every other byte constant' % len(slots), where(a))
        for k in sorted(enc_keys):
            check_be_encoder(rep, facts, k, 2, 'R02.3')
        rep.check(len(enc_keys) <= 1, rule, fn, 'encoder', sorted(enc_keys), 'identifiers written by the verified big-endian u16 encoder (or u16::to_be_bytes)', where(a))


def symbolic_bytes(t, enc_keys=None, a=None):
    """per-byte symbolic value of a byte-array term: ('c', byte) | ('be', value term, k, n) = byte k of the n-byte big-endian
    encoding of value | None if the term is not understood.  Understands constants, array literals over constants and
    `to_be_bytes(v)[k]`, and a template overwritten (on every path) by local big-endian encoder calls on constant ranges."""
    b = bytes_of(t)
    if b is not None:
        return [('c', x) for x in b]
    if t[0] == 'agg' and t[1] == 'array':
        out = []
        for f in t[3]:
            if f[0] == 'const' and isinstance(f[2], int) and not isinstance(f[2], bool):
                out.append(('c', f[2] & 0xFF))
            elif f[0] == 'elem' and f[1][0] == 'const' and isinstance(f[1][2], int) and f[2][0] == 'call' and \
                    f[2][1].startswith('core::num::<impl u') and f[2][1].endswith('>::to_be_bytes') and len(f[2][2]) == 1:
                width = {'u16': 2, 'u32': 4, 'u64': 8, 'u8': 1}.get(f[2][1][len('core::num::<impl '):].split('>')[0])
                if width is None or f[1][2] >= width:
                    return None
                out.append(('be', strip_sites(f[2][2][0]), f[1][2], width))
            else:
                return None
        return out
    if t[0] == 'call' and t[1].startswith('core::num::<impl u') and t[1].endswith('>::to_be_bytes') and len(t[2]) == 1:
        width = {'u16': 2, 'u32': 4, 'u64': 8, 'u8': 1}.get(t[1][len('core::num::<impl '):].split('>')[0])
        return [('be', strip_sites(t[2][0]), k, width) for k in range(width)] if width else None
    if t[0] == 'mem' and not t[4]:
        cur = symbolic_bytes(t[2], enc_keys, a)
        if cur is None:
            return None
        writers = t[3]
        if len(writers) == 1 and a is not None:
            un = _unroll_literal_loop(a, writers[0])
            if un is not None:
                writers = un
        for site, wpath, desc, dom in writers:
            if not dom or desc[0] != 'call' or len(wpath) != 1 or wpath[0][0] != 'slice':
                return None
            lo, hi = wpath[0][1], wpath[0][2]
            lo_v = lo[2] if lo and lo[0] == 'const' else (0 if lo is None else None)
            hi_v = hi[2] if hi and hi[0] == 'const' else (len(cur) if hi is None else None)
            if lo_v is None or hi_v is None or not (0 <= lo_v < hi_v <= len(cur)):
                return None
            n = hi_v - lo_v
            info = desc[4]
            if info and info[3] and len(desc[2]) == 2:
                # a local encoder (verified separately by check_be_encoder for this width)
                if enc_keys is not None:
                    enc_keys.add(info[3])
                val = strip_sites(desc[2][1])
                for k in range(n):
                    cur[lo_v + k] = ('be', val, k, n)
            elif desc[1].endswith('copy_from_slice') and len(desc[2]) == 2:
                sref = desc[2][1]
                sval = a.deref_val(sref, site) if (a is not None and sref[0] == 'addr' and sref[1][0] == 'local') else unref(sref)
                src = symbolic_bytes(sval, enc_keys, a)
                if src is None or len(src) != n:
                    return None
                cur[lo_v:hi_v] = src
            else:
                return None
        return cur
    return None


def _unroll_literal_loop(a, w):
    """one writer inside `for (i, x) in [e0, e1, …].iter().enumerate() { write(&mut buf[f(i)..g(i)], *x) }`: the writer once per
    element, with the position and the element substituted and the range folded; None if the shape is another one"""
    from .aeadctx import _payload_path, _iter_layout
    from .common import literal_array_of
    from ..prov import fold_bin
    site, wpath, desc, dom = w
    if desc[0] not in ('call', 'call?') or len(wpath) != 1 or wpath[0][0] != 'slice':
        return None
    found = []

    def scan(x):
        if isinstance(x, tuple) and x:
            if x[0] == 'field':
                pth, nx = _payload_path(x)
                if nx is not None:
                    found.append((pth, nx))
                    return
            for y in x:
                scan(y)
    scan(wpath)
    scan(desc[2])
    if not found or len({nx[3] for _, nx in found}) != 1:
        return None
    nx = found[0][1]
    lay = _iter_layout(a, nx)
    if lay is None or lay[0] != {('0',): ('index',), ('1',): ('elem', lay[1][0])} or len(lay[1]) != 1:
        return None
    arr, _ = literal_array_of(a, lay[1][0], a.term_point(nx[3]))
    if arr is None:
        return None
    elems = list(arr[3])
    # a plain `for`: one loop, whose only branch is the one on next(); the writer runs in every iteration
    lb = _loop_blocks(a)
    nsw = len([b2 for b2 in lb if a.body.blocks[b2]['term']['k'] == 'switch' and not a.body.blocks[b2]['cleanup']])
    backs = a.cfg.back_edges()
    if site[0] not in lb or nsw != 1 or len(backs) != 1 or not a.cfg.dominates(site[0], backs[0][0]):
        return None

    def sub(x, k):
        if not isinstance(x, tuple) or not x:
            return x
        if x[0] == 'load' and not x[2] and x[1][0] == 'field':
            pth, n2 = _payload_path(x[1])
            if n2 is not None and n2[3] == nx[3] and pth == ('1',):
                return elems[k]
        if x[0] == 'field':
            pth, n2 = _payload_path(x)
            if n2 is not None and n2[3] == nx[3] and pth == ('0',):
                return ('const', 'usize', k)
        new = tuple(sub(y, k) for y in x)
        if new[0] == 'bin' and len(new) == 4 and isinstance(new[2], tuple) and isinstance(new[3], tuple):
            return fold_bin(new[1], new[2], new[3])
        return new
    out = []
    for k in range(len(elems)):
        wp = tuple(sub(e, k) for e in wpath)
        d = (('call',) + desc[1:2] + (tuple(sub(x, k) for x in desc[2]),) + desc[3:])
        out.append((site, wp, d, True))
    return out


# ---------------------------------------------------------------------- R02.4
def _loop_blocks(a):
    """blocks that lie on a cycle of the normal-path CFG"""
    out = set()
    for (x, y) in a.cfg.back_edges():
        # natural loop of the back edge x -> y
        body = {y, x}
        st = [x]
        while st:
            n = st.pop()
            for p in a.cfg.pred[n] if hasattr(a.cfg, 'pred') else []:
                if p not in body:
                    body.add(p)
                    st.append(p)
        out |= body
    return out


def check_labeled_extract(rep, facts, rule='R02.4'):
    a = get_an(facts, EXTRACT)
    if a is None:
        rep.anchor_lost(rule, EXTRACT, 'LabeledExtract', 'not found')
        return
    fn = EXTRACT
    rt = a.ret_val()
    ok = False
    found = pp(rt)[:400]
    if rt[0] == 'call' and rt[1] == 'hkdf::HkdfExtract::finalize' and rt[2][0][0] == 'mem':
        m = rt[2][0]
        init = m[2]
        ws = m[3]
        salt_ok = init[0] == 'call' and init[1] == 'hkdf::HkdfExtract::new' and init[2][0][0] == 'agg' and \
            init[2][0][2] == 'core::option::Option::Some' and init[2][0][3] == (('param', 1),)
        rep.check(salt_ok, rule, fn, 'extract-salt', pp(init), 'HkdfExtract::new(Some(salt))', where(a))
        seq = []
        for w in ws:
            d = w[2]
            if d[0] == 'call' and d[1] == 'hkdf::HkdfExtract::input_ikm' and w[3] and not w[1]:
                seq.append(d[2][1])
            elif d[0] in ('call', 'call?') and d[1] == 'hkdf::HkdfExtract::input_ikm' and len(ws) == 1:
                # one absorbing call inside a loop over an array literal: the pieces are the literal's elements, in order
                from .common import literal_iteration
                elems = literal_iteration(a, d[2][1])
                lb = _loop_blocks(a)
                # a plain `for`: the only branch inside the loop is the one on next() (no break / continue / condition)
                nsw = len([b2 for b2 in lb if a.body.blocks[b2]['term']['k'] == 'switch' and not a.body.blocks[b2]['cleanup']])
                if elems is not None and w[0][0] in lb and nsw == 1 and len(a.cfg.back_edges()) == 1:
                    seq.extend(strip_sites(e) for e in elems)
                else:
                    seq.append(('unknown', 'writer'))
            else:
                seq.append(('unknown', 'writer'))
        want = [rfc.VERSION_LABEL, ('param', 2), ('param', 3), ('param', 4)]
        got_ok = len(seq) == 4 and bytes_of(seq[0]) == want[0] and seq[1:] == want[1:]
        rep.check(got_ok, rule, fn, 'labeled-ikm-order', [pp(x) for x in seq],
                  'input_ikm("HPKE-v1"), input_ikm(suite_id), input_ikm(label), input_ikm(ikm) — in this order on the same object', where(a))
        hty = init[4][4] if init[0] == 'call' and init[4] else ()
        rep.check(bool(hty) and hty[0] == '<Kdf as kdf::Kdf>::HashImpl', rule, fn, 'extract-hash', hty[:1], 'HKDF over the KDF\'s hash', where(a))
        ok = True
    if not ok:
        rep.undecided(rule, fn, 'shape', found, 'HkdfExtract::new(Some(salt)) + 4 input_ikm + finalize', where(a))


def find_labeled_expand(facts):
    bs = impl_bodies(facts, EXPAND_TRAIT, 'labeled_expand')
    return [b for b in bs if not b.default_of]


def _kdf_nh(facts, im):
    ht = im['types'].get('HashImpl', {}).get('ty', '')
    for k2, v2 in facts.derived.get(ht, {}).items():
        if k2.endswith('OutputSizeUser::OutputSize'):
            return v2.get('usize')
    return None


def check_labeled_expand(rep, facts, rule='R02.4'):
    bs = find_labeled_expand(facts)
    if not rep.floor(rule, 'LabeledExpand impls', len(bs), 1):
        return
    for b in bs:
        a = get_an(facts, b.key)
        fn = b.key
        ex = a.calls(lambda c: c['name'] in ('expand_multi_info', 'expand') and c['crate'] == 'hkdf')
        if len(ex) != 1 or ex[0][2]['name'] != 'expand_multi_info':
            rep.undecided(rule, fn, 'expand-call', [c['path'] for _, _, c in ex], 'one hkdf expand_multi_info call', where(a))
            continue
        bi = ex[0][0]
        p = a.term_point(bi)
        prk, infos, out = a.arg_val(bi, 0), a.arg_val(bi, 1), a.arg_val(bi, 2)
        rep.check(prk == ('param', 1), rule, fn, 'expand-prk', pp(prk), 'expand on self (the PRK context)', where(a, p))
        rep.check(out == ('param', 5), rule, fn, 'expand-out', pp(out), 'output written to the caller\'s buffer (length L)', where(a, p))
        comp = unref(infos)
        okc = False
        if comp[0] == 'agg' and comp[1] == 'array' and len(comp[3]) == 5:
            c0, c1, c2, c3, c4 = comp[3]
            lenbuf = a.deref_val(c0, p)
            len_ok = False
            if lenbuf[0] == 'mem' and len(lenbuf[3]) == 1 and lenbuf[3][0][3]:
                w = lenbuf[3][0][2]
                init = lenbuf[2]
                if w[0] == 'call' and not lenbuf[3][0][1] and bytes_of(init) == b'\x00\x00':
                    v = w[2][1]
                    len_ok = v == ('cast', 'IntToInt', 'u16', ('len', ('param', 5))) and w[4] and w[4][3] is not None
                    if len_ok:
                        len_ok = check_be_encoder(rep, facts, w[4][3], 2, 'R02.3')
            if not len_ok and lenbuf[0] == 'call' and lenbuf[1] == 'core::num::<impl u16>::to_be_bytes' and \
                    lenbuf[2] == (('cast', 'IntToInt', 'u16', ('len', ('param', 5))),):
                len_ok = True          # the core library's big-endian encoding of the same value
            rep.check(len_ok, rule, fn, 'length-prefix', pp(lenbuf)[:200], 'I2OSP(L, 2): out.len() as u16 through the verified big-endian encoder (or u16::to_be_bytes)', where(a, p))
            okc = bytes_of(c1) == rfc.VERSION_LABEL and (c2, c3, c4) == (('param', 2), ('param', 3), ('param', 4))
        rep.check(okc, rule, fn, 'labeled-info-order', pp(comp)[:300],
                  '[I2OSP(L,2), "HPKE-v1", suite_id, label, info] — five components in this order', where(a, p))
        # result propagated unchanged; other returns are errors only
        for s, t in a.return_terms():
            if t[0] == 'call' and t[3] == bi:
                rep.ok(rule, fn, 'result-propagated', 'expand_multi_info result returned unchanged')
            elif t[0] == 'agg' and t[2] == 'core::result::Result::Err':
                # the redundant early u16 guard: recorded, not demanded
                rep.note('%s: early Err return %s (agrees with HKDF\'s own bound since 255*Nh <= 65535)' % (fn, pp(t)))
            else:
                rep.bad(rule, fn, 'return', pp(t)[:160], 'only the HKDF result or an error is returned', where(a, s))
        # an early length guard may only turn down lengths HKDF itself turns down for *every* KDF: each L <= 255*Nh
        # (Nh over all Kdf impls, and the values next to every constant the guard compares with) must reach the expand call
        nhs = sorted(set(x for x in (_kdf_nh(facts, im) for im in facts.impls_of('kdf::Kdf')) if x))
        try:
            ks = booldec.len_thresholds(a)
            legal_max = 255 * max(nhs) if nhs else 0
            reps = sorted(set([0, 1] + [255 * n for n in nhs] + [255 * n - 1 for n in nhs] +
                              [k + d for k in ks for d in (-1, 0, 1) if 0 <= k + d <= legal_max]))
            _, rows = booldec.len_grid_table(a, [5], reps=reps)
            early = [env[5] for env, rt, site in rows if not (rt[0] == 'call' and len(rt) > 3 and rt[3] == bi)]
            rep.check(not early and bool(nhs), rule, fn, 'early-guard',
                      'output lengths (of %s simulated, all <= 255*Nh_max = %d) that do not reach HKDF-Expand: %s' % (reps, legal_max, early or 'none'),
                      'every legal length L <= 255*Nh reaches HKDF-Expand (an early guard only rejects what HKDF rejects)', where(a))
        except booldec.Undecidable as e:
            rep.undecided(rule, fn, 'early-guard', str(e), 'branches before the expand call compare out.len() with constants', where(a))


# ---------------------------------------------------------------------- R02.5 key schedule
class KeySchedule:
    """terms of the key-schedule function (found by role: the local fn that returns AeadCtx and calls labeled_extract)"""

    def __init__(self, facts):
        self.facts = facts
        self.a = None
        cands = []
        for a in all_ans(facts):
            b = a.body
            if b.sig and b.sig['output'].startswith('aead::AeadCtx<') and a.calls(lambda c: c.get('key') == EXTRACT):
                cands.append(a)
        self.cands = cands
        if len(cands) == 1:
            self.a = cands[0]
            self._collect()

    def _collect(self):
        a = self.a
        self.extracts = {}      # label -> (bi, [salt, suite, label, ikm] terms, kdf generic)
        for bi, t, c in a.calls(lambda c: c.get('key') == EXTRACT):
            args = [a.arg_val(bi, i) for i in range(4)]
            lab = bytes_of(args[2])
            self.extracts[lab] = (bi, args, tuple(c.get('generic_args', ())))
        self.expands = {}       # label -> (bi, [prk, suite, label, info, out])
        for bi, t, c in a.calls(lambda c: c.get('trait') == EXPAND_TRAIT and c['name'] == 'labeled_expand'):
            args = [a.arg_val(bi, i) for i in range(5)]
            self.expands[bytes_of(args[2])] = (bi, args)
        self.ctor = a.calls(lambda c: c.get('local') and c['def_kind'] == 'AssocFn' and (c.get('impl_self_ty') or '').startswith('aead::AeadCtx<'))


def check_key_schedule(rep, facts, rule='R02.5'):
    ks = KeySchedule(facts)
    if ks.a is None:
        rep.anchor_lost(rule, 'key schedule function', 'exactly one local fn returning AeadCtx that calls labeled_extract', '%d candidates' % len(ks.cands))
        return None
    a = ks.a
    fn = a.body.key

    def suite_ok(t, p):
        v = a.deref_val(t, p)
        return v[0] == 'call' and v[1] == 'util::full_suite_id' and v[4] and v[4][4] == ('A', 'Kdf', 'Kem')
    # extracts
    for lab, want_salt, want_ikm, desc in (
            (rfc.L_PSK_ID_HASH, 'empty', ('call', 'op_mode::OpMode::get_psk_id', (('param', 1),)), 'LabeledExtract("", "psk_id_hash", psk_id)'),
            (rfc.L_INFO_HASH, 'empty', ('param', 3), 'LabeledExtract("", "info_hash", info)'),
            (rfc.L_SECRET, 'shared_secret', ('call', 'op_mode::OpMode::get_psk_bytes', (('param', 1),)), 'LabeledExtract(shared_secret, "secret", psk)')):
        if lab not in ks.extracts:
            rep.bad(rule, fn, 'extract:%s' % lab.decode(), 'labels present: %s' % sorted(x.decode() if x else '?' for x in ks.extracts), desc, where(a))
            continue
        bi, args, gen = ks.extracts[lab]
        p = a.term_point(bi)
        salt = args[0]
        if want_salt == 'empty':
            oks = bytes_of(salt) == b''
        else:
            oks = salt[:3] == ('addr', ('local', 2), (('f', '0'),)) or pp(salt) in ('&_2.0',)
        ikm = strip_sites(args[3])
        okk = ikm == want_ikm
        rep.check(oks and okk and suite_ok(args[1], p) and gen == ('Kdf',), rule, fn, 'extract:%s' % lab.decode(),
                  'labeled_extract::<%s>(salt=%s, suite=%s, ikm=%s)' % (','.join(gen), pp(salt), pp(a.deref_val(args[1], p))[:60], pp(args[3])),
                  desc + ' with the full suite id and the suite\'s KDF', where(a, p))
    # key_schedule_context
    ctx_terms = {}
    for lab, (bi, args) in ks.expands.items():
        ctx_terms[lab] = (bi, args)
    sched = None
    for lab, field, what in ((rfc.L_KEY, 'key', 'AeadKey'), (rfc.L_BASE_NONCE, 'base_nonce', 'AeadNonce'), (rfc.L_EXP, 'exporter_secret', 'ExporterSecret')):
        if lab not in ks.expands:
            rep.bad(rule, fn, 'expand:%s' % lab.decode(), 'labels present: %s' % sorted(x.decode() if x else '?' for x in ks.expands),
                    'LabeledExpand(secret, "%s", key_schedule_context, N)' % lab.decode(), where(a))
            continue
        bi, args = ks.expands[lab]
        p = a.term_point(bi)
        prk = a.deref_val(args[0], p)
        sec = ks.extracts.get(rfc.L_SECRET)
        okprk = sec is not None and prk[0] == 'field' and prk[1] == '1' and prk[2][0] == 'call' and prk[2][3] == sec[0]
        out = args[4]
        okout = out[0] == 'addr' and out[1][0] == 'local' and out[2] == (('f', '0'),) and a.body.local_ty(out[1][1]).startswith({'AeadKey': 'aead::AeadKey<', 'AeadNonce': 'aead::AeadNonce<', 'ExporterSecret': 'setup::ExporterSecret<'}[what])
        pieces, helper, N = concat_pieces(a, args[3], p)
        okctx = False
        shown = 'not a concatenation buffer: %s' % helper if pieces is None else ''
        if pieces is not None:
            vals = [strip_sites(unref(a.deref_val(pr, site))) for pr, site in pieces]
            shown = ' || '.join(pp(v)[:70] for v in vals)
            if len(vals) == 3:
                m, h1, h2 = vals
                okm = m[0] == 'agg' and m[1] == 'array' and len(m[3]) == 1 and m[3][0] == ('call', 'op_mode::OpMode::mode_id', (('param', 1),))
                e1 = ks.extracts.get(rfc.L_PSK_ID_HASH)
                e2 = ks.extracts.get(rfc.L_INFO_HASH)

                def is_hash(v, e):
                    return e is not None and v[0] == 'field' and v[1] == '0' and v[2][0] == 'call' and v[2][1] == EXTRACT and \
                        bytes_of(v[2][2][2]) == bytes_of(e[1][2])
                okctx = okm and is_hash(h1, e1) and is_hash(h2, e2)
            sched = (pieces, helper)
        rep.check(okprk and okout and okctx and suite_ok(args[1], p), rule, fn, 'expand:%s' % lab.decode(),
                  'prk=%s ; info=%s ; out=%s' % (pp(prk)[:60], shown, pp(out)),
                  'LabeledExpand(secret, "%s", mode || psk_id_hash || info_hash, whole %s buffer) with the full suite id' % (lab.decode(), what), where(a, p))
    if sched and sched[1]:
        check_append_helper(rep, facts, sched[1], 'R02.5')
    # constructor call and constructor body
    if len(ks.ctor) != 1:
        rep.bad(rule, fn, 'constructor-call', '%d AeadCtx constructor call(s)' % len(ks.ctor), 'exactly one', where(a))
        return ks
    cbi, ct, cc = ks.ctor[0]
    p = a.term_point(cbi)
    cargs = [a.arg_val(cbi, i) for i in range(len(ct['args']))]

    def written_by(v, lab):
        return v[0] == 'mem' and len(v[3]) == 1 and v[3][0][3] and v[3][0][2][0] == 'call' and lab in ks.expands and v[3][0][0] == a.term_point(ks.expands[lab][0]) \
            and is_zero_init(facts, v[2])
    kv = a.deref_val(cargs[0], p) if cargs else ('unknown', '')
    okk = written_by(kv, rfc.L_KEY)
    okn = len(cargs) > 1 and written_by(cargs[1], rfc.L_BASE_NONCE)
    oke = len(cargs) > 2 and written_by(cargs[2], rfc.L_EXP)
    rep.check(okk and okn and oke, rule, fn, 'constructor-args', 'new(&key: %s, base_nonce: %s, exporter_secret: %s)' % (okk, okn, oke),
              'the context is built from exactly the three expanded buffers (zero-initialised, each written once)', where(a, p))
    rt = a.ret_val()
    rep.check(rt[0] == 'call' and rt[3] == cbi, rule, fn, 'returns-context', pp(rt)[:120], 'the constructed context is returned unchanged', where(a))
    ckey = (cc.get('resolved') or {}).get('key') or cc.get('key')
    ca = get_an(facts, ckey)
    if ca is None:
        rep.anchor_lost(rule, 'AeadCtx constructor body', ckey, 'not found')
        return ks
    for s, st in aggregates_of(ca, 'aead::AeadCtx'):
        v = ca.val_rv(st['rv'], s)
        f = dict(zip(v[4], v[3]))
        enc = f.get('encryptor', ('unknown', ''))
        okenc = enc[0] == 'call' and enc[1].endswith('KeyInit::new') and pp(enc[2][0]) == '&*p1.0' and enc[4] and enc[4][2] == '<A as aead::Aead>::AeadImpl'
        rep.check(okenc, rule, ckey, 'ctor:encryptor', pp(enc)[:120], 'encryptor = <A::AeadImpl as KeyInit>::new(&key.0)', where(ca, s))
        rep.check(f.get('base_nonce') == ('param', 2), rule, ckey, 'ctor:base_nonce', pp(f.get('base_nonce', ('unknown', ''))), 'base_nonce parameter', where(ca, s))
        rep.check(f.get('exporter_secret') == ('param', 3), rule, ckey, 'ctor:exporter_secret', pp(f.get('exporter_secret', ('unknown', ''))), 'exporter_secret parameter', where(ca, s))
        sid = f.get('suite_id', ('unknown', ''))
        rep.check(sid[0] == 'call' and sid[1] == 'util::full_suite_id' and sid[4] and sid[4][4] == ('A', 'Kdf', 'Kem'), rule, ckey, 'ctor:suite_id', pp(sid)[:100],
                  'suite_id = full_suite_id::<A, Kdf, Kem>()', where(ca, s))
        rep.check(is_zero_init(facts, f.get('seq', ('unknown', ''))), rule, ckey, 'ctor:seq', pp(f.get('seq', ('unknown', ''))), 'seq = 0', where(ca, s))
        rep.check(f.get('overflowed') == ('const', 'bool', False), rule, ckey, 'ctor:overflowed', pp(f.get('overflowed', ('unknown', ''))), 'overflowed = false', where(ca, s))
    return ks


def check_export(rep, facts, rule='R11.1'):
    """Export = LabeledExpand(exporter_secret, "sec", exporter_context, L)"""
    n = 0
    for a in all_ans(facts):
        b = a.body
        if not (b.impl_of and b.impl_of.get('name') == 'export' and b.impl_of['self_ty'].startswith('aead::AeadCtx<')):
            continue
        n += 1
        fn = b.key
        ex = a.calls(lambda c: c.get('trait') == EXPAND_TRAIT and c['name'] == 'labeled_expand')
        if len(ex) != 1:
            rep.bad(rule, fn, 'expand-call', '%d labeled_expand call(s)' % len(ex), 'exactly one', where(a))
            continue
        bi = ex[0][0]
        p = a.term_point(bi)
        args = [a.arg_val(bi, i) for i in range(5)]
        prk = a.deref_val(args[0], p)
        okprk = False
        if prk[0] == 'call' and prk[1] in ('core::result::Result::unwrap', 'core::result::Result::expect'):
            fp = prk[2][0]
            okprk = fp[0] == 'call' and fp[1] == 'hkdf::Hkdf::from_prk' and pp(fp[2][0]) == '&*p1.exporter_secret.0' and \
                fp[4] and fp[4][4][:1] == ('<Kdf as kdf::Kdf>::HashImpl',)
        rep.check(okprk, rule, fn, 'prk', pp(prk)[:160], 'Hkdf::<Kdf::HashImpl>::from_prk(self.exporter_secret.0) — the whole exporter secret as PRK', where(a, p))
        rep.check(pp(args[1]) == '&*p1.suite_id', rule, fn, 'suite', pp(args[1]), 'self.suite_id', where(a, p))
        rep.check(bytes_of(args[2]) == rfc.L_SEC, rule, fn, 'label', pp(args[2]), 'label "sec"', where(a, p))
        rep.check(args[3] == ('param', 2) and args[4] == ('param', 3), rule, fn, 'ctx-and-out', '%s, %s' % (pp(args[3]), pp(args[4])),
                  'exporter_context and the output buffer are the caller\'s parameters, unmodified', where(a, p))
    return n


def run(ctx):
    rep, facts = ctx.rep, ctx.facts
    feats = facts.meta.get('features', [])
    nk = len([f for f in ('x25519', 'p256', 'p384', 'p521') if f in feats])
    n = check_tables(rep, facts)
    rep.floor('R02.1', 'Aead + Kdf + Kem impls', n, 4 + 3 + nk)
    check_suite_ids(rep, facts)
    for k, nb in (('util::write_u16_be', 2), ('util::write_u64_be', 8)):
        if get_an(facts, k) is not None:
            check_be_encoder(rep, facts, k, nb, 'R02.3')
    check_labeled_extract(rep, facts)
    check_labeled_expand(rep, facts)
    check_key_schedule(rep, facts)
    from .common import check_suite_parametric
    check_suite_parametric(rep, facts, 'R02.9', floor=30)
    # R02.10: "the ephemeral key pair is DeriveKeyPair of the Nsk random bytes": the derivation itself is RFC 9180 §7.1.3 for
    # every enabled group (labels, candidate loop with counter, bitmask, range check by the validating parser, pk = pk(sk))
    from . import c03
    nd = 0
    for kid, spec in sorted(rfc.KEMS.items()):
        if spec['feature'] not in feats:
            continue
        dhx = None
        for im in facts.impls_of('dhkex::DhKeyExchange'):
            if im['self_ty'].startswith(spec['dh_mod'] + '::'):
                dhx = im['self_ty']
        if dhx is None:
            rep.anchor_lost('R02.10', 'DhKeyExchange impl of ' + spec['name'], spec['dh_mod'], 'not found')
            continue
        nd += 1
        if spec['nist']:
            c03.check_nist_derive(rep, facts, spec, dhx, rule='R02.10')
        else:
            c03.check_x25519_derive(rep, facts, dhx, rule='R02.10')
    rep.floor('R02.10', 'DeriveKeyPair implementations', nd, nk)
    n6 = modes.check_opmode_impls(rep, facts, 'R02.6')
    rep.floor('R02.6', 'OpMode accessor impls', n6, 6)
    # R02.7 ephemeral key
    n7 = c18.fresh_ephemeral(rep, facts, rule='R02.7')
    rep.floor('R02.7', 'Kem::encap impls', n7, nk)
    # R02.8 nonce / seal / open / export wiring
    for method, role in (('encrypt_in_place_detached', 'seal'), ('decrypt_in_place_detached', 'open')):
        for a, bi, t, c in aead_sites(facts, method):
            si = SiteInfo(facts, a, bi, t, method)
            nonce = si.args[1]
            nv = a.deref_val(nonce, si.point)
            hv = nv[2] if nv[0] == 'field' and nv[1] == '0' else nv
            ok = hv[0] == 'call' and hv[4] and hv[4][3] and len(hv[2]) == 2 and pp(hv[2][0]) == '&*p1.0.base_nonce' and pp(hv[2][1]) == '&*p1.0.seq'
            rep.check(ok, 'R02.8', si.key, 'compute-nonce', pp(hv)[:120], 'nonce = ComputeNonce(self.base_nonce, self.seq)', where(a, si.point))
            if ok and role == 'seal':
                c04.check_nonce_helper(rep, facts, hv[4][3], 1, 2, 'R02.8')
    n8 = check_export(rep, facts, rule='R02.8')
    rep.floor('R02.8', 'export bodies', n8, 1)
    rep.bodies_analysed = len(facts.body_list)
