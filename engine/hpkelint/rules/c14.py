"""C14 — single-shot and allocating forms are wrappers (DESIGN §5 C14: R14.1, R14.2)."""
from ..prov import get_an, pp, walk
from .common import all_ans, ret_classes, where, switch_edge
from .aeadctx import aead_sites, SiteInfo

EXPLANATION = (
    'Static analysis of MIR (all cargo features). R14.1: each single_shot_* function is proved to be a pure '
    'pass-through composition: exactly one call of setup_sender/setup_receiver whose arguments are the function\'s own '
    'leading parameters in order (plus the RNG), `?` with the identity conversion, exactly one call of the context '
    'method with the same name suffix on the fresh context whose arguments are the remaining parameters in order, the '
    'result returned unchanged (Ok tuple / tail value), errors propagated unchanged, no other effectful call. '
    'R14.2: the allocating seal = copy of the plaintext + in-place seal on buf[..len] + tag appended at [len..len+Nt); '
    'the allocating open = split at len-Nt + in-place open on the copy of the first part with the tag copied from the '
    'second part, result = that buffer. Given R14.1/R14.2 equivalence with the composed calls follows for all inputs '
    'because the composed functions are functions of their arguments (C18). R14.3: every single-shot, setup and context '
    'body generic over A/Kdf/Kem mentions no concrete Aead/Kdf/Kem implementor (a block-level `type Kdf = …` alias would '
    'silently re-instantiate the unchanged setup call with another suite). R14.4: the two opening entry points agree on '
    'their first check (exhausted context refused before the AEAD is touched), so they refuse alike for the same split. Not decided: nothing behavioural beyond '
    'that composition argument.')
TRUSTED = ['rustc MIR construction', 'core::ops::Try / FromResidual for Result (identity From<T> for T)',
           'alloc::vec::from_elem / slice::to_vec / copy_from_slice / split_at semantics']
ASSUME = ['the composed operations are deterministic functions of their arguments and the RNG (C18)']

SETUPS = {'setup::setup_sender': 'sender', 'setup::setup_receiver': 'receiver'}
NOISE = {'branch', 'from_residual'}


def single_shot_bodies(facts):
    out = []
    for a in all_ans(facts):
        if a.body.kind != 'Fn' or not a.body.raw.get('exported'):
            continue
        cs = [(bi, t, c) for bi, t, c in a.calls() if c and (c.get('key') in SETUPS or (c.get('resolved') or {}).get('key') in SETUPS)]
        if cs and a.body.key not in SETUPS:
            out.append((a, cs))
    return out


def delegating_single_shots(facts, ss):
    """exported single_shot_* functions that do not call a setup themselves but hand over to another single-shot function"""
    direct = {a.body.key for a, _ in ss}
    out = []
    for a in all_ans(facts):
        if a.body.kind != 'Fn' or not a.body.raw.get('exported') or a.body.key in direct or a.body.key in SETUPS:
            continue
        if not a.body.key.rsplit('::', 1)[-1].startswith('single_shot_'):
            continue
        cs = [(bi, t, c) for bi, t, c in a.calls() if c and (c.get('key') in direct or (c.get('resolved') or {}).get('key') in direct)]
        if cs:
            out.append((a, cs))
    return out


def check_delegating_single_shot(rep, facts, a, delegs, rule='R14.1'):
    """single_shot_X written on top of another single-shot function: it is the composition `setup; ctx.X` only if nothing
    can fail (or return) before the delegate runs its setup — otherwise the order of errors differs from the composed calls —
    and if the delegate receives the function's own leading parameters"""
    fn = a.body.key
    if len(delegs) != 1:
        rep.bad(rule, fn, 'one-delegate', '%d single-shot call(s)' % len(delegs), 'exactly one', where(a))
        return
    dbi, dt, dc = delegs[0]
    dargs = [a.arg_val(dbi, i) for i in range(len(dt['args']))]
    # leading parameters (mode, key, encapped key / info …) pass straight through
    lead = 0
    while lead < len(dargs) and dargs[lead] == ('param', lead + 1):
        lead += 1
    rep.check(lead >= 3, rule, fn, 'delegate-args', '%s(%s)' % (dc['name'], ', '.join(pp(x)[:40] for x in dargs)),
              'mode, keys and info handed to the delegate unchanged and in order', where(a, a.term_point(dbi)))
    early = []
    for s_, t, cls in ret_classes(a, facts):
        if isinstance(cls, tuple) and cls[0] == 'err':
            ident = t[0] == 'from_residual' and t[1][0] == 'residual' and t[1][1][0] == 'call' and t[1][1][3] == dbi
            if not ident:
                early.append((s_, t))
    for s_, t in early:
        rep.bad(rule, fn, 'error-precedence', pp(t)[:200],
                'no error can be returned except the delegate\'s own: the composed form `setup; ctx.method` reports setup errors '
                '(DecapError/EncapError) before anything about the message', where(a, s_))
    if not early:
        rep.ok(rule, fn, 'error-precedence', 'every Err return is the delegate\'s error, unchanged')
    # what is handed over and returned is not modelled for this shape: say so instead of guessing
    rep.undecided(rule, fn, 'delegation-result', 'single-shot function layered on %s' % dc['name'],
                  'a direct `setup; ctx.method` wrapper (the byte-level equivalence of a layered wrapper is not decided)', where(a, a.term_point(dbi)))


def check_single_shot(rep, facts, a, setups, rule='R14.1', integrity_only=False):
    """integrity_only (C06): extra Err returns and extra calls that receive no mutable borrow cannot release or alter
    plaintext — they change *which* error is returned, which is C14's business, not C06's"""
    fn = a.body.key
    name = fn.rsplit('::', 1)[-1]
    n = a.body.arg_count
    if len(setups) != 1:
        rep.bad(rule, fn, 'one-setup', '%d setup call(s)' % len(setups), 'exactly one setup call', where(a))
        return
    sbi, st, sc = setups[0]
    skey = sc.get('key') if sc.get('key') in SETUPS else sc['resolved']['key']
    role = SETUPS[skey]
    sargs = [a.arg_val(sbi, i) for i in range(len(st['args']))]
    k = len(sargs)
    if role == 'sender':
        want_setup = [('param', i) for i in range(1, k)] + [('param', n)]
        rest = list(range(k, n))
    else:
        want_setup = [('param', i) for i in range(1, k + 1)]
        rest = list(range(k + 1, n + 1))
    rep.check(sargs == want_setup, rule, fn, 'setup-args', '%s(%s)' % (skey, ', '.join(pp(x) for x in sargs)),
              'setup called with the function\'s own leading parameters in order%s: (%s)' % (
                  ' and the RNG (last parameter)' if role == 'sender' else '', ', '.join(pp(x) for x in want_setup)),
              where(a, a.term_point(sbi)))
    # the context method
    want_method = name[len('single_shot_'):] if name.startswith('single_shot_') else None
    others = []
    method = None
    for bi, t, c in a.calls():
        if bi == sbi or c is None or c['name'] in NOISE:
            continue
        st_self = c.get('impl_self_ty') or ''
        if st_self.startswith('aead::AeadCtxS<') or st_self.startswith('aead::AeadCtxR<'):
            if method is None:
                method = (bi, t, c)
                continue
        if integrity_only:
            from ..prov import carries_mut
            if not any(carries_mut(x) or 'closure' in x for x in t['arg_tys']):
                continue
        others.append(c['path'])
    rep.check(not others, rule, fn, 'no-other-calls', '%s' % others, 'no call besides setup, the context method and `?` plumbing', where(a))
    if method is None:
        rep.bad(rule, fn, 'ctx-method', 'no context method call', 'one call of the matching context method', where(a))
        return
    mbi, mt, mc = method
    rep.check(want_method is not None and mc['name'] == want_method, rule, fn, 'ctx-method-name', mc['name'],
              'single_shot_X calls the context method X (%s)' % want_method, where(a, a.term_point(mbi)))
    margs = [a.arg_val(mbi, i) for i in range(len(mt['args']))]
    want_m = [('param', i) for i in rest]
    rep.check(margs[1:] == want_m, rule, fn, 'method-args', '%s(ctx, %s)' % (mc['name'], ', '.join(pp(x) for x in margs[1:])),
              'the remaining parameters in order, unmodified: (%s)' % ', '.join(pp(x) for x in want_m), where(a, a.term_point(mbi)))
    # ctx = Ok payload of the setup call (second component for the sender)
    ctxv = a.arg_pointee(mbi, 0)
    setup_call = None
    x = ctxv
    proj = []
    while x[0] == 'field':
        proj.append(x[1])
        x = x[2]
    if x[0] == 'okval' and x[1][0] == 'call' and x[1][3] == sbi:
        setup_call = x[1]
    okctx = setup_call is not None and proj == (['1'] if role == 'sender' else [])
    # memory wrapper: the ctx local is written by the method itself only after this point
    rep.check(okctx, rule, fn, 'fresh-context', pp(ctxv)[:200], 'the context is the Ok payload of that setup call', where(a, a.term_point(mbi)))
    # returns
    for s, t, cls in ret_classes(a, facts):
        if isinstance(cls, tuple) and cls[0] == 'err':
            ident = t[0] == 'from_residual' and t[1][0] == 'residual' and t[1][1][0] == 'call' and t[1][1][3] in (sbi, mbi)
            if integrity_only and not ident:
                continue
            rep.check(ident, rule, fn, 'error-identity:%s' % ('setup' if ident and t[1][1][3] == sbi else 'method'), pp(t)[:200],
                      'errors of setup / the context method propagated by `?` unchanged', where(a, s))
        elif isinstance(cls, tuple) and cls[0] == 'tail':
            rep.check(t[0] == 'call' and t[3] == mbi, rule, fn, 'result-identity', pp(t)[:200],
                      'the context method\'s result returned unchanged', where(a, s))
        elif cls == 'ok':
            payload = t[3][0]
            if role == 'sender':
                good = (payload[0] == 'agg' and payload[1] == 'tuple' and len(payload[3]) == 2
                        and payload[3][0] == ('field', '0', ('okval', setup_call))
                        and payload[3][1][0] == 'okval' and payload[3][1][1][0] == 'call' and payload[3][1][1][3] == mbi)
                exp = 'Ok((encapped key from setup, result of the context method))'
            else:
                good = payload[0] == 'okval' and payload[1][0] == 'call' and payload[1][3] == mbi
                exp = 'Ok(result of the context method)'
            rep.check(good, rule, fn, 'result-identity', pp(t)[:240], exp, where(a, s))
        else:
            rep.undecided(rule, fn, 'return-shape', pp(t)[:200], 'Ok/Err/tail call', where(a, s))


def _writers(v):
    return v[3] if v[0] == 'mem' else ()


def check_seal_alloc(rep, facts, a, inplace_key, rule='R14.2'):
    """seal = copy + in-place seal on buf[..len] + tag appended (also R01.4 / R06.3)"""
    fn = a.body.key
    oks = [(s, t) for s, t, cls in ret_classes(a, facts) if cls == 'ok']
    if len(oks) != 1:
        rep.bad(rule, fn, 'one-ok', '%d Ok returns' % len(oks), 'one Ok return', where(a))
        return
    s, t = oks[0]
    v = t[3][0]
    plen = ('len', ('param', 2))
    if v[0] != 'mem':
        rep.undecided(rule, fn, 'buffer', pp(v)[:200], 'a Vec built from the plaintext and the tag', where(a, s))
        return
    init, ws = v[2], v[3]
    tagsz = None
    ok_init = False
    # alternative idiom: buf = plaintext.to_vec(); tag = seal_in_place(&mut buf); buf.extend_from_slice(&tag.0)
    empty_init = init[0] == 'call' and (init[1].endswith('Vec::with_capacity') or init[1].endswith('Vec::new') or init[1].endswith('Vec::<T>::with_capacity') or init[1].endswith('Vec::<T>::new'))
    if empty_init and len(ws) == 3 and all(w[3] for w in ws) and ws[0][2][0] == 'call' and ws[0][2][1].endswith('::extend_from_slice') and \
            not ws[0][1] and ws[0][2][2][1] == ('param', 2):
        # Vec::with_capacity(n) + extend_from_slice(plaintext) is plaintext.to_vec() (the capacity is not observable)
        init = ('call', 'std::slice::<impl [T]>::to_vec', (('param', 2),))
        ws = ws[1:]
    if init[0] == 'call' and init[1].endswith('::to_vec') and init[2] == (('param', 2),):
        descs = [(w[1], w[2]) for w in ws]
        okalt = len(ws) == 2 and all(w[3] for w in ws)
        if okalt:
            (q1, e1), (q2, e2) = descs
            okalt = e1[0] == 'call' and e1[4] and e1[4][3] == inplace_key and e1[2][0] == ('param', 1) and e1[2][2] == ('param', 3) and \
                not [x for x in (q1 or ()) if x[0] != 'f'] and e2[0] == 'call' and e2[1].endswith('::extend_from_slice') and not q2
            if okalt:
                src = a.deref_val(e2[2][1], ws[1][0])
                x = src[2] if src[0] == 'field' and src[1] == '0' else src
                okalt = x[0] == 'okval' and x[1][0] == 'call' and x[1][4] and x[1][4][3] == inplace_key
        rep.check(okalt, 'R01.4', fn, 'ciphertext-length', pp(v)[:240],
                  'plaintext.to_vec(), sealed in place as a whole, then extended by the returned tag (length = len + Nt, tag last)', where(a, s))
        if okalt:
            rep.ok(rule, fn, 'seal-in-place', 'whole copy of the plaintext sealed in place')
            rep.ok('R06.3', fn, 'tag-appended', 'extend_from_slice(&tag.0) after the in-place seal')
        return
    if init[0] == 'call' and init[1].endswith('vec::from_elem') and init[2][0] == ('const', 'u8', 0):
        ln = init[2][1]
        if ln[0] == 'bin' and ln[1] == 'Add' and ln[2] == plen and ln[3][0] == 'call' and ln[3][1] == 'Serializable::size' \
                and ln[3][4] and (ln[3][4][2] or '').startswith('aead::AeadTag<'):
            ok_init = True
            tagsz = ln[3]
    rep.check(ok_init, 'R01.4', fn, 'ciphertext-length', pp(init)[:200],
              'vec![0; plaintext.len() + AeadTag::size()] (ciphertext = plaintext length + tag length)', where(a, s))
    if not ok_init:
        return
    descs = [(w[1], w[2]) for w in ws if w[3]]
    rep.check(len(descs) == len(ws) == 3, rule, fn, 'three-writers', '%d writer(s), %d on all paths' % (len(ws), len(descs)),
              'copy of the plaintext, in-place seal, tag append — each on every path to Ok', where(a, s))
    if len(descs) != 3:
        return
    (p1, d1), (p2, d2), (p3, d3) = descs

    def tgt_strip(x):
        return tuple(strip_site(e) for e in x) if x is not None else None
    head = (('slice', None, plen),)
    tail = (('slice', plen, ('bin', 'Add', plen, strip_site(tagsz))),)
    c1 = d1[0] == 'call' and d1[1].endswith('copy_from_slice') and tgt_strip(p1) == head and d1[2][1] == ('param', 2)
    rep.check(c1, rule, fn, 'copy-plaintext', '%s <- %s' % (pp(('addr', ('local', v[1]), p1, True)), pp(d1[2][1]) if d1[0] == 'call' else d1[0]),
              'buf[..len] = plaintext', where(a, ws[0][0]))
    c2 = d2[0] == 'call' and d2[4] and d2[4][3] == inplace_key and tgt_strip(p2) == head and d2[2][0] == ('param', 1) and d2[2][2] == ('param', 3)
    rep.check(c2, rule, fn, 'seal-in-place', pp(('call', d2[1], d2[2])) if d2[0] == 'call' else d2[0],
              'self.seal_in_place_detached(&mut buf[..len], aad)', where(a, ws[1][0]))
    c3 = False
    # buf was allocated with exactly len + Nt bytes, so buf[len..] *is* buf[len..len+Nt]
    tail_open = (('slice', plen, None),)
    if d3[0] == 'call' and d3[1].endswith('copy_from_slice') and tgt_strip(p3) in (tail, tail_open):
        src = a.deref_val(d3[2][1], ws[2][0])
        # tag = Ok payload of the in-place seal, field 0
        x = src
        if x[0] == 'field' and x[1] == '0':
            x = x[2]
        c3 = x[0] == 'okval' and x[1][0] == 'call' and x[1][4] and x[1][4][3] == inplace_key
    rep.check(c3, 'R06.3', fn, 'tag-appended', '%s <- %s' % (pp(('addr', ('local', v[1]), p3, True)), pp(d3[2][1]) if d3[0] == 'call' else d3[0]),
              'buf[len..len+Nt] = the tag returned by the in-place seal (tag follows the ciphertext)', where(a, ws[2][0]))


def strip_site(t):
    from ..prov import strip_sites
    return strip_sites(t)


def open_split(a, param=2):
    """where and at which index the allocating open divides its input: one `split_at(k)` of the parameter, or the two
    complementary index expressions `[..k]` / `[k..]`.  -> {'k': term, 'site': block, 'form': str} or None"""
    sps = []
    idxs = []
    for bi, t, c in a.calls():
        if c is None or not t['args']:
            continue
        if a.arg_val(bi, 0) != ('param', param):
            continue
        if c['name'] == 'split_at':
            sps.append(bi)
        elif c['name'] == 'index' and len(t['args']) == 2:
            r = a.arg_val(bi, 1)
            if r[0] == 'agg' and r[2].rsplit('::', 1)[0] in ('core::ops::RangeTo', 'core::ops::RangeFrom', 'core::ops::Range'):
                f = dict(zip(r[4], r[3]))
                end = f.get('end')
                if end is not None and strip_site(end) == ('len', ('param', param)):
                    end = None            # x[k..x.len()] is x[k..]
                idxs.append((bi, f.get('start'), end))
            else:
                idxs.append((bi, 'other', 'other'))
    if len(sps) == 1 and not idxs:
        return {'k': a.arg_val(sps[0], 1), 'site': sps[0], 'form': 'split_at', 'sites': [sps[0]]}
    if not sps and len(idxs) == 2:
        heads = [x for x in idxs if x[1] is None and x[2] not in (None, 'other')]
        tails = [x for x in idxs if x[2] is None and x[1] not in (None, 'other')]
        if len(heads) == 1 and len(tails) == 1 and strip_site(heads[0][2]) == strip_site(tails[0][1]):
            return {'k': heads[0][2], 'site': heads[0][0], 'form': 'index', 'sites': [heads[0][0], tails[0][0]]}
    return None


def check_open_accepts(rep, facts, a, rule='R14.2'):
    """the allocating open rejects up front only inputs for which no (ciphertext, tag) split exists (len < Nt):
    everything else is handed to the in-place open (in particular len == Nt, the sealing of the empty plaintext)"""
    from .common import cmp_guard
    fn = a.body.key
    os_ = open_split(a)
    if os_ is None:
        return
    sbi = os_['site']
    idx = os_['k']
    p = a.term_point(sbi)
    from .common import checked_sub_some
    cs = checked_sub_some(a, facts, idx)
    if cs is not None and cs[0] == ('len', ('param', 2)):
        rep.ok(rule, fn, 'open-accepts-every-split', 'checked_sub: rejected exactly when len < Nt')
        return
    if idx[0] == 'bin' and idx[1] == 'Sub' and idx[2] == ('len', ('param', 2)):
        gs = [cmp_guard(a, b2, idx[2], idx[3]) for b2 in os_['sites']]
        g = {'guards': min(x['guards'] for x in gs), 'lt': any(x['lt'] for x in gs), 'eq': all(x['eq'] for x in gs), 'gt': all(x['gt'] for x in gs)}
        rep.check(g['guards'] >= 1 and not g['lt'] and g['eq'] and g['gt'], rule, fn, 'open-accepts-every-split',
                  'split reachable for len < Nt: %s, len == Nt: %s, len > Nt: %s' % (g['lt'], g['eq'], g['gt']),
                  'open() hands every input with len >= Nt to the in-place open (a tag-only ciphertext is the empty message)', where(a, p))
        return
    rep.undecided(rule, fn, 'open-accepts-every-split', pp(idx)[:160], 'a recognised length guard', where(a, p))


def check_open_alloc(rep, facts, a, inplace_key, rule='R14.2', strict_accept=True):
    """open = split at len-Nt, in-place open on the copy of the head with the tag copied from the tail"""
    fn = a.body.key
    if strict_accept:
        check_open_accepts(rep, facts, a, rule)
    calls = [(bi, t, c) for bi, t, c in a.calls(lambda c: (c.get('resolved') or {}).get('key') == inplace_key or c.get('key') == inplace_key)]
    if len(calls) != 1:
        rep.bad(rule, fn, 'delegation', '%d delegation(s)' % len(calls), 'one call of the in-place open', where(a))
        return
    bi, t, c = calls[0]
    p = a.term_point(bi)
    args = [a.arg_val(bi, i) for i in range(4)]
    bufv = a.deref_val(args[1], p)
    tagv = a.deref_val(args[3], p)
    os_ = open_split(a)
    k = strip_site(os_['k']) if os_ else None
    head = ('addr', ('pointee', ('param', 2)), (('slice', None, k),), False) if os_ else None
    tail = ('addr', ('pointee', ('param', 2)), (('slice', k, None),), False) if os_ else None
    okb = False
    if bufv[0] == 'call' and bufv[1].endswith('::to_vec') and len(bufv[2]) == 1 and os_:
        okb = strip_site(bufv[2][0]) == head and args[1][0] == 'addr' and not [e for e in args[1][2] if e[0] != 'f']
    rep.check(okb, 'R06.2', fn, 'buffer-is-head', pp(bufv)[:200],
              'the whole copy of ciphertext[..len-Nt] (first half of the one split) is handed to the in-place open', where(a, p))
    okt = False
    if tagv[0] == 'mem' and len(tagv[3]) == 1 and tagv[3][0][3] and os_:
        w = tagv[3][0]
        d = w[2]
        if d[0] == 'call' and d[1].endswith('copy_from_slice') and w[1] == (('f', '0'),):
            okt = strip_site(d[2][1]) == tail
    if not okt and os_ and tagv[0] == 'okval' and tagv[1][0] == 'call' and tagv[1][1] == 'Deserializable::from_bytes' and tagv[1][4] and \
            (tagv[1][4][2] or '').startswith('aead::AeadTag<') and strip_site(tagv[1][2][0]) == tail:
        okt = True      # AeadTag::from_bytes = exact-length guard + whole copy (C12 R12.2)
    if not okt and os_ and tagv[0] == 'agg' and tagv[2].startswith('aead::AeadTag::') and len(tagv[3]) == 1:
        x = tagv[3][0]
        if x[0] == 'call' and x[1].endswith('::clone_from_slice') and len(x[2]) == 1 and strip_site(x[2][0]) == tail:
            okt = True      # GenericArray::clone_from_slice: a whole copy, panics unless the lengths agree (C13)
    rep.check(okt, 'R06.2', fn, 'tag-is-tail', pp(tagv)[:240],
              'the tag is a whole copy of ciphertext[len-Nt..] (second half of the same split: the last Nt bytes)', where(a, p))
    rep.check(args[2] == ('param', 3), 'R06.2', fn, 'aad-passthrough', pp(args[2]), 'the aad parameter, unmodified', where(a, p))
    # result = that buffer
    for s, tt, cls in ret_classes(a, facts):
        if cls == 'ok':
            v = tt[3][0]
            good = v[0] == 'mem' and v[2] == bufv and len(v[3]) == 1 and v[3][0][2][0] == 'call' and v[3][0][2][4] and v[3][0][2][4][3] == inplace_key
            rep.check(good, 'R01.4', fn, 'plaintext-is-buffer', pp(v)[:200],
                      'Ok(the buffer the in-place open decrypted): length = ciphertext length - Nt', where(a, s))
    # no other use of the input
    uses = []
    for b2, t2, c2 in a.calls():
        for i in range(len(t2['args'])):
            if a.arg_val(b2, i) == ('param', 2):
                uses.append(c2['name'] if c2 else '?')
    one_split = (sorted(set(uses)) == ['len', 'split_at'] and uses.count('split_at') == 1) or \
        (sorted(set(uses)) == ['index', 'len'] and uses.count('index') == 2 and os_ is not None and os_['form'] == 'index')
    rep.check(one_split, 'R06.2', fn, 'input-uses', '%s' % sorted(uses),
              'the input is only measured and split once (no ignored trailing bytes, no second slice)', where(a))


def run(ctx):
    rep, facts = ctx.rep, ctx.facts
    ss = single_shot_bodies(facts)
    feats = facts.meta.get('features', [])
    alloc = 'alloc' in feats or 'std' in feats
    dl = delegating_single_shots(facts, ss)
    rep.floor('R14.1', 'single-shot functions', len(ss) + len(dl), 4 if alloc else 2)
    for a, setups in ss:
        check_single_shot(rep, facts, a, setups)
    for a, delegs in dl:
        check_delegating_single_shot(rep, facts, a, delegs)
    run_alloc_forms(rep, facts, alloc)
    # R14.4: for the same split the allocating and the in-place open must also *refuse* alike: both refuse an exhausted
    # context before anything else (sibling agreement of the two opening entry points on their first check)
    from . import c05
    from .aeadctx import aead_sites as _sites
    site_keys = {sa.body.key for sa, _, _, _ in _sites(facts, 'decrypt_in_place_detached')}
    checked = set()
    eps = c05.entry_points(facts)
    for a2 in [x for x in eps if x.body.key in site_keys] + [x for x in eps if x.body.key not in site_keys]:
        calls_site = a2.body.key in site_keys or any(((c.get('resolved') or {}).get('key') in site_keys or c.get('key') in site_keys) for _, _, c in a2.calls() if c)
        if calls_site and c05.check_overflow_first(rep, facts, a2, checked, rule='R14.4'):
            checked.add(a2.body.key)
    # R14.3: the composed and the single-shot form run the *same* suite: single-shot and context bodies are parametric
    from .common import check_suite_parametric
    check_suite_parametric(rep, facts, 'R14.3', scope=lambda b: b.key.startswith(('single_shot::', 'setup::', 'aead::AeadCtx')),
                           floor=8, what='single-shot / setup / context bodies generic over the suite')
    rep.bodies_analysed = len(facts.body_list)
    rep.call_sites = sum(len(get_an(facts, b.key).calls()) for b in facts.body_list)


def run_alloc_forms(rep, facts, alloc, strict_accept=True):
    n = 0
    for method, chk in (('encrypt_in_place_detached', check_seal_alloc), ('decrypt_in_place_detached', check_open_alloc)):
        for sa, bi, t, c in aead_sites(facts, method):
            ikey = sa.body.key
            for a in all_ans(facts):
                if a.body.key == ikey or not a.body.impl_of or not sa.body.impl_of or a.body.impl_of.get('self_ty') != sa.body.impl_of.get('self_ty'):
                    continue
                if any(((c2.get('resolved') or {}).get('key') == ikey or c2.get('key') == ikey) for _, _, c2 in a.calls() if c2):
                    n += 1
                    if chk is check_open_alloc:
                        chk(rep, facts, a, ikey, strict_accept=strict_accept)
                    else:
                        chk(rep, facts, a, ikey)
    if alloc:
        rep.floor('R14.2', 'allocating wrappers (seal, open)', n, 2)
    return n
