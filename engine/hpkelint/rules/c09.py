"""C09 — NIST-curve keys are validated (DESIGN §5 C09: R09.1 … R09.5)."""
from ..prov import get_an, pp, walk
from ..tyutil import typenum_usize
from .common import explicit_len_guard, is_incorrect_len_err, len_value
from .. import booldec
from .common import (result_outcome, all_ans, impl_bodies, aggregates_of, ctor_uses, where, ret_classes, closure_ret, hpke_variant, switch_edge,
                     is_ok_agg, is_err_agg)

EXPLANATION = (
    'Static analysis of MIR (all cargo features), per NIST macro expansion. R09.1: in every NIST '
    'PublicKey/PrivateKey::from_bytes the exact-length guard enforce_equal_len(expected = the type-level OutputSize, '
    'given = input.len()) is propagated by `?` and its success edge dominates the parser call; R09.2: the parser is an '
    'allow-listed *validating* RustCrypto constructor applied to the whole input, its Err maps to ValidationError and '
    'its Ok payload is what gets wrapped; EncappedKey::from_bytes delegates the whole input to PublicKey::from_bytes; '
    'R09.3 constructor-site enumeration: every construction of a NIST key newtype / EncappedKey wraps a value from an '
    'allow-listed validated source (typestate: every key value that exists was validated), and the newtype fields are '
    'private; R09.4: decision table of enforce_equal_len (given != expected => IncorrectInputLength(expected, given)); '
    'R09.5: `dh` only accepts these newtypes. Not decided: correctness of RustCrypto\'s validation (curve equation, '
    'canonical coordinates, range) — read, cited, trusted.')
TRUSTED = ['elliptic_curve::PublicKey::from_sec1_bytes rejects off-curve / identity / non-canonical encodings',
           'elliptic_curve::SecretKey::from_bytes|from_slice accept exactly scalars in [1, n-1]',
           'SecretKey::public_key of a non-zero scalar is never the identity']
ASSUME = ['for a 65/97/133-byte input the only SEC1 form from_sec1_bytes can accept is the uncompressed one']

# validating constructors (suffix of the callee path with generic arguments stripped) — one line of reason each
PARSERS = {
    'elliptic_curve::PublicKey::from_sec1_bytes': 'decodes SEC1, checks the curve equation and rejects the identity',
    'elliptic_curve::SecretKey::from_bytes': 'rejects zero and values >= the group order',
    'elliptic_curve::SecretKey::from_slice': 'length check + SecretKey::from_bytes',
}
DERIVERS = {
    'elliptic_curve::SecretKey::public_key': 'sk*G for a validated non-zero scalar',
    'core::clone::Clone::clone': 'copy of an existing (validated) key',
}
NIST_MOD = 'dhkex::ecdh_nistp::'


def suffix_in(path, table):
    for k in table:
        if path == k or path.endswith('::' + k):
            return k
    return None


def output_size(facts, self_ty):
    for im in facts.impls:
        if im.get('trait') == 'Serializable' and im['self_ty'] == self_ty:
            return im['types'].get('OutputSize', {}).get('usize')
    return None


def guard_of(a, facts, rule, rep, self_ty):
    """find `enforce_equal_len(expected, given)?`; returns (call block, ok_edge (switch block, target)) or None"""
    fn = a.body.key
    cs = a.calls(lambda c: c.get('key') == 'util::enforce_equal_len' or c['path'].endswith('::enforce_equal_len'))
    eg = explicit_len_guard(a, facts) if not cs else None
    if eg:
        # the guard spelled out: `if encoded.len() != N { return Err(IncorrectInputLength(N, encoded.len())) }`
        n_expected = output_size(facts, self_ty)
        n_found = len_value(facts, eg['n'])
        site = a.term_point(eg['switch'])
        rep.check(n_found is not None and n_found == n_expected, rule, fn, 'guard-expected', '%s = %s' % (pp(eg['n']), n_found),
                  'expected length = Self::OutputSize = %s' % n_expected, where(a, site))
        rep.check(True, rule, fn, 'guard-given', 'len(p1) compared', 'given length = encoded.len()', where(a, site))
        okr = bool(eg['ne_returns']) and all(is_incorrect_len_err(tt, eg['n'], 1, facts) for s, tt in eg['ne_returns'])
        rep.check(okr, rule, fn, 'guard-propagated', [pp(tt)[:100] for s, tt in eg['ne_returns']],
                  'a wrong length returns Err(IncorrectInputLength(OutputSize, encoded.len()))', where(a, site))
        return eg['switch'], eg['eq_edge']
    if len(cs) != 1:
        rep.bad(rule, fn, 'length-guard', '%d call(s) of enforce_equal_len' % len(cs),
                'exactly one exact-length guard before parsing', where(a))
        return None
    bi, t, c = cs[0]
    exp, giv = a.arg_val(bi, 0), a.arg_val(bi, 1)
    n_expected = output_size(facts, self_ty)
    n_found = None
    if exp[0] == 'call' and exp[1].endswith('::to_usize') and exp[4]:
        n_found = typenum_usize(exp[4][2] or '')
    elif exp[0] == 'call' and exp[1] == 'Serializable::size' and exp[4] and exp[4][2] == self_ty:
        n_found = n_expected
    elif exp[0] == 'const' and isinstance(exp[2], int):
        n_found = exp[2]
    rep.check(n_found is not None and n_found == n_expected, rule, fn, 'guard-expected', '%s = %s' % (pp(exp), n_found),
              'expected length = Self::OutputSize = %s' % n_expected, where(a, a.term_point(bi)))
    rep.check(giv == ('len', ('param', 1)), rule, fn, 'guard-given', pp(giv), 'given length = encoded.len() (second argument)', where(a, a.term_point(bi)))
    # `?`: Err propagated unchanged, success edge
    prop = [tt for s, tt, cls in ret_classes(a, facts) if tt[0] == 'from_residual' and tt[1][0] == 'residual'
            and tt[1][1][0] == 'call' and tt[1][1][3] == bi]
    rep.check(len(prop) == 1, rule, fn, 'guard-propagated', '%d return(s) propagate the guard\'s error' % len(prop),
              'the length error is returned to the caller unchanged (`?`)', where(a, a.term_point(bi)))
    for b2 in a.cfg.reach:
        t2 = a.body.blocks[b2]['term']
        if t2['k'] == 'switch':
            d = a.val_op(t2['discr'], a.term_point(b2))
            if d[0] == 'discr' and d[1][0] == 'try' and d[1][1][0] == 'call' and d[1][1][3] == bi:
                return bi, (b2, switch_edge(t2, 0))
    rep.bad(rule, fn, 'guard-branch', 'no `?` on the guard', 'the guard\'s result is inspected', where(a, a.term_point(bi)))
    return None


def check_nist_from_bytes(rep, facts, b):
    a = get_an(facts, b.key)
    fn = b.key
    self_ty = b.impl_of['self_ty']
    g = guard_of(a, facts, 'R09.1', rep, self_ty)
    from ..prov import strip_generics
    parsers = a.calls(lambda c: not c.get("local") and suffix_in(strip_generics(c["path"]), PARSERS))
    ext = [(bi, c) for bi, t, c in a.calls() if c and not c.get('local') and c['crate'] not in ('core', 'alloc', 'std', 'generic_array', 'typenum')
           and c['name'] not in ('branch', 'from_residual')]
    if len(parsers) != 1:
        rep.bad('R09.2', fn, 'parser', 'external calls: %s' % [c['path'] for _, c in ext],
                'exactly one allow-listed validating constructor (%s)' % ', '.join(PARSERS), where(a))
        return
    pbi, pt, pc = parsers[0]
    others = [c['path'] for bi, c in ext if bi != pbi]
    rep.check(not others, 'R09.2', fn, 'no-other-constructor', '%s' % others, 'no other external constructor is involved', where(a))
    if g:
        gbi, (sb, tgt) = g
        dom = a.cfg.edge_dominates(sb, tgt, pbi)
        rep.check(dom, 'R09.1', fn, 'guard-dominates-parser', 'success edge of the length guard dominates the parser call: %s' % dom,
                  'nothing is parsed unless the length is exactly OutputSize (this is what excludes compressed points)', where(a, a.term_point(pbi)))
    arg = a.arg_val(pbi, 0)
    whole = arg == ('param', 1) or (arg[0] == 'call' and arg[1] == 'core::convert::Into::into' and arg[2] == (('param', 1),))
    rep.check(whole, 'R09.2', fn, 'parser-input', pp(arg), 'the whole input slice', where(a, a.term_point(pbi)))
    # Err -> ValidationError ; Ok payload wrapped
    okc = errc = 0
    for s, tt, cls in ret_classes(a, facts):
        if cls == 'ok':
            okc += 1
            pl = tt[3][0]
            good = False
            if pl[0] == 'agg' and pl[2].startswith(self_ty + '::') and len(pl[3]) == 1:
                x = pl[3][0]
                if x[0] == 'okval':
                    y = x[1]
                    if y[0] == 'call' and y[1] == 'core::result::Result::map_err':
                        y = y[2][0]
                    good = y[0] == 'call' and y[3] == pbi
            rep.check(good, 'R09.2', fn, 'wraps-parser-ok', pp(tt)[:200], 'Ok(Self(the Ok payload of the validating constructor))', where(a, s))
    # form-independent: the one branch that decides on the parser's result returns ValidationError on its failure edge
    o = result_outcome(a, facts, pbi)
    if o is not None and o['err_returns']:
        errc = 1
        hows = sorted({h for _, _, h in o['err_returns']})
        rep.check(hows == ['ValidationError'], 'R09.2', fn, 'parser-error', hows, 'a rejected encoding yields ValidationError', where(a, o['err_returns'][0][0]))
    rep.check(okc == 1 and errc == 1, 'R09.2', fn, 'return-classes', 'Ok returns: %d, parser-error returns: %d' % (okc, errc), 'one of each', where(a))


def check_encapped_from_bytes(rep, facts, b):
    a = get_an(facts, b.key)
    fn = b.key
    cs = [(bi, t, c) for bi, t, c in a.calls(lambda c: c['name'] == 'from_bytes' and c.get('trait') == 'Deserializable')]
    if len(cs) != 1:
        rep.bad('R09.2', fn, 'delegation', '%d from_bytes call(s)' % len(cs), 'delegates to the public key\'s from_bytes', where(a))
        return
    bi, t, c = cs[0]
    rk = (c.get('resolved') or {}).get('key')
    rep.check(a.arg_val(bi, 0) == ('param', 1), 'R09.2', fn, 'delegates-whole-input', pp(a.arg_val(bi, 0)), 'the whole input', where(a, a.term_point(bi)))
    rep.check(rk is not None and rk.endswith('::PublicKey as Deserializable>::from_bytes'), 'R09.2', fn, 'delegate-target', str(rk),
              'the DH public key type\'s from_bytes', where(a, a.term_point(bi)))
    for s, tt, cls in ret_classes(a, facts):
        if cls == 'ok':
            pl = tt[3][0]
            good = pl[0] == 'agg' and len(pl[3]) == 1 and pl[3][0][0] == 'okval' and pl[3][0][1][0] == 'call' and pl[3][0][1][3] == bi
            rep.check(good, 'R09.2', fn, 'wraps-delegate-ok', pp(tt)[:200], 'Ok(EncappedKey(the validated public key))', where(a, s))
        elif isinstance(cls, tuple) and cls[0] == 'err':
            ident = tt[0] == 'from_residual' and tt[1][0] == 'residual' and tt[1][1][0] == 'call' and tt[1][1][3] == bi
            rep.check(ident, 'R09.2', fn, 'error-identity', pp(tt)[:200], 'the public key parser\'s error, unchanged', where(a, s))


def newtype_adts(facts):
    out = {}
    for path, adt in facts.adts.items():
        if path.startswith(NIST_MOD) and path.rsplit('::', 1)[-1] in ('PublicKey', 'PrivateKey'):
            out[path] = 'nist-key'
        elif path.startswith('kem::dhkem::') and path.endswith('::EncappedKey'):
            out[path] = 'encapped'
    return out


def validated_source(facts, v, kind, adts):
    """(ok, why) for the value wrapped at a construction site"""
    from ..prov import strip_generics
    x = v
    if x[0] == 'okval':
        y = x[1]
        if y[0] == 'call' and y[1] == 'core::result::Result::map_err':
            y = y[2][0]
        if y[0] == 'call':
            k = suffix_in(y[1], PARSERS)
            if k:
                return True, 'Ok payload of ' + k
            info = y[4]
            if info and info[3] and info[3].endswith('as Deserializable>::from_bytes'):
                return True, 'Ok payload of the local validated from_bytes ' + info[3]
            if info and info[1] == 'from_bytes' and info[0] == 'Deserializable':
                return True, 'Ok payload of Deserializable::from_bytes'
        return False, 'Ok payload of ' + pp(y)[:80]
    if x[0] == 'call':
        k = suffix_in(x[1], DERIVERS)
        if k:
            return True, k
        info = x[4]
        if kind == 'encapped' and info and (info[1] == 'sk_to_pk'):
            return True, 'sk_to_pk of a validated private key'
        if suffix_in(x[1], PARSERS):
            return False, 'unchecked use of a fallible constructor result'
        return False, 'result of ' + x[1]
    if x[0] in ('param', 'load'):
        return (kind == 'encapped'), 'an existing value of the validated key type'
    return False, pp(x)[:80]


def run(ctx):
    rep, facts = ctx.rep, ctx.facts
    feats = facts.meta.get('features', [])
    ncurves = len([f for f in ('p256', 'p384', 'p521') if f in feats])
    nkems = ncurves + (1 if 'x25519' in feats else 0)
    fb = [b for b in impl_bodies(facts, 'Deserializable', 'from_bytes') if not b.default_of]
    nist = [b for b in fb if b.impl_of['self_ty'].startswith(NIST_MOD)]
    enc = [b for b in fb if b.impl_of['self_ty'].startswith('kem::dhkem::') and b.impl_of['self_ty'].endswith('::EncappedKey')]
    rep.floor('R09.1', 'NIST from_bytes impls (2 per curve)', len(nist), 2 * ncurves)
    rep.floor('R09.2', 'EncappedKey from_bytes impls', len(enc), nkems)
    for b in nist:
        check_nist_from_bytes(rep, facts, b)
    for b in enc:
        check_encapped_from_bytes(rep, facts, b)
    # R09.3 constructor sites
    adts = newtype_adts(facts)
    nsites = 0
    for a in all_ans(facts):
        for path, kind in adts.items():
            for s, st in aggregates_of(a, path):
                nsites += 1
                v = a.val_rv(st['rv'], s)
                inner = v[3][0] if v[0] == 'agg' and len(v[3]) == 1 else ('unknown', 'shape')
                ok, why = validated_source(facts, inner, kind, adts)
                rep.check(ok, 'R09.3', a.body.key, 'construct:%s' % path.split('::')[-2] + '::' + path.split('::')[-1], '%s( %s ) — %s' % (path.rsplit('::', 1)[-1], pp(inner)[:160], why),
                          'the wrapped value comes from an allow-listed validated source', where(a, s))
            for bi, t, i in ctor_uses(a, path):
                nsites += 1
                ok, why = False, 'constructor used as a function value'
                if i == 1 and t.get('k') == 'call':
                    from ..mirjson import callee_of
                    c = callee_of(t)
                    if c and c['name'] == 'map' and c['path'].startswith(('core::option::Option', 'core::result::Result')):
                        src = a.arg_val(bi, 0)
                        ok, why = validated_source(facts, ('okval', src), kind, adts)
                        why = 'map(%s, %s) — %s' % (pp(src)[:120], path.rsplit('::', 1)[-1], why)
                rep.check(ok, 'R09.3', a.body.key, 'construct-via-fn:%s' % path.split('::')[-2] + '::' + path.split('::')[-1], why,
                          'the wrapped value comes from an allow-listed validated source', where(a, a.term_point(bi)))
    rep.floor('R09.3', 'key newtype construction sites', nsites, 4 * ncurves + 2 * nkems)
    for path, kind in adts.items():
        adt = facts.adts[path]
        for f in adt['variants'][0]['fields']:
            okv = f['vis'] != 'pub'
            if kind == 'encapped':
                # `pub(crate)` field; the type itself lives in a pub(crate) module and is doc(hidden)
                okv = f['vis'] != 'pub'
            rep.check(okv, 'R09.3', path, 'field-not-public', f['vis'], 'the wrapped key cannot be set from outside the crate')
    # R09.4 enforce_equal_len
    a = get_an(facts, 'util::enforce_equal_len')
    if a is None:
        rep.anchor_lost('R09.4', 'util::enforce_equal_len', 'length guard helper', 'not found')
    else:
        check_enforce_equal_len(rep, a)
    # R09.5 dh signatures
    for b in impl_bodies(facts, 'dhkex::DhKeyExchange', 'dh'):
        if b.default_of or not b.impl_of['self_ty'].startswith(NIST_MOD):
            continue
        mod = b.impl_of['self_ty'].rsplit('::', 1)[0]
        want = ['&%s::PrivateKey' % mod, '&%s::PublicKey' % mod]
        rep.check(b.sig['inputs'] == want, 'R09.5', b.key, 'dh-signature', b.sig['inputs'], 'dh(&PrivateKey, &PublicKey) of the same curve module', None)
    rep.bodies_analysed = len(facts.body_list)


def check_enforce_equal_len(rep, a, rule='R09.4'):
    fn = a.body.key

    def atom_ok(x):
        return x[0] == 'bin' and x[1] in ('Ne', 'Eq') and {x[2], x[3]} == {('param', 1), ('param', 2)}
    try:
        atoms, rows = booldec.bool_table(a, atom_ok)
    except booldec.Undecidable as e:
        rep.undecided(rule, fn, 'decision-table', str(e), 'a single (in)equality test of the two lengths', where(a))
        return
    if len(atoms) != 1:
        rep.bad(rule, fn, 'comparison', [pp(x) for x in atoms], 'exactly one comparison given != expected', where(a))
        return
    at = atoms[0]
    for asg, rt, site in rows:
        differ = asg[at] if at[1] == 'Ne' else not asg[at]
        if differ:
            ok = is_err_agg(rt) and rt[3][0][0] == 'agg' and rt[3][0][2] == 'HpkeError::IncorrectInputLength' and \
                rt[3][0][3] == (('param', 1), ('param', 2))
            rep.check(ok, rule, fn, 'differ->Err', pp(rt), 'Err(IncorrectInputLength(expected, given)) — in this order', where(a, site))
        else:
            rep.check(is_ok_agg(rt), rule, fn, 'equal->Ok', pp(rt), 'Ok(())', where(a, site))
