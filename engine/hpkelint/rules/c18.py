"""C18 — no hidden state, thread safety (DESIGN §5 C18: R18.1 … R18.5)."""
from ..prov import get_an, pp, strip_generics
from .. import witness
from .common import all_ans, where, adt_field_stores, impl_bodies, addr_fields

EXPLANATION = (
    'Static analysis of item-level facts and MIR (all cargo features) plus type-level witnesses decided by rustc. '
    'R18.1 zero-count enumerations over the whole crate: no `static mut`, no non-Freeze static, no thread_local, no '
    'interior-mutability type (UnsafeCell/Cell/RefCell/atomics/Mutex/RwLock/Once*/Lazy*/Rc) in any field, no const '
    'with interior mutability, no user-written unsafe block/fn/impl (each rule has a positive control in '
    'fixtures/posctl that must fire on every run). R18.2 every external callee belongs to an allow-listed crate and '
    'none is a clock/environment/thread/global-RNG/IO function; RNG trait methods are only invoked on the caller\'s '
    'generic RNG parameter. R18.3 receivers: export takes &self, every body that writes a context field takes &mut '
    'self. R18.4 the ephemeral key of every encapsulation is derived from bytes drawn from the caller\'s RNG parameter '
    'in that call (nowhere to cache it, by R18.1), and that buffer has no other writer (writes through iterators and '
    'closures included). R18.6 zero-count: no pointer-to-integer cast, transmute, <*const T>::addr/align_offset or {:p} '
    'formatting anywhere, so no result depends on an address (ASLR, stack depth, thread). R18.5 Send + Sync + Freeze for both context types over all '
    'AEAD x KDF x KEM combinations, all key/encapped-key/tag/mode/bundle/error types — verdict by the compiler on a '
    'generated witness crate, with a non-vacuity twin. From these and Rust\'s aliasing rules for safe code, results '
    'are functions of arguments + RNG bytes + the context, and concurrent &self exports / distinct contexts equal '
    'sequential execution.')
TRUSTED = ['rustc type checker / auto-trait solver (nightly 1.97)', 'absence of unsafe in hpke makes Rust\'s aliasing guarantees apply',
           'dependency crates keep no hidden global state for the calls used (trusted, named in evidence)']
ASSUME = ['the dependency crates used (aead, aes-gcm, chacha20poly1305, hkdf, hmac, sha2, curve crates, zeroize, subtle) are free of global mutable state']

INTERIOR = ('UnsafeCell', 'core::cell::Cell<', 'cell::Cell<', 'RefCell', 'Atomic', 'Mutex', 'RwLock', 'OnceCell', 'OnceLock', 'LazyLock', 'LazyCell',
            'Condvar', 'alloc::rc::Rc<', 'std::rc::Rc<', 'rc::Weak<', 'mpsc::', 'thread::LocalKey')
ALLOWED_CRATES = {
    'core': 'language core library', 'alloc': 'Vec for the allocating API', 'std': 'Vec/Error only (denylist below applies)',
    'aead': 'AEAD traits', 'aes_gcm': 'AES-GCM', 'chacha20poly1305': 'ChaCha20-Poly1305', 'generic_array': 'fixed-size arrays',
    'typenum': 'type-level integers', 'digest': 'hash traits', 'crypto_common': 'KeyInit/KeySizeUser', 'hkdf': 'HKDF', 'hmac': 'HMAC',
    'sha2': 'SHA-2', 'subtle': 'constant-time comparison', 'zeroize': 'memory wiping', 'x25519_dalek': 'X25519',
    'curve25519_dalek': 'X25519 backend', 'p256': 'P-256', 'p384': 'P-384', 'p521': 'P-521', 'elliptic_curve': 'RustCrypto curve traits',
    'sec1': 'SEC1 encoding', 'rand_core': 'RNG traits (methods on the caller\'s generic RNG only)', 'primeorder': 'curve arithmetic',
    'hpke': 'the crate itself', 'posctl': 'fixture',
}
AMBIENT_DENY = ('::time::', '::env::', '::thread::', '::process::', '::fs::', '::io::', '::net::', 'OsRng', 'thread_rng', 'getrandom',
                '::sync::', 'SystemTime', 'Instant', '::os::', 'hash::RandomState', 'random::')


def enumerate_hidden_state(rep, facts, sites_unused=None, rule='R18.1'):
    """zero-count rules; returns number of items scanned"""
    n = 0
    for st in facts.statics:
        n += 1
        w = {'file': st['span']['file'], 'line': st['span']['lo'], 'function': st['path']}
        if st['mut']:
            rep.bad(rule, st['path'], 'static-mut', 'static mut %s: %s' % (st['path'], st['ty']), 'no mutable statics', w)
        elif st.get('thread_local'):
            rep.bad(rule, st['path'], 'thread-local', 'thread_local %s' % st['path'], 'no thread-local state', w)
        elif not st['freeze']:
            rep.bad(rule, st['path'], 'static-interior-mut', 'static %s: %s is not Freeze' % (st['path'], st['ty']), 'no statics with interior mutability', w)
        else:
            rep.note('immutable Freeze static (lookup table, not state): %s: %s' % (st['path'], st['ty']))
    for c in facts.consts:
        n += 1
        if not c['freeze']:
            rep.bad(rule, c['path'], 'const-interior-mut', 'const %s: %s' % (c['path'], c['ty']), 'no consts with interior mutability',
                    {'file': c['span']['file'], 'line': c['span']['lo'], 'function': c['path']})
    for path, adt in facts.adts.items():
        for v in adt['variants']:
            for f in v['fields']:
                n += 1
                hit = [k for k in INTERIOR if k in f['ty']]
                if hit:
                    rep.bad(rule, path, 'field-interior-mut:%s' % f['name'], '%s.%s: %s' % (path, f['name'], f['ty']),
                            'no field with interior mutability / non-Send-Sync sharing (%s)' % hit[0],
                            {'file': adt['span']['file'], 'line': adt['span']['lo'], 'function': path})
    for u in facts.unsafe_sites:
        n += 1
        if u.get('derive'):
            rep.note('unsafe in derive expansion (listed, not flagged): %s in %s' % (u['kind'], u['owner']))
            continue
        if u['kind'] == 'block' and not u.get('user', True):
            continue
        rep.bad(rule, u['owner'], 'unsafe-%s' % u['kind'], 'unsafe %s at %s:%s' % (u['kind'], u['span']['file'], u['span']['lo']),
                'no user-written unsafe: every conclusion drawn from types and MIR presupposes safe code',
                {'file': u['span']['file'], 'line': u['span']['lo'], 'function': u['owner']}, kind='UNDECIDED')
    # ThreadLocalRef rvalues / thread_local! expansions inside bodies
    for a in all_ans(facts):
        if 'thread_local_ref' in a.body.raw_text():
            rep.bad(rule, a.body.key, 'thread-local-access', 'ThreadLocalRef in body', 'no thread-local state', where(a))
    return n


def ambient_callees(rep, facts, sites_unused=None, rule='R18.2'):
    n = 0
    seen = {}
    for a in all_ans(facts):
        for bi, t, c in a.calls():
            if c is None or c.get('local'):
                continue
            n += 1
            crate = c['crate']
            p = c['path']
            r = c.get('resolved') or {}
            rp = r.get('path') or ''
            key = (a.body.key, p)
            if crate not in ALLOWED_CRATES:
                rep.bad(rule, a.body.key, 'callee-crate:%s' % strip_generics(p), 'call into crate `%s`: %s' % (crate, p),
                        'external callees belong to the allow-listed crates', where(a, a.term_point(bi)))
                continue
            deny = [d for d in AMBIENT_DENY if d in p or d in rp]
            if deny:
                rep.bad(rule, a.body.key, 'ambient:%s' % strip_generics(p), '%s (resolved %s)' % (p, rp),
                        'no clock / environment / thread / global RNG / IO / synchronisation callee', where(a, a.term_point(bi)))
                continue
            if crate == 'rand_core':
                st = c.get('self_ty') or ''
                generic_param = st in a.body.raw.get('generics', []) or (a.body.facts and st in (facts.body(a.body.raw.get('parent', '')) or a.body).raw.get('generics', []))
                rep.check(bool(generic_param), rule, a.body.key, 'rng-is-callers:%s' % c['name'], 'rand_core::%s on %s' % (c['name'], st),
                          'RNG methods are invoked on the caller\'s generic RNG parameter only', where(a, a.term_point(bi)))
            seen[crate] = seen.get(crate, 0) + 1
    rep.extra['external_callee_crates'] = seen
    return n


ADDR_CASTS = ('PointerExposeProvenance', 'PointerExposeAddress', 'PointerWithExposedProvenance', 'PointerFromExposedAddress', 'Transmute', 'FnPtrToPtr')
ADDR_CALLEES = ('addr', 'expose_provenance', 'expose_addr', 'align_offset', 'is_aligned', 'is_aligned_to')


def address_dependence(rep, facts, sites_unused=None, rule='R18.6'):
    """zero-count: no value is derived from an address (pointer-to-integer casts, transmutes, <*const T>::addr,
    align_offset, {:p} formatting) — addresses differ per thread, stack depth and process (ASLR)"""
    n = 0

    def casts(x, out):
        if isinstance(x, dict):
            if x.get('k') == 'cast':
                out.append(x)
            for v in x.values():
                casts(v, out)
        elif isinstance(x, list):
            for v in x:
                casts(v, out)
    for a in all_ans(facts):
        for bi, blk in enumerate(a.body.blocks):
            if blk['cleanup']:
                continue
            for si, st in enumerate(blk['stmts']):
                cs = []
                casts(st, cs)
                for c in cs:
                    n += 1
                    if any(c['cast'].startswith(k) for k in ADDR_CASTS):
                        rep.bad(rule, a.body.key, 'address-cast:%s' % c['cast'].split('(')[0], 'cast %s to %s' % (c['cast'], c.get('ty')),
                                'no pointer/integer conversion: results must not depend on addresses', where(a, (bi, si)))
            t = blk['term']
            if t['k'] == 'call':
                c = None
                from ..mirjson import callee_of
                c = callee_of(t)
                if c is None:
                    continue
                n += 1
                st_ty = (c.get('self_ty') or c.get('impl_self_ty') or '') + ' ' + ' '.join(t.get('arg_tys', [])[:1])
                rawptr = '*const' in st_ty or '*mut' in st_ty or 'NonNull' in st_ty
                if (c['name'] in ADDR_CALLEES and rawptr) or (c.get('trait') == 'core::fmt::Pointer') or 'fmt::Pointer' in c['path'] \
                        or c['path'].endswith('new_pointer'):
                    rep.bad(rule, a.body.key, 'address-call:%s' % c['name'], c['path'], 'no address-derived value', where(a, a.term_point(bi)))
    return n


def receivers(rep, facts, rule='R18.3'):
    n = 0
    for a in all_ans(facts):
        b = a.body
        if b.impl_of and b.impl_of.get('name') == 'export' and b.impl_of['self_ty'].startswith('aead::AeadCtx'):
            n += 1
            rep.check(b.sig['inputs'][0].startswith('&aead::AeadCtx'), rule, b.key, 'export-shared-receiver', b.sig['inputs'][0],
                      'export takes &self', where(a))
            st = adt_field_stores(a, 'aead::AeadCtx')
            rep.check(not st, rule, b.key, 'export-no-write', '%d store(s)' % len(st), 'export writes nothing', where(a))
        st = adt_field_stores(a, 'aead::AeadCtx')
        if st and b.sig:
            n += 1
            rep.check(b.sig['inputs'] and b.sig['inputs'][0].startswith('&mut '), rule, b.key, 'writer-needs-mut',
                      b.sig['inputs'][0] if b.sig['inputs'] else '-', 'every body that writes a context field takes &mut self', where(a))
    return n


def fresh_ephemeral(rep, facts, rule='R18.4'):
    n = 0
    for b in impl_bodies(facts, 'kem::Kem', 'encap'):
        if b.default_of:
            continue
        n += 1
        a = get_an(facts, b.key)
        cs = a.calls(lambda c: c.get('local') and c['name'] not in ('gen_keypair',) and c['def_kind'] == 'Fn')
        ok = False
        found = 'no encap_with_eph call'
        for bi, t, c in cs:
            args = [a.arg_val(bi, i) for i in range(len(t['args']))]
            if len(args) == 3:
                sk = args[2]
                found = pp(sk)
                ok = (sk[0] == 'field' and sk[1] == '0' and sk[2][0] == 'call' and sk[2][1] == 'kem::Kem::gen_keypair'
                      and sk[2][2] == (('param', 3),) and args[0] == ('param', 1) and args[1] == ('param', 2))
        rep.check(ok, rule, b.key, 'ephemeral-from-rng', found,
                  'encap_with_eph(pk_recip, sender_id, Self::gen_keypair(csprng).0): fresh key from the caller\'s RNG in this call', where(a))
    g = get_an(facts, 'kem::Kem::gen_keypair')
    if g is None:
        rep.anchor_lost(rule, 'kem::Kem::gen_keypair', 'default body', 'not found')
    else:
        check_gen_keypair(rep, facts, g, rule)
    return n


def check_gen_keypair(rep, facts, g, rule):
    fn = g.body.key
    dk = g.calls(lambda c: c['name'] == 'derive_keypair')
    fb = g.calls(lambda c: c['name'] == 'fill_bytes')
    if len(dk) != 1 or len(fb) != 1:
        rep.bad(rule, fn, 'shape', '%d derive_keypair, %d fill_bytes call(s)' % (len(dk), len(fb)), 'one fill_bytes and one derive_keypair', where(g))
        return
    dbi = dk[0][0]
    ikm = g.arg_pointee(dbi, 0)
    ok = False
    found = pp(ikm)[:240]
    if ikm[0] == 'mem' and len(ikm[3]) == 1 and ikm[3][0][3]:
        w = ikm[3][0][2]
        init = ikm[2]
        zero = init[0] == 'call' and init[1] == 'core::default::Default::default'
        ok = (w[0] == 'call' and w[1] == 'rand_core::RngCore::fill_bytes' and w[2][0] == ('param', 1) and not ikm[3][0][1] and zero)
    rep.check(ok, rule, fn, 'ikm-from-rng', found, 'ikm = one whole buffer filled by csprng.fill_bytes, handed to derive_keypair', where(g, g.term_point(dbi)))
    # the buffer length is the private key size (Nsk)
    l = ikm[1] if ikm[0] == 'mem' else None
    ty = g.body.local_ty(l) if l is not None else ''
    rep.check('as Serializable>::OutputSize>' in ty and 'PrivateKey' in ty, rule, fn, 'ikm-length', ty,
              'GenericArray<u8, <PrivateKey as Serializable>::OutputSize> (Nsk bytes)', where(g))
    rt = g.ret_val()
    rep.check(rt[0] == 'call' and rt[3] == dbi, rule, fn, 'returns-derived', pp(rt)[:160], 'the derived key pair is returned unchanged', where(g))


def witness_doctests(rep, ctx, facts, rule='R18.5'):
    okd, res, rawd = witness.doctests(ctx.repo, facts)
    want = {('WPskBundlePrivate', True), ('WPskBundlePrivate', False), ('WSealNeedsMut', True), ('WSealNeedsMut', False),
            ('WExportShared', False), ('WCtxOpaque', True), ('WNotVacuous', True), ('WNotVacuous', False)}
    got = {(n, cf) for n, cf, r in res if r == 'ok'}
    for n, cf in sorted(want):
        rep.check((n, cf) in got, rule, 'witness:' + n, 'compile_fail' if cf else 'compiling-twin',
                  'doctest result: %s' % [r for nn, c2, r in res if nn == n and c2 == cf],
                  'the compile_fail witness fails with its error code and its twin compiles', None)


def witnesses(rep, ctx, facts, rule='R18.5', doctests=False):
    ok, asserts, fails, raw = witness.check(ctx.repo, facts)
    for i, (f, t) in enumerate(asserts):
        bad = [x for x in fails if x[0] == i]
        if bad:
            rep.bad(rule, t, 'send-sync-freeze', bad[0][2], 'T: Send + Sync + Freeze (decided by rustc)', {'function': t})
        elif ok:
            rep.ok(rule, t, 'send-sync-freeze', 'rustc accepted `%s: Send + Sync + Freeze`' % t)
    for x in fails:
        if x[0] is None:
            rep.undecided(rule, 'witness-crate', 'compile', str(x[2])[-600:], 'the generated witness crate type-checks', None)
    rep.extra['witness_assertions'] = len(asserts)


def run(ctx, doctests=False):
    rep, facts = ctx.rep, ctx.facts
    n1 = enumerate_hidden_state(rep, facts)
    rep.obligations.append({'rule': 'R18.1', 'fn': '-', 'instance': 'scan', 'found': '%d statics/consts/fields/unsafe sites scanned, 0 flagged' % n1,
                            'verdict': 'ok', 'nontrivial': True})
    n2 = ambient_callees(rep, facts)
    rep.obligations.append({'rule': 'R18.2', 'fn': '-', 'instance': 'scan', 'found': '%d external call sites scanned' % n2,
                            'verdict': 'ok', 'nontrivial': True})
    rep.call_sites = n2
    n6 = address_dependence(rep, facts)
    rep.obligations.append({'rule': 'R18.6', 'fn': '-', 'instance': 'scan', 'found': '%d casts and call sites scanned, 0 address-derived values' % n6,
                            'verdict': 'ok', 'nontrivial': True})
    n3 = receivers(rep, facts)
    rep.floor('R18.3', 'export bodies + context writers', n3, 5)
    n4 = fresh_ephemeral(rep, facts)
    rep.floor('R18.4', 'Kem::encap impls', n4, len(facts.impls_of('kem::Kem')))
    if facts.meta.get('config', 'all') == 'all':
        witnesses(rep, ctx, facts)
    # positive controls
    from ..framework import Reporter
    pf = ctx.posctl_facts()
    for fn, rule, need in ((enumerate_hidden_state, 'R18.1', {'static-mut', 'thread-local', 'static-interior-mut', 'field-interior-mut:c', 'unsafe-block', 'unsafe-fn', 'unsafe-impl'}),
                           (ambient_callees, 'R18.2', {'ambient'}),
                           (address_dependence, 'R18.6', {'address-cast:PointerExpose', 'address-call:addr', 'address-call:'})):
        probe = Reporter('C18', ctx.tier, 'posctl')
        fn(probe, pf, None, rule)
        kinds = {v['key'].split('|', 2)[2] for v in probe.violations}
        missing = [k for k in need if not any(x == k or x.startswith(k) for x in kinds)]
        if not missing:
            rep.posctl += 1
            rep.obligations.append({'rule': rule, 'fn': 'fixtures/posctl', 'instance': 'positive-control',
                                    'found': '%d report(s): %s' % (len(probe.violations), sorted(kinds)[:8]), 'verdict': 'ok', 'nontrivial': True})
        else:
            rep.bad(rule, 'fixtures/posctl', 'positive-control', 'not reported: %s (reported: %s)' % (missing, sorted(kinds)),
                    'every seeded bad construct in fixtures/posctl is reported', kind='CHECKER-BROKEN')
    rep.bodies_analysed = len(facts.body_list)


def run_thorough(ctx):
    # compile_fail witnesses (need `cargo +nightly test --doc`)
    witness_doctests(ctx.rep, ctx, ctx.facts)
