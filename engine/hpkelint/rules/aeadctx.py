"""Analysis of the sealing/opening bodies: nonce wiring, overflow check, verdict switch,
sequence-counter effects per return path.  Shared by C01, C04, C05, C06."""
from ..bits import bits, be_byte_ok, WIDTH
from ..mirjson import callee_of
from ..prov import get_an, pp, strip_generics, contains, walk, bytes_of, fold_bin
from ..prov import strip_sites as strip_sites_
from .common import (bodies_calling, adt_field_stores, adt_field_mut_borrows, aggregates_of, ret_classes,
                     is_ok_agg, is_err_agg, hpke_variant, enumerate_paths, switch_on, switch_edge,
                     uses_of_local_blocks, addr_fields, load_path_fields, where, closure_ret, site_reaches)

CTX_ADT = 'aead::AeadCtx'
AEAD_TRAIT = 'aead::AeadInPlace'


def aead_sites(facts, method):
    return bodies_calling(facts, trait=AEAD_TRAIT, name=method, exclude_impls_of=AEAD_TRAIT)


def self_param(a):
    """index of the `&mut self` / `&self` parameter (MIR local 1) if it is a context wrapper"""
    return 1


def field_ref_of_self(t, field):
    """t is a reference to self.<...>.field"""
    base, fs = addr_fields(t)
    return base == ('param', 1) and len(fs) >= 1 and fs[-1] == field


def field_load_of_self(t, field):
    base, fs = load_path_fields(t)
    return base == ('param', 1) and fs and fs[-1] == field


class SiteInfo:
    """everything the rules need about one body that calls the AEAD"""

    def __init__(self, facts, a, bi, term, method):
        self.facts = facts
        self.a = a
        self.bi = bi
        self.term = term
        self.method = method
        self.key = a.body.key
        p = a.term_point(bi)
        self.point = p
        self.args = [a.val_op(x, p) for x in term['args']]
        self.result_local = term['dest']['l'] if not term['dest']['p'] else None
        # stores into the context
        self.stores = adt_field_stores(a, CTX_ADT)
        self.borrows = adt_field_mut_borrows(a, CTX_ADT)
        self.classes = ret_classes(a, facts)
        self._overflow_switch()
        self._verdict_switch()

    def _overflow_switch(self):
        a = self.a
        sw = switch_on(a, lambda d: field_load_of_self(d, 'overflowed'))
        self.ovf = sw[0] if len(sw) == 1 else None
        self.ovf_all = sw
        if self.ovf:
            bi, t, _ = self.ovf
            self.ovf_false = (bi, switch_edge(t, 0))
            others = [bb for v, bb in t['targets'] if v != 0] + ([t['otherwise']] if not any(v == 0 for v, _ in t['targets']) or True else [])
            tr = [bb for bb in ([bb for v, bb in t['targets'] if v != 0] + [t['otherwise']]) if bb != self.ovf_false[1]]
            self.ovf_true = (bi, tr[0]) if tr else None

    def _verdict_switch(self):
        """the switch that inspects the AEAD call's result, and its 'AEAD said Ok' edge"""
        a = self.a
        site_bi = self.bi

        def derived_from_result(t):
            # the AEAD call term itself, possibly through map_err / references / mem wrappers
            for s in walk(t):
                if isinstance(s, tuple) and s and s[0] == 'call' and len(s) > 3 and s[3] == site_bi and s[1].endswith(self.method):
                    return True
            return False
        self.verdict = None
        cands = []
        for bi, blk in enumerate(a.body.blocks):
            if blk['cleanup'] or bi not in a.cfg.reach:
                continue
            t = blk['term']
            if t['k'] != 'switch':
                continue
            d = a.val_op(t['discr'], a.term_point(bi))
            ok_edge = None
            form = None
            if d[0] == 'discr' and d[1][0] == 'try' and derived_from_result(d[1][1]):
                ok_edge, form = switch_edge(t, 0), '?'
            elif d[0] == 'discr' and derived_from_result(d[1]) and d[1][0] in ('call', 'mem'):
                ok_edge, form = switch_edge(t, 0), 'match'
            elif d[0] == 'call' and d[1] in ('core::result::Result::is_err', 'core::result::Result::is_ok'):
                arg = d[2][0]
                av = a.deref_val(arg, a.term_point(bi)) if arg[0] == 'addr' else arg
                if derived_from_result(av) or derived_from_result(arg):
                    if d[1].endswith('is_err'):
                        ok_edge, form = switch_edge(t, 0), 'is_err'
                    else:
                        # is_ok: the Ok edge is the non-zero one
                        nz = [bb for v, bb in t['targets'] if v != 0] + [t['otherwise']]
                        nz = [bb for bb in nz if bb != switch_edge(t, 0)] or nz
                        ok_edge, form = nz[0], 'is_ok'
            if ok_edge is not None:
                cands.append((bi, t, ok_edge, form, d))
        if len(cands) == 1:
            self.verdict = cands[0]
        self.verdict_cands = cands


def check_be_encoder(rep, facts, key, nbytes, rule):
    """R02.3: function `key`(buf: &mut [u8], n: uN) writes the big-endian encoding of n into buf[0..N)"""
    a = get_an(facts, key)
    fn = key
    if a is None:
        rep.anchor_lost(rule, 'encoder body ' + key, 'a local big-endian encoder', 'no body')
        return False
    ity = a.body.local_ty(2) if a.body.arg_count >= 2 else None
    if a.body.arg_count != 2 or WIDTH.get(ity) != 8 * nbytes:
        rep.bad(rule, fn, 'signature', 'params: %s' % [a.body.local_ty(i) for i in range(1, a.body.arg_count + 1)],
                'fn(&mut [u8], u%d)' % (8 * nbytes), where(a))
        return False
    inputs = {('param', 2): ('n', 8 * nbytes)}
    written = {}
    okall = True
    for site, pl in a.deref_stores:
        if pl['l'] != 1:
            continue
        base, path = a.place_desc(pl, site)
        st = a.stmt_at(site)
        if base != ('pointee', ('param', 1)) or len(path) != 1 or path[0][0] != 'i':
            rep.undecided(rule, fn, 'store-shape', 'store to %s' % a.body.pp_place(pl), 'buf[const i] = byte', where(a, site))
            okall = False
            continue
        idx = path[0][1]
        if idx[0] != 'const' or not isinstance(idx[2], int):
            if len(a.deref_stores) == 1 and _payload_path(idx)[1] is not None:
                continue            # buf[position of a loop]: decided by the loop form below
            rep.undecided(rule, fn, 'store-index', pp(idx), 'constant index', where(a, site))
            okall = False
            continue
        i = idx[2]
        v = a.val_rv(st['rv'], site)
        bs = bits(v, inputs)
        good = be_byte_ok(bs, 'n', nbytes, i) if i < nbytes else False
        if i in written:
            good = False
        written[i] = site
        # the store must execute on every path to the return
        dom = all(a.cfg.dominates(site[0], r) for r in a.cfg.returns)
        rep.check(good and dom, rule, fn, 'byte[%d]' % i,
                  'buf[%d] = %s ; bits=%s ; on-all-paths=%s' % (i, pp(v), _bits_s(bs), dom),
                  'buf[%d] = bits [%d..%d) of n (big-endian byte %d of %d)' % (i, 8 * (nbytes - 1 - i), 8 * (nbytes - i), i, nbytes),
                  where(a, site))
        okall = okall and good and dom
    # alternative idiom: buf.copy_from_slice(&n.to_be_bytes())
    if not written:
        ws = a.writer_sites()
        alt = False
        for bi, t, c in a.calls(lambda c: c['name'] == 'copy_from_slice'):
            dst = a.arg_val(bi, 0)
            src = a.arg_pointee(bi, 1)
            if dst == ('param', 1) and src[0] == 'call' and src[1].endswith('::to_be_bytes') and src[2] == (('param', 2),):
                alt = True
                rep.ok(rule, fn, 'to_be_bytes', 'buf.copy_from_slice(&n.to_be_bytes())')
            elif dst == ('param', 1) and src[0] == 'agg' and src[1] == 'array' and len(src[3]) == nbytes and \
                    all(a.cfg.dominates(bi, r) for r in a.cfg.returns) and len(a.calls(lambda c: c['name'] == 'copy_from_slice')) == 1:
                # buf.copy_from_slice(&[b0, b1, …]): the same bit-provenance test per element
                alt = True
                for k, e in enumerate(src[3]):
                    bs = bits(e, inputs)
                    good = be_byte_ok(bs, 'n', nbytes, k)
                    rep.check(good, rule, fn, 'byte[%d]' % k, 'array element %d = %s ; bits=%s' % (k, pp(e)[:120], _bits_s(bs)),
                              'element %d = bits [%d..%d) of n (big-endian byte %d of %d)' % (k, 8 * (nbytes - 1 - k), 8 * (nbytes - k), k, nbytes),
                              where(a, a.term_point(bi)))
                    okall = okall and good
                if not okall:
                    return False
        if not alt and _loop_encoder(rep, facts, a, nbytes, rule, inputs):
            return True
        if not alt:
            rep.undecided(rule, fn, 'no-stores', 'no recognised byte stores', 'N indexed stores or copy_from_slice(to_be_bytes)', where(a))
            return False
        return True
    missing = [i for i in range(nbytes) if i not in written]
    extra = [i for i in written if i >= nbytes]
    rep.check(not missing and not extra, rule, fn, 'coverage', 'bytes written: %s' % sorted(written),
              'exactly bytes 0..%d' % (nbytes - 1), where(a))
    # no other writer of the buffer
    others = []
    for bi, t, c in a.calls():
        if c and c['name'] in ('deref_mut', 'index_mut', 'len', 'assert_failed'):
            continue
        for x, ty in zip(t['args'], t['arg_tys']):
            if '&mut' in ty:
                others.append(c['path'] if c else '?')
    rep.check(not others, rule, fn, 'no-other-writer', 'calls receiving &mut: %s' % others, 'none', where(a))
    return okall and not missing and not extra and not others


def _subst_loop_index(t, nx_site, lay, k):
    """the term t with the loop's position (the `index` payload of the next() at nx_site) replaced by the constant k, refolded"""
    if not isinstance(t, tuple) or not t:
        return t
    if t[0] == 'field':
        pth, nx = _payload_path(t)
        if nx is not None and nx[3] == nx_site and lay.get(pth) == ('index',):
            return ('const', 'usize', k)
    new = tuple(_subst_loop_index(x, nx_site, lay, k) for x in t)
    if new[0] == 'bin' and len(new) == 4 and isinstance(new[2], tuple) and isinstance(new[3], tuple):
        return fold_bin(new[1], new[2], new[3])
    if new[0] == 'cast' and len(new) == 4 and new[1] == 'IntToInt' and isinstance(new[3], tuple) and new[3][0] == 'const' \
            and isinstance(new[3][2], int) and not isinstance(new[3][2], bool) and new[2] in WIDTH and new[3][2] >= 0:
        return ('const', new[2], new[3][2] & ((1 << WIDTH[new[2]]) - 1))
    return new


def _loop_encoder(rep, facts, a, nbytes, rule, inputs):
    """the encoder written as ONE loop over the whole output buffer: `for (i, b) in buf.iter_mut().enumerate() { *b = f(n, i) }`
    or `for i in 0..buf.len() { buf[i] = f(n, i) }`, after `assert_eq!(buf.len(), N)`.  The loop is decided by evaluating f at
    every position 0..N (the position substituted and folded, then the same bit-provenance test as for straight-line stores).
    Returns True when every obligation held, None when the shape is another one (the caller reports it)."""
    from .common import explicit_len_guard
    fn = a.body.key
    stores = []
    for site, pl in a.deref_stores:
        base, path = a.place_desc(pl, site)
        stores.append((site, pl, base, path))
    if len(stores) != 1:
        return None
    site, pl, base, path = stores[0]
    st = a.stmt_at(site)
    if st.get('k') != 'assign':
        return None
    # where the store goes: the element handed out by the iterator, or buf[position]
    if pl['p'] == ['deref'] and pl['l'] != 1:
        pth, nx = _payload_path(a.val_local(pl['l'], site))
        lay = _iter_layout(a, nx) if nx is not None else None
        if lay is None or lay[0].get(pth) != ('elem', ('param', 1)):
            return None
    elif base == ('pointee', ('param', 1)) and len(path) == 1 and path[0][0] == 'i':
        pth, nx = _payload_path(path[0][1])
        lay = _iter_layout(a, nx) if nx is not None else None
        if lay is None or lay[0].get(pth) != ('index',):
            return None
    else:
        return None
    layout, drivers = lay
    nsite = nx[3]
    ok = True
    # the loop runs over the whole buffer, whose length is asserted to be exactly N before the loop
    whole = bool(drivers) and all(d == ('param', 1) for d in drivers)
    g = explicit_len_guard(a, facts, 1)
    asserted = g is not None and g['n'] == ('const', 'usize', nbytes) and not g['ne_returns'] and \
        all(a.cfg.edge_dominates(g['eq_edge'][0], g['eq_edge'][1], r) for r in a.cfg.returns) and \
        a.cfg.edge_dominates(g['eq_edge'][0], g['eq_edge'][1], nsite)
    rep.check(whole and asserted, rule, fn, 'loop-length', 'loop over %s; assert len == %s' % ([pp(d) for d in drivers], pp(g['n']) if g else None),
              'one loop over the whole of buf, after assert_eq!(buf.len(), %d)' % nbytes, where(a, site))
    ok = ok and whole and asserted
    # every iteration stores, and the only way out of the loop is the iterator running dry
    sw = [b2 for b2 in a.cfg.reach if a.body.blocks[b2]['term']['k'] == 'switch'
          and (lambda d: d[0] == 'discr' and d[1][0] == 'call' and d[1][3] == nsite)(a.val_op(a.body.blocks[b2]['term']['discr'], a.term_point(b2)))]
    shape = False
    if len(sw) == 1:
        t2 = a.body.blocks[sw[0]]['term']
        none_t, some_t = switch_edge(t2, 0), switch_edge(t2, 1)
        backs = [u for (u, v) in a.cfg.back_edges() if a.cfg.dominates(v, nsite) or v == nsite]
        shape = none_t != some_t and all(a.cfg.edge_dominates(sw[0], none_t, r) for r in a.cfg.returns) and \
            a.cfg.edge_dominates(sw[0], some_t, site[0]) and bool(backs) and all(a.cfg.dominates(site[0], u) for u in backs)
    rep.check(shape, rule, fn, 'loop-shape', 'exit only when next() is None: %s' % shape,
              'the store executes in every iteration and the loop ends only when the buffer is exhausted', where(a, site))
    ok = ok and shape
    v = a.val_rv(st['rv'], site)
    for k in range(nbytes):
        vk = _subst_loop_index(v, nsite, layout, k)
        bs = bits(vk, inputs)
        good = be_byte_ok(bs, 'n', nbytes, k)
        rep.check(good, rule, fn, 'byte[%d]' % k, 'buf[%d] = %s ; bits=%s' % (k, pp(vk), _bits_s(bs)),
                  'buf[%d] = bits [%d..%d) of n (big-endian byte %d of %d)' % (k, 8 * (nbytes - 1 - k), 8 * (nbytes - k), k, nbytes), where(a, site))
        ok = ok and good
    others = []
    for bi, t, c in a.calls():
        if c and c['name'] in ('deref_mut', 'index_mut', 'len', 'assert_failed', 'iter_mut', 'enumerate', 'into_iter', 'next'):
            continue
        for x, ty in zip(t['args'], t['arg_tys']):
            if '&mut' in ty:
                others.append(c['path'] if c else '?')
    rep.check(not others, rule, fn, 'no-other-writer', 'calls receiving &mut: %s' % others, 'none', where(a))
    return ok and not others


def _bits_s(bs):
    if bs is None:
        return 'unknown'
    out = []
    for b in reversed(bs):
        if isinstance(b, tuple):
            out.append('%s%d' % (b[1], b[2]))
        else:
            out.append(str(b))
    return '[' + ' '.join(out) + ']'


def seq_adt_width(facts):
    adt = facts.adts.get('aead::Seq')
    if not adt or len(adt['variants']) != 1:
        return None, 'aead::Seq not found'
    fs = adt['variants'][0]['fields']
    if len(fs) != 1:
        return None, 'Seq has %d fields' % len(fs)
    return WIDTH.get(fs[0]['ty']), fs[0]['ty']


def is_zero_init(facts, t, depth=0):
    """term denotes an all-zero buffer: Default::default of a byte array / newtype around one, [0; N]"""
    if depth > 4:
        return False
    if t[0] == 'repeat':
        return t[1][0] == 'const' and t[1][2] == 0
    if t[0] == 'const' and isinstance(t[2], int):
        return t[2] == 0
    if t[0] == 'agg' and t[1] == 'adt' and len(t[3]) == 1:
        return is_zero_init(facts, t[3][0], depth + 1)
    if t[0] == 'call' and t[1] == 'core::default::Default::default':
        info = t[4]
        if info and info[3]:
            a = get_an(facts, info[3])
            if a is not None:
                return is_zero_init(facts, a.ret_val(), depth + 1)
            return False
        # external Default: GenericArray<u8, N> / integers / arrays of u8
        self_ty = info[2] if info else ''
        return self_ty.startswith('generic_array::GenericArray<u8,') or self_ty in WIDTH or self_ty.startswith('[u8;')
    return False


def check_nonce_helper(rep, facts, hkey, base_idx, seq_idx, rule):
    """R04.1 on the nonce helper `hkey`(.., base_nonce @ param base_idx, seq @ param seq_idx)"""
    a = get_an(facts, hkey)
    fn = hkey
    if a is None:
        rep.anchor_lost(rule, 'nonce helper ' + hkey, 'local nonce helper', 'no body')
        return False
    rt = a.ret_val()
    # unwrap newtype
    inner = rt
    if inner[0] == 'agg' and inner[1] == 'adt' and len(inner[3]) == 1:
        inner = inner[3][0]
    # peel unwrap(from_exact_iter(map(zip(iter A, iter B), closure)))
    shape_ok = False
    A = B = clos = None
    t = inner
    if t[0] == 'call' and t[1] in ('core::option::Option::unwrap', 'core::option::Option::expect'):
        t = t[2][0]
    if t[0] == 'call' and t[1].endswith('::from_exact_iter'):
        t = t[2][0]
        if t[0] == 'call' and t[1] == 'core::iter::Iterator::map':
            z, clos = t[2][0], t[2][1]
            if z[0] == 'call' and z[1] == 'core::iter::Iterator::zip':
                x, y = z[2]
                if x[0] == 'call' and x[1].endswith('::iter') and y[0] == 'call' and y[1].endswith('::iter'):
                    A, B = (x[2][0], x[3]), (y[2][0], y[3])
                    shape_ok = True
    fs_form = False
    if not shape_ok and inner[0] == 'call' and inner[1] == 'generic_array::functional::FunctionalSequence::zip' and len(inner[2]) == 3:
        # generic-array's own elementwise combinator: `a.zip(b, |x, y| x ^ y)` over two arrays of the same type-level length
        A, B, clos = (inner[2][0], inner[3]), (inner[2][1], inner[3]), inner[2][2]
        shape_ok = fs_form = True
    if not shape_ok:
        loop = _nonce_zip_loop_form(rep, facts, a, rt, base_idx, rule)
        if loop is None:
            loop = _nonce_elementwise_form(rep, facts, a, rt, base_idx, rule)
        if loop is None:
            loop = _nonce_loop_form(rep, facts, a, rt, base_idx, rule)
        if loop is None:
            tail = _nonce_tail_xor_form(rep, facts, a, rt, base_idx, seq_idx, rule)
            if tail is not None:
                return tail
        if loop is None:
            rep.undecided(rule, fn, 'xor-shape', pp(rt)[:300],
                          'AeadNonce(from_exact_iter(base.iter().zip(buf.iter()).map(|(a,b)| a ^ b)).unwrap()) or `for i in 0..len { buf[i] ^= base[i] }`', where(a))
            return False
        l, init, enc_writer = loop
        same_ty = a.body.local_ty(l) == a.body.local_ty(base_idx).lstrip('&').strip()
        rep.check(is_zero_init(facts, init), rule, fn, 'buffer-zeroed', pp(init)[:120], 'zero-initialised buffer', where(a))
        rep.check(same_ty, rule, fn, 'buffer-type', '%s vs %s' % (a.body.local_ty(l), a.body.local_ty(base_idx)),
                  'counter buffer has the base nonce\'s type (same length)', where(a))
        return _check_counter_writer(rep, facts, a, fn, l, enc_writer, base_idx, seq_idx, same_ty, rule)
    cr = closure_ret(facts, clos)
    xor_ok = (cr is not None and cr[0] == 'call' and cr[1] == 'core::ops::BitXor::bitxor'
              and {pp(cr[2][0]), pp(cr[2][1])} == ({'p2', 'p3'} if fs_form else {'p2.0', 'p2.1'}))
    rep.check(xor_ok, rule, fn, 'xor-closure', pp(cr) if cr else 'none', 'bitxor of the two zipped bytes', where(a))
    # which side is the base nonce, which is the counter buffer
    sides = []
    for ref, bsite in (A, B):
        base, fs = addr_fields(ref)
        sides.append((ref, bsite, base, fs))
    base_side = [s for s in sides if s[2] == ('param', base_idx)]
    buf_side = [s for s in sides if s[2][0] == 'local']
    if len(base_side) != 1 or len(buf_side) != 1:
        rep.bad(rule, fn, 'xor-operands', '%s ^ %s' % (pp(A[0]), pp(B[0])),
                'one operand is the whole base nonce parameter, the other a local counter buffer', where(a))
        return False
    rep.ok(rule, fn, 'xor-operands', '%s ^ %s' % (pp(A[0]), pp(B[0])))
    # both are whole buffers of the same nonce type (no sub-slicing)
    whole = all(all(e[0] == 'f' for e in s[0][2]) for s in (base_side[0], buf_side[0]) if s[0][0] == 'addr')
    rep.check(whole, rule, fn, 'xor-whole', '%s, %s' % (pp(base_side[0][0]), pp(buf_side[0][0])), 'no sub-slice on either side', where(a))
    # the counter buffer at the time it is iterated
    ref, bsite, base, fs = buf_side[0]
    l = base[1]
    bufv = a.val_local(l, a.term_point(bsite))
    if bufv[0] != 'mem':
        rep.bad(rule, fn, 'counter-buffer', pp(bufv)[:200], 'a zeroed nonce-sized buffer with the counter written into it', where(a))
        return False
    init, writers = bufv[2], bufv[3]
    rep.check(is_zero_init(facts, init), rule, fn, 'buffer-zeroed', pp(init)[:120], 'zero-initialised buffer', where(a))
    same_ty = a.body.local_ty(l) == a.body.local_ty(base_idx).lstrip('&').strip()
    rep.check(same_ty, rule, fn, 'buffer-type', '%s vs %s' % (a.body.local_ty(l), a.body.local_ty(base_idx)),
              'counter buffer has the base nonce\'s type (same length)', where(a))
    if len(writers) != 1 or writers[0][2][0] != 'call' or not writers[0][3]:
        rep.bad(rule, fn, 'single-writer', '; '.join(pp(('mem', l, init, (w,), ()))[:200] for w in writers),
                'exactly one writer (the big-endian encoder) that executes on every path', where(a))
        return False
    return _check_counter_writer(rep, facts, a, fn, l, writers[0], base_idx, seq_idx, same_ty, rule)


def _check_counter_writer(rep, facts, a, fn, l, writer, base_idx, seq_idx, same_ty, rule):
    wsite, wpath, wdesc, _ = writer
    enc_path, enc_args, enc_argidx, enc_info = wdesc[1], wdesc[2], wdesc[3], wdesc[4]
    enc_key = enc_info[3] if enc_info else None
    seqw, seqty = seq_adt_width(facts)
    rep.check(seqw == 64, rule, 'aead::Seq', 'seq-width', 'Seq(%s)' % seqty, 'Seq wraps a u64', None)
    nbytes = (seqw or 64) // 8
    enc_ok = enc_key is not None and check_be_encoder(rep, facts, enc_key, nbytes, 'R02.3')
    rep.check(enc_ok, rule, fn, 'encoder', 'writer %s' % enc_path, 'a verified big-endian u%d encoder (R02.3)' % (8 * nbytes), where(a, wsite))
    # value written = seq.0 unmodified
    val = enc_args[1] if len(enc_args) > 1 else ('unknown', 'no value arg')
    vb, vf = load_path_fields(val)
    rep.check(vb == ('param', seq_idx) and vf == ['0'] and not contains(val, lambda s: isinstance(s, tuple) and s[:1] == ('cast',)),
              rule, fn, 'counter-value', pp(val), 'seq.0 (the full u64, no cast)', where(a, wsite))
    # position: [len - 8 ..] of the buffer's byte field
    slices = [e for e in wpath if e[0] == 'slice']
    pos_ok = False
    found = pp(('addr', ('local', l), wpath, True))
    if len(slices) == 2 and slices[0][2] is None and slices[1][1] is None and slices[0][1] is not None and slices[1][2] is not None:
        # buf[a..][..n] is buf[a..a + n]; with a = len - n that is buf[len - n..]
        a_, n_ = slices[0][1], slices[1][2]
        if a_[0] == 'bin' and a_[1] == 'Sub' and strip_sites_(a_[3]) == strip_sites_(n_) and a_[2][0] == 'len':
            lb_, lf_ = addr_fields(a_[2][1])
            if (lb_ == ('param', base_idx) or lb_ == ('local', l)) and same_ty:
                slices = [('slice', a_, None)]
    if len(slices) == 1 and slices[0][1] is not None and slices[0][2] is not None and slices[0][2][0] == 'bin' and slices[0][2][1] == 'Add' and same_ty:
        # buf[a..][..n] composed by mk_slice to buf[a..a + n]; with a = len - n (len of the base nonce or of the buffer: same type)
        a_, h_ = slices[0][1], slices[0][2]
        if strip_sites_(h_[2]) == strip_sites_(a_) and a_[0] == 'bin' and a_[1] == 'Sub' and strip_sites_(a_[3]) == strip_sites_(h_[3]) and a_[2][0] == 'len':
            lb_, lf_ = addr_fields(a_[2][1])
            if lb_ == ('param', base_idx) or lb_ == ('local', l):
                slices = [('slice', a_, None)]
    if len(slices) == 1 and slices[0][2] is not None and slices[0][2][0] == 'len' and same_ty:
        # buf[a..base_nonce.0.len()]: the base nonce and the buffer have the same fixed-size type, so that is buf[a..]
        hb_, _hf = addr_fields(slices[0][2][1])
        if hb_ == ('param', base_idx) or hb_ == ('local', l):
            slices = [('slice', slices[0][1], None)]
    if len(slices) == 1 and slices[0][2] is None:
        lo = slices[0][1]
        if lo[0] == 'bin' and lo[1] == 'Sub':
            ln, k = lo[2], lo[3]
            kval = None
            if k[0] == 'const' and isinstance(k[2], int):
                kval = k[2]
            elif k[0] == 'call' and k[1] == 'core::mem::size_of':
                from .common import size_of_term
                kval = size_of_term(facts, k)
            len_ok = False
            if ln[0] == 'len':
                lb, lf = addr_fields(ln[1])
                # len of the base nonce bytes, or of the buffer itself: same type => same length
                len_ok = (lb == ('param', base_idx)) or (lb == ('local', l))
            pos_ok = kval == nbytes and len_ok and same_ty
    rep.check(pos_ok, rule, fn, 'counter-position', found,
              'the %d bytes ending at the end of the nonce buffer: buf[len-%d ..]' % (nbytes, nbytes), where(a, wsite))
    return True


def _iter_layout(a, nxt):
    """what one `next()` of a loop iterator hands out: {projection path of the Some payload: ('elem', buffer ref term) | ('index',)}
    plus the buffer refs whose whole length the loop runs over; None if the iterator is not understood"""
    it = a.deref_val(nxt[2][0], a.term_point(nxt[3]))
    src = it[2] if it[0] == 'mem' else it
    while src[0] == 'call' and src[1] == 'core::iter::IntoIterator::into_iter' and len(src[2]) == 1:
        src = src[2][0]

    def leaf(x):
        if x[0] == 'call' and (x[1].endswith('::iter_mut') or x[1].endswith('::iter')) and len(x[2]) == 1 and 'slice' in x[1] or \
                (x[0] == 'call' and x[1].rsplit('::', 1)[-1] in ('iter', 'iter_mut') and len(x[2]) == 1):
            return x[2][0]
        return None
    out = {}
    drivers = []
    if src[0] == 'call' and src[1] == 'core::iter::Iterator::enumerate' and len(src[2]) == 1:
        b = leaf(src[2][0])
        if b is None:
            return None
        out[('0',)] = ('index',)
        out[('1',)] = ('elem', b)
        drivers.append(b)
    elif src[0] == 'call' and src[1] == 'core::iter::Iterator::zip' and len(src[2]) == 2:
        def zipped(x, prefix):
            # zip(zip(a, b), c) hands out ((a, b), c): paths ('0','0'), ('0','1'), ('1',)
            if x[0] == 'call' and x[1] == 'core::iter::Iterator::zip' and len(x[2]) == 2:
                return zipped(x[2][0], prefix + ('0',)) and zipped(x[2][1], prefix + ('1',))
            if x[0] == 'call' and x[1] == 'core::iter::Iterator::enumerate' and len(x[2]) == 1:
                b = leaf(x[2][0])
                if b is None:
                    return False
                out[prefix + ('0',)] = ('index',)
                out[prefix + ('1',)] = ('elem', b)
                drivers.append(b)
                return True
            b = leaf(x)
            if b is None:
                return False
            out[prefix] = ('elem', b)
            drivers.append(b)
            return True
        if not zipped(src, ()):
            return None
    elif src[0] == 'agg' and src[2] == 'core::ops::Range::Range':
        f = dict(zip(src[4], src[3]))
        if f.get('start') != ('const', 'usize', 0) or not f.get('end') or f['end'][0] != 'len':
            return None
        out[()] = ('index',)
        drivers.append(f['end'][1])
    else:
        b = leaf(src)
        if b is None:
            return None
        out[()] = ('elem', b)
        drivers.append(b)
    return out, drivers


def _payload_path(t):
    """t = projection (fields) of the Some payload of a next() call -> (path tuple, next call term) or (None, None)"""
    path = []
    x = t
    while x[0] == 'field' and x[1].isdigit():
        if x[2][0] == 'variant' and x[2][1] == 'Some' and x[1] == '0':
            c = x[2][2]
            if c[0] == 'call' and c[1] == 'core::iter::Iterator::next':
                return tuple(reversed(path)), c
            return None, None
        path.append(x[1])
        x = x[2]
    return None, None


def _nonce_elementwise_form(rep, facts, a, rt, base_idx, rule):
    """out[k] = base[k] ^ buf[k] for every position k of one loop — whatever the positions are spelled with (zip, enumerate +
    indexing, a range index) and whether the result is the counter buffer itself or a third zeroed buffer.
    -> (counter buffer local, its init, encoder writer) or None (silent when the shape is another one)"""
    if rt[0] != 'mem' or rt[4]:
        return None
    l_out, init_out, writers = rt[1], rt[2], rt[3]
    enc = [w for w in writers if w[2][0] == 'call']
    sts = [w for w in writers if w[2][0] in ('store?', 'store')]
    if len(sts) != 1 or len(enc) > 1 or len(writers) != len(enc) + 1:
        return None
    ssite = sts[0][0]
    st = a.stmt_at(ssite)
    if st.get('k') == 'assign' and st['rv'].get('k') == 'binop' and st['rv'].get('op') == 'BitXor':
        v = a.val_rv(st['rv'], ssite)
        dplace = st['place']
    elif st.get('k') == 'assign' and st['rv'].get('k') == 'use' and a.val_rv(st['rv'], ssite)[:2] == ('call', 'core::ops::BitXor::bitxor'):
        c_ = a.val_rv(st['rv'], ssite)
        if len(c_[2]) != 2:
            return None
        v = ('bin', 'BitXor') + tuple(('load', o, ()) if o[0] != 'load' else o for o in c_[2])
        dplace = st['place']
    elif st.get('k') == 'call' and ((st.get('func') or {}).get('fn') or {}).get('path') == 'core::ops::BitXor::bitxor' and len(st['args']) == 2:
        # `*out = a ^ b` on references: <&u8 as BitXor<&u8>>::bitxor(a, b) written straight into *out
        ops_ = [a.val_op(x, ssite) for x in st['args']]
        v = ('bin', 'BitXor') + tuple(('load', o, ()) if o[0] != 'load' else o for o in ops_)
        dplace = st['dest']
    else:
        return None

    def access(t, is_dest=False):
        """-> (buffer identity, next-call site) of an element access"""
        if is_dest:
            if dplace['p'] == ['deref']:
                ref = a.val_local(dplace['l'], ssite)
                pth, nx = _payload_path(ref)
                if nx is None:
                    return None
                lay = _iter_layout(a, nx)
                if lay is None or lay[0].get(pth, (None,))[0] != 'elem':
                    return None
                return _buf_id(lay[0][pth][1]), nx[3], lay
            wp = sts[0][1]
            if wp and len(wp) == 2 and wp[0] == ('f', '0') and wp[1][0] == 'i':
                pth, nx = _payload_path(wp[1][1])
                lay = _iter_layout(a, nx) if nx is not None else None
                if lay is None or lay[0].get(pth, (None,))[0] != 'index':
                    return None
                return ('local', l_out), nx[3], lay
            return None
        # operand: element read by index, or deref of an iterator item
        if t[0] == 'load' and not t[2]:
            pth, nx = _payload_path(t[1])
            if nx is None:
                return None
            lay = _iter_layout(a, nx)
            if lay is None or lay[0].get(pth, (None,))[0] != 'elem':
                return None
            return _buf_id(lay[0][pth][1]), nx[3], lay
        path = t[2] if t[0] == 'load' else (t[4] if t[0] == 'mem' else None)
        if path and path[-1][0] == 'i' and all(e[0] == 'f' for e in path[:-1]):
            pth, nx = _payload_path(path[-1][1])
            lay = _iter_layout(a, nx) if nx is not None else None
            if lay is None or lay[0].get(pth, (None,))[0] != 'index':
                return None
            base = t[1] if t[0] == 'load' else ('local', t[1])
            return (base if base[0] in ('param', 'local') else None), nx[3], lay
        return None

    def _buf_id(ref):
        b, fs = addr_fields(ref)
        return b if fs == ['0'] and b[0] in ('param', 'local') else None
    d = access(None, True)
    o1, o2 = access(v[2]), access(v[3])
    if d is None or o1 is None or o2 is None or None in (d[0], o1[0], o2[0]):
        return None
    if len({d[1], o1[1], o2[1]}) != 1:
        return None            # the three accesses are not tied to the same loop step
    fn = a.body.key
    bufs = {o1[0], o2[0]}
    base = ('param', base_idx)
    if base not in bufs:
        rep.bad(rule, fn, 'xor-loop-operands', '%s ^ %s' % (o1[0], o2[0]), 'one operand is the base nonce', where(a, ssite))
        return None
    other = (bufs - {base}).pop() if len(bufs) == 2 else None
    if other is None or other[0] != 'local':
        return None
    cl = other[1]
    if d[0] == ('local', cl) and enc:
        cinit, cenc = init_out, enc[0]                      # in place: the result is the counter buffer
    elif d[0] == ('local', l_out) and not enc and is_zero_init(facts, init_out):
        cv = a.val_local(cl, ssite)                          # a third buffer: the counter buffer is the other operand
        if cv[0] != 'mem' or cv[4]:
            return None
        cw = [w for w in cv[3] if w[2][0] == 'call']
        # the XOR store itself was resolved to the output buffer above: the coarse root analysis lists it for every buffer the
        # zipped iterator borrows, which is not a second writer of the counter buffer
        rest = [w for w in cv[3] if not (w[2][0] == 'store?' and w[0] == ssite)]
        if len(cw) != 1 or len(rest) != 1 or not cw[0][3]:
            return None
        cinit, cenc = cv[2], cw[0]
        if a.body.local_ty(cl) != a.body.local_ty(l_out):
            return None
    else:
        return None
    # the loop runs over a whole nonce-typed buffer
    lay = d[2]
    tys = set()
    for drv in lay[1]:
        b, fs = addr_fields(drv)
        if fs != ['0'] or b[0] not in ('param', 'local'):
            return None
        tys.add(a.body.local_ty(b[1]).lstrip('&').strip())
    if tys != {a.body.local_ty(cl)}:
        return None
    rep.ok(rule, fn, 'xor-loop-body', 'out[k] = base_nonce[k] ^ counter[k] for every position k of one loop over a nonce-sized buffer')
    rep.check(a.cfg.dominates(cenc[0][0], ssite[0]), rule, fn, 'xor-after-counter', 'encoder at bb%d, xor loop at bb%d' % (cenc[0][0], ssite[0]),
              'the counter is written before the XOR loop', where(a, ssite))
    return cl, cinit, cenc


def _nonce_zip_loop_form(rep, facts, a, rt, base_idx, rule):
    """`for (m, n) in buf.0.iter_mut().zip(base.0.iter()) { *m ^= *n }` (either zip order) after the counter has been
    written into buf: -> (buf local, init, encoder writer) or None.  Silent when the shape is a different one."""
    if rt[0] != 'mem' or rt[4]:
        return None
    l, init, writers = rt[1], rt[2], rt[3]
    calls = [w for w in writers if w[2][0] == 'call']
    unk = [w for w in writers if w[2][0] == 'store?']
    if len(calls) != 1 or len(unk) != 1 or len(writers) != 2 or not calls[0][3]:
        return None
    ssite = unk[0][0]
    st = a.stmt_at(ssite)
    if st.get('k') != 'assign' or st['place']['p'] != ['deref'] or st['rv'].get('k') != 'binop' or st['rv'].get('op') != 'BitXor':
        return None
    mref = a.val_local(st['place']['l'], ssite)
    v = a.val_rv(st['rv'], ssite)
    ops = [v[2], v[3]]

    def pair_side(r):
        # r = field k of the Some payload of Iterator::next(&mut it)
        if r[0] == 'field' and r[1] in ('0', '1') and r[2][0] == 'field' and r[2][1] == '0' and r[2][2][0] == 'variant' and r[2][2][1] == 'Some' and \
                r[2][2][2][0] == 'call' and r[2][2][2][1] == 'core::iter::Iterator::next':
            return int(r[1]), r[2][2][2]
        return None, None
    km, nxt = pair_side(mref)
    if km is None:
        return None
    loads = []
    for x in ops:
        if x[0] == 'load' and not x[2]:
            k, n2 = pair_side(x[1])
            if k is not None and n2[3] == nxt[3]:
                loads.append(k)
    if sorted(loads) != [0, 1]:
        return None
    nb = nxt[3]
    it = a.deref_val(a.arg_val(nb, 0), a.term_point(nb))
    src = it[2] if it[0] == 'mem' else it
    while src[0] == 'call' and src[1] == 'core::iter::IntoIterator::into_iter':
        src = src[2][0]
    if not (src[0] == 'call' and src[1] == 'core::iter::Iterator::zip' and len(src[2]) == 2):
        return None
    sides = list(src[2])
    mside, oside = sides[km], sides[1 - km]
    okm = mside[0] == 'call' and mside[1].endswith('::iter_mut') and mside[2][0][0] == 'addr' and mside[2][0][1] == ('local', l) and \
        all(e[0] == 'f' for e in mside[2][0][2])
    b, fs = addr_fields(oside[2][0]) if oside[0] == 'call' and oside[1].endswith('::iter') else (None, None)
    oko = b == ('param', base_idx) and fs == ['0']
    fn = a.body.key
    if not (okm and oko):
        rep.bad(rule, fn, 'xor-loop-operands', '%s zip %s' % (pp(mside)[:80], pp(oside)[:80]),
                'the whole counter buffer (iter_mut) zipped with the whole base nonce (iter)', where(a, ssite))
        return None
    rep.ok(rule, fn, 'xor-loop-body', '*m ^= *n over buf.iter_mut().zip(base_nonce.iter()) (equal lengths by type)')
    rep.check(a.cfg.dominates(calls[0][0][0], ssite[0]), rule, fn, 'xor-after-counter', 'encoder at bb%d, xor loop at bb%d' % (calls[0][0][0], ssite[0]),
              'the counter is written before the XOR loop', where(a, ssite))
    return l, init, calls[0]


def _nonce_tail_xor_form(rep, facts, a, rt, base_idx, seq_idx, rule):
    """nonce = base_nonce.clone(); for (n, s) in nonce.0[len - 8..].iter_mut().zip(seq_bytes.iter()) { *n ^= *s } with seq_bytes the
    8-byte big-endian counter: the leading bytes of I2OSP(seq, Nn) are zero, so only the tail is touched.
    -> True / False once the shape is recognised (every obligation reported), None for another shape"""
    from ..tyutil import array_len
    fn = a.body.key
    if rt[0] != 'mem' or rt[4] or len(rt[3]) != 1:
        return None
    w0 = rt[3][0]
    via_call = w0[2][0] in ('call', 'call?') and w0[2][1] == 'core::ops::BitXorAssign::bitxor_assign' and len(w0[2][2]) == 2
    if w0[2][0] not in ('store?', 'store') and not via_call:
        return None
    l_out, init = rt[1], rt[2]
    inner = init[3][0] if init[0] == 'agg' and init[1] == 'adt' and len(init[3]) == 1 else init
    is_copy = inner[0] == 'call' and inner[1] == 'core::clone::Clone::clone' and len(inner[2]) == 1 and \
        addr_fields(inner[2][0]) == (('param', base_idx), ['0'])
    if not is_copy:
        return None
    ssite = rt[3][0][0]
    st = a.stmt_at(ssite)
    if via_call:
        # `*n ^= s` through the operator trait: <u8 as BitXorAssign<_>>::bitxor_assign(n, s) with n the element handed out by
        # iter_mut and s the other element (by reference or by value)
        d_arg, s_arg = w0[2][2]
        pth_d, nx = _payload_path(d_arg)
        s_t = s_arg[1] if (s_arg[0] == 'load' and not s_arg[2]) else s_arg
        v = ('bin', 'BitXor', ('load', d_arg, ()), ('load', s_t, ()))
    else:
        if not (st.get('k') == 'assign' and st['rv'].get('k') == 'binop' and st['rv'].get('op') == 'BitXor' and st['place']['p'] == ['deref']):
            return None
        v = a.val_rv(st['rv'], ssite)
        pth_d, nx = _payload_path(a.val_local(st['place']['l'], ssite))
    lay = _iter_layout(a, nx) if nx is not None else None
    if lay is None or len(lay[1]) != 2:
        return None
    ops = []
    for o in (v[2], v[3]):
        if not (o[0] == 'load' and not o[2]):
            return None
        pth, n2 = _payload_path(o[1])
        if n2 is None or n2[3] != nx[3] or lay[0].get(pth, (None,))[0] != 'elem':
            return None
        ops.append(pth)
    if pth_d not in ops or len(set(ops)) != 2:
        return None
    other = [p_ for p_ in ops if p_ != pth_d][0]
    dref, sref = lay[0][pth_d][1], lay[0][other][1]
    ok = True
    # destination: the last 8 bytes of the copy of the base nonce
    seqw, seqty = seq_adt_width(facts)
    nbytes = (seqw or 64) // 8
    rep.check(seqw == 64, rule, 'aead::Seq', 'seq-width', 'Seq(%s)' % seqty, 'Seq wraps a u64', None)
    dpos = False
    if dref[0] == 'addr' and dref[1] == ('local', l_out) and len(dref[2]) == 2 and dref[2][0] == ('f', '0') and dref[2][1][0] == 'slice' and dref[2][1][2] is None:
        lo = dref[2][1][1]
        if lo is not None and lo[0] == 'bin' and lo[1] == 'Sub' and lo[2][0] == 'len':
            lb, lf = addr_fields(lo[2][1])
            k = lo[3]
            kval = k[2] if k[0] == 'const' and isinstance(k[2], int) else None
            if k[0] == 'call' and k[1] == 'core::mem::size_of':
                from .common import size_of_term
                kval = size_of_term(facts, k)
            if k[0] == 'len' and k[1][0] == 'addr' and k[1][1][0] == 'local' and not k[1][2]:
                kval = array_len(a.body.local_ty(k[1][1][1]))
            dpos = kval == nbytes and lf == ['0'] and (lb == ('local', l_out) or lb == ('param', base_idx))
    rep.check(dpos, rule, fn, 'counter-position', pp(dref)[:200], 'the XOR runs over nonce[len - %d ..] of the copied base nonce' % nbytes, where(a, ssite))
    ok = ok and dpos
    # source: a whole local 8-byte array whose only writer is the verified big-endian encoder applied to seq.0
    sl = sref[1][1] if sref[0] == 'addr' and sref[1][0] == 'local' and not sref[2] else None
    sok = sl is not None and array_len(a.body.local_ty(sl)) == nbytes
    rep.check(sok, rule, fn, 'counter-buffer', pp(sref)[:120], 'a whole local [u8; %d] holding the counter' % nbytes, where(a, ssite))
    if not sok:
        return False
    cv = a.val_local(sl, ssite)
    # the XOR store was resolved above to the nonce tail (the element handed out by iter_mut); the coarse root analysis lists it
    # for every buffer the zipped iterator borrows, the counter array is only borrowed shared (iter)
    cw = [w for w in cv[3] if not (w[0] == ssite and (w[2][0] == 'store?' or (via_call and w[2][0] in ('call', 'call?') and w[2][1] == 'core::ops::BitXorAssign::bitxor_assign')))] \
        if cv[0] == 'mem' and not cv[4] else []
    one = len(cw) == 1 and cw[0][2][0] == 'call' and cw[0][3] and not cw[0][1]
    rep.check(one, rule, fn, 'single-writer', pp(cv)[:200], 'exactly one writer of the whole counter array (the big-endian encoder), on every path', where(a, ssite))
    if not one:
        return False
    wsite, wpath, wdesc, _ = cw[0]
    enc_info = wdesc[4]
    enc_key = enc_info[3] if enc_info else None
    enc_ok = enc_key is not None and check_be_encoder(rep, facts, enc_key, nbytes, 'R02.3')
    rep.check(enc_ok, rule, fn, 'encoder', 'writer %s' % wdesc[1], 'a verified big-endian u%d encoder (R02.3)' % (8 * nbytes), where(a, wsite))
    val = wdesc[2][1] if len(wdesc[2]) > 1 else ('unknown', 'no value arg')
    vb, vf = load_path_fields(val)
    vok = vb == ('param', seq_idx) and vf == ['0'] and not contains(val, lambda x: isinstance(x, tuple) and x[:1] == ('cast',))
    rep.check(vok, rule, fn, 'counter-value', pp(val), 'seq.0 (the full u64, no cast)', where(a, wsite))
    after = a.cfg.dominates(wsite[0], ssite[0])
    rep.check(after, rule, fn, 'xor-after-counter', 'encoder at bb%d, xor loop at bb%d' % (wsite[0], ssite[0]), 'the counter is written before the XOR loop', where(a, ssite))
    # the loop: one loop, leaves only when the zip runs dry, the store runs in every iteration
    sw = [b2 for b2 in a.cfg.reach if a.body.blocks[b2]['term']['k'] == 'switch'
          and (lambda d: d[0] == 'discr' and d[1][0] == 'call' and d[1][3] == nx[3])(a.val_op(a.body.blocks[b2]['term']['discr'], a.term_point(b2)))]
    shape = False
    if len(sw) == 1 and len(a.cfg.back_edges()) == 1:
        t2 = a.body.blocks[sw[0]]['term']
        none_t, some_t = switch_edge(t2, 0), switch_edge(t2, 1)
        bk = a.cfg.back_edges()[0][0]
        shape = none_t != some_t and all(a.cfg.edge_dominates(sw[0], none_t, r) for r in a.cfg.returns) and \
            a.cfg.edge_dominates(sw[0], some_t, ssite[0]) and a.cfg.dominates(ssite[0], bk)
    rep.check(shape, rule, fn, 'xor-loop-body', 'nonce[len-%d+k] ^= counter[k] in every iteration of one loop: %s' % (nbytes, shape),
              'one plain loop over the zip of the nonce tail and the counter bytes', where(a, ssite))
    same_ty = a.body.local_ty(l_out) == a.body.local_ty(base_idx).lstrip('&').strip()
    rep.check(same_ty, rule, fn, 'buffer-type', '%s vs %s' % (a.body.local_ty(l_out), a.body.local_ty(base_idx)), 'the result has the base nonce\'s type', where(a))
    return bool(ok and enc_ok and vok and after and shape and same_ty)


def _nonce_loop_form(rep, facts, a, rt, base_idx, rule):
    """`for i in 0..len { buf.0[i] ^= base.0[i] }` after the counter has been written: -> (buf local, init, encoder writer)"""
    fn = a.body.key
    if rt[0] != 'mem' or rt[4]:
        return None
    l, init, writers = rt[1], rt[2], rt[3]
    calls = [w for w in writers if w[2][0] == 'call']
    stores = [w for w in writers if w[2][0] == 'store']
    if len(calls) != 1 or len(stores) != 1 or not calls[0][3]:
        return None
    ssite, spath, sdesc, _ = stores[0]
    if len(spath) != 2 or spath[0] != ('f', '0') or spath[1][0] != 'i':
        return None
    idx = spath[1][1]
    v = sdesc[1]
    # idx = Some payload of Iterator::next over Range { start: 0, end: len(base.0) | len(buf.0) }
    okidx = False
    if idx[0] == 'field' and idx[1] == '0' and idx[2][0] == 'variant' and idx[2][1] == 'Some' and idx[2][2][0] == 'call' and idx[2][2][1] == 'core::iter::Iterator::next':
        nb = idx[2][2][3]
        it = a.deref_val(a.arg_val(nb, 0), a.term_point(nb))
        src = it[2] if it[0] == 'mem' else it
        while src[0] == 'call' and src[1] == 'core::iter::IntoIterator::into_iter':
            src = src[2][0]
        if src[0] == 'agg' and src[2] == 'core::ops::Range::Range':
            f = dict(zip(src[4], src[3]))
            end = f.get('end')
            okend = False
            if end is not None and end[0] == 'len':
                b, fs = addr_fields(end[1])
                okend = (b == ('param', base_idx) or b == ('local', l)) and fs == ['0']
            okidx = f.get('start') == ('const', 'usize', 0) and okend
    if not okidx:
        rep.bad(rule, fn, 'xor-loop-range', pp(idx)[:160], 'the loop index ranges over 0..nonce_len', where(a, ssite))
        return None
    okv = False
    if v[0] == 'bin' and v[1] == 'BitXor':
        ops = [v[2], v[3]]
        own = [x for x in ops if x[0] == 'elem' and x[1] == idx]
        other = [x for x in ops if x[0] == 'load' and x[1] == ('param', base_idx) and x[2] == (('f', '0'), ('i', idx))]
        okv = len(own) == 1 and len(other) == 1
    rep.check(okv, rule, fn, 'xor-loop-body', pp(v)[:200], 'buf[i] = buf[i] ^ base_nonce[i]', where(a, ssite))
    rep.check(a.cfg.dominates(calls[0][0][0], ssite[0]), rule, fn, 'xor-after-counter', 'encoder at bb%d, xor loop at bb%d' % (calls[0][0][0], ssite[0]),
              'the counter is written before the XOR loop', where(a, ssite))
    if not okv:
        return None
    return l, init, calls[0]
