"""C01 — sender/receiver round trip: wiring symmetry (DESIGN §5 C01: R01.1 … R01.4)."""
from ..prov import get_an, pp, strip_sites, fold_const
from .common import where, ret_classes, is_ok_agg
from .aeadctx import aead_sites, SiteInfo
from .hpketerms import ppn
from . import c02, c03, c14, rfc9180 as rfc

EXPLANATION = (
    'Static analysis of MIR (all cargo features): sibling cross-check of sender and receiver. R01.1: setup_sender and '
    'setup_receiver pass (mode parameter, Ok payload of Kem::encap / Kem::decap, info parameter) to the *same* key '
    'schedule function and return its result through the wrapping From impls. R01.2: for each KEM expansion and each '
    'branch the (dh, kem_context) terms handed to ExtractAndExpand by encapsulation and decapsulation are equal after '
    'substituting the matching precondition (enc = Enc(pk(skE)), pkR = pk(skR)) and normalising DH(a, pk(b)) to the '
    'unordered pair {a, b}; same KEM suite id, same KDF, same output type. R01.3: seal and open hand '
    '(nonce = helper(self.base_nonce, self.seq), aad, buffer) to encrypt/decrypt on the same `encryptor` field and '
    'advance with the same increment function. R01.4 length algebra: ciphertext = plaintext length + Nt (vec of '
    'len + Nt, tag at [len..len+Nt)); open returns the first len - Nt bytes; the in-place forms take &mut [u8] (length '
    'fixed by type) and a separate tag. Not decided: that decrypt inverts encrypt and that HKDF/DH are deterministic '
    '(trusted base).')
TRUSTED = ['AEAD decrypt inverts encrypt under equal (key, nonce, aad)', 'DH(a, pk(b)) = DH(b, pk(a))', 'HKDF is deterministic']
ASSUME = []


def unordered(t):
    """normalise DH(a, PK(b)) / DH(a, b) under the substitution, order-free"""
    if not isinstance(t, tuple):
        return t
    if t[0] == 'DH':
        x, y = unordered(t[1]), unordered(t[2])
        sx = x[1] if x[0] == 'PK' else ('sk-of', x)
        sy = y
        # DH(sk a, pk of sk b) -> {a, b}
        a = x
        b = y[1] if y[0] == 'PK' else ('sk-of', y)
        return ('DHset', frozenset([a, b]))
    return tuple(unordered(x) for x in t)


def subst(t, m):
    if not isinstance(t, tuple):
        return t
    if t in m:
        return m[t]
    return tuple(subst(x, m) for x in t)


def ser_norm(t):
    """Ser(Enc(x)) = Ser(x): an encapsulated key serialises as its public key (R03.2 enc-serialisation)"""
    if not isinstance(t, tuple):
        return t
    if t[0] == 'Ser' and isinstance(t[1], tuple) and t[1][0] == 'Enc':
        return ('Ser', ser_norm(t[1][1]))
    return tuple(ser_norm(x) for x in t)


def check_setups(rep, facts, rule='R01.1'):
    ks = c02.KeySchedule(facts)
    if ks.a is None:
        rep.anchor_lost(rule, 'key schedule function', 'one', 'not found')
        return
    kkey = ks.a.body.key
    for key, kemfn, wrapper, infoparam in (('setup::setup_sender', 'encap', 'aead::AeadCtxS', 3), ('setup::setup_receiver', 'decap', 'aead::AeadCtxR', 4)):
        a = get_an(facts, key)
        if a is None:
            rep.anchor_lost(rule, key, 'setup function', 'not found')
            continue
        kc = a.calls(lambda c: c.get('key') == kkey or (c.get('resolved') or {}).get('key') == kkey)
        rep.check(len(kc) == 1, rule, key, 'one-key-schedule-call', '%d call(s) of %s' % (len(kc), kkey), 'exactly one call of the shared key schedule function', where(a))
        if len(kc) != 1:
            continue
        bi = kc[0][0]
        args = [a.arg_val(bi, i) for i in range(3)]
        kem = a.calls(lambda c: c.get('trait') == 'kem::Kem' and c['name'] == kemfn)
        okss = False
        if len(kem) == 1:
            x = args[1]
            if kemfn == 'encap':
                okss = x == ('field', '0', ('okval', a.val_call(kem[0][1], a.term_point(kem[0][0]))))
            else:
                okss = x == ('okval', a.val_call(kem[0][1], a.term_point(kem[0][0])))
        rep.check(args[0] == ('param', 1) and okss and args[2] == ('param', infoparam), rule, key, 'key-schedule-args',
                  '%s(%s)' % (kkey, ', '.join(pp(x)[:60] for x in args)), 'KeySchedule(mode, shared_secret from Kem::%s, info)' % kemfn, where(a, a.term_point(bi)))
        for s, t, cls in ret_classes(a, facts):
            if cls == 'ok':
                pl = t[3][0]
                ctxv = pl[3][1] if (kemfn == 'encap' and pl[0] == 'agg' and pl[1] == 'tuple' and len(pl[3]) == 2) else pl
                okw = ctxv[0] == 'call' and ctxv[1] == 'core::convert::Into::into' and ctxv[2][0][0] == 'call' and ctxv[2][0][3] == bi and \
                    ctxv[4] and len(ctxv[4][4]) == 2 and ctxv[4][4][1].startswith(wrapper + '<')
                rep.check(okw, rule, key, 'returns-wrapped-context', pp(ctxv)[:160], 'the key schedule result wrapped into %s' % wrapper, where(a, s))
                if kemfn == 'encap':
                    enc = pl[3][0] if pl[0] == 'agg' and len(pl[3]) == 2 else None
                    rep.check(enc == ('field', '1', ('okval', a.val_call(kem[0][1], a.term_point(kem[0][0])))) if kem else False, rule, key, 'returns-enc',
                              pp(enc)[:120] if enc else 'none', 'the encapsulated key produced by Kem::encap is returned unchanged', where(a, s))
    for w in ('aead::AeadCtxS', 'aead::AeadCtxR'):
        k = '<%s<A, Kdf, Kem> as core::convert::From<aead::AeadCtx<A, Kdf, Kem>>>::from' % w
        a = get_an(facts, k)
        if a is None:
            rep.anchor_lost(rule, k, 'wrapping From impl', 'not found')
            continue
        rt = a.ret_val()
        rep.check(rt[0] == 'agg' and rt[2].startswith(w + '::') and rt[3] == (('param', 1),), rule, k, 'from-wraps', pp(rt), '%s(ctx)' % w.rsplit('::', 1)[-1], where(a))


def check_kem_agreement(rep, facts, rule='R01.2'):
    feats = facts.meta.get('features', [])
    n = 0
    from ..framework import Reporter
    for kid, spec in sorted(rfc.KEMS.items()):
        if spec['feature'] not in feats:
            continue
        inner, decap, kty = c03.kem_functions(facts, spec)
        probe = Reporter('C01', 'quick', 'probe')
        rs = c03.check_kem_side(probe, facts, spec, inner, 'encap') if inner else None
        rr = c03.check_kem_side(probe, facts, spec, decap, 'decap')
        if not rs or not rr:
            rep.anchor_lost(rule, 'encap/decap terms of ' + spec['name'], 'both sides', 'missing')
            continue
        m = {('sym', 'enc'): ('Enc', ('PK', ('sym', 'skE'))), ('sym', 'pkR'): ('PK', ('sym', 'skR'))}
        m2 = {('field0', ('Enc', ('PK', ('sym', 'skE')))): ('PK', ('sym', 'skE'))}
        for br in ('auth', 'base'):
            if br not in rs['terms'] or br not in rr['terms']:
                rep.bad(rule, kty, br, 'branch missing on one side', 'both sides have the %s branch' % br, None)
                continue
            n += 1
            s_ikm, s_ctx = rs['terms'][br]
            r_ikm, r_ctx = rr['terms'][br]
            # the sender's skS corresponds to the receiver's pkS = pk(skS)
            ms = dict(m)
            ms[('sym', 'pkS')] = ('PK', ('sym', 'skS'))
            S = unordered(ser_norm(subst(subst((tuple(s_ikm), tuple(s_ctx)), ms), m2)))
            R = unordered(ser_norm(subst(subst((tuple(r_ikm), tuple(r_ctx)), ms), m2)))
            rep.check(S == R, rule, kty, br, 'sender: %s / %s ; receiver: %s / %s' % (
                ' || '.join(ppn(x) for x in s_ikm), ' || '.join(ppn(x) for x in s_ctx), ' || '.join(ppn(x) for x in r_ikm), ' || '.join(ppn(x) for x in r_ctx)),
                'equal (dh, kem_context) under enc = Enc(pk(skE)), pkR = pk(skR), pkS = pk(skS) and DH commutativity', None)
        rep.check(rs['dh_ty'] == rr['dh_ty'], rule, kty, 'same-group', '%s / %s' % (rs['dh_ty'], rr['dh_ty']), 'both sides use the same DH group', None)
        # KDF / suite / output equality is enforced per side against the table by C03; here: equal to each other
        bad = [v for v in probe.violations if v['key'].split('|')[2].split(':')[-1] in ('kdf', 'suite', 'output')]
        rep.check(not bad, rule, kty, 'same-kdf-suite-output', [v['key'] for v in bad][:3], 'both sides use the same KDF, KEM suite id and output buffer type', None)
    return n


def check_seal_open(rep, facts, rule='R01.3'):
    s = [SiteInfo(facts, a, bi, t, 'encrypt_in_place_detached') for a, bi, t, c in aead_sites(facts, 'encrypt_in_place_detached')]
    o = [SiteInfo(facts, a, bi, t, 'decrypt_in_place_detached') for a, bi, t, c in aead_sites(facts, 'decrypt_in_place_detached')]
    if len(s) != 1 or len(o) != 1:
        rep.bad(rule, '-', 'sites', '%d sealing, %d opening site(s)' % (len(s), len(o)), 'one of each', None)
        return
    s, o = s[0], o[0]

    def wiring(si):
        a = si.a
        nv = a.deref_val(si.args[1], si.point)
        hv = nv[2] if nv[0] == 'field' and nv[1] == '0' else nv
        helper = (hv[4][3], tuple(pp(x) for x in hv[2])) if hv[0] == 'call' and hv[4] else ('?', pp(hv)[:80])
        aad = si.args[2]
        buf = si.args[3]
        incs = sorted({c[4][3] for bi, t, c2 in a.calls(lambda c: c.get('local') and c['def_kind'] == 'Fn')
                       for c in [a.val_call(t, a.term_point(bi))] if c[0] == 'call' and c[4] and c[4][3] and len(c[2]) == 1 and pp(c[2][0]) == '&*p1.0.seq'})
        # the increment written out in place (self.seq.0.checked_add(1)) counts as the one shared increment
        from .c04 import _is_seq_checked_add
        if not incs and any(_is_seq_checked_add(a.val_call(t, a.term_point(bi))) for bi, t, c2 in a.calls(lambda c: c['name'] == 'checked_add')):
            incs = ['<inline u64::checked_add(self.seq.0, 1)>']
        return {'object': pp(si.args[0]), 'nonce': helper, 'aad_is_param': aad[0] == 'param' and a.body.local_ty(aad[1]) == '&[u8]',
                'buffer_is_param': buf[0] == 'param' and a.body.local_ty(buf[1]) == '&mut [u8]', 'increment': incs}
    ws, wo = wiring(s), wiring(o)
    rep.check(ws == wo and ws['aad_is_param'] and ws['buffer_is_param'] and len(ws['increment']) == 1, rule, '%s / %s' % (s.key, o.key), 'same-wiring',
              'seal: %s ; open: %s' % (ws, wo), 'identical AEAD object, nonce helper and arguments, aad/buffer parameters, increment function', where(s.a, s.point))


def check_mode_siblings(rep, facts, rule='R01.5'):
    """the sender's and the receiver's mode enums answer mode_id / get_psk_bytes / get_psk_id identically, variant by variant"""
    from .. import booldec
    from . import modes
    from .common import impl_bodies
    n = 0
    for name in ('mode_id', 'get_psk_bytes', 'get_psk_id'):
        tabs = {}
        for b in impl_bodies(facts, 'op_mode::OpMode', name):
            if b.default_of:
                continue
            a = get_an(facts, b.key)
            path, adt = modes.adt_of_self(facts, b.impl_of['self_ty'])
            role = 'sender' if path.endswith('OpModeS') else ('receiver' if path.endswith('OpModeR') else path)
            try:
                t = booldec.variant_table(a, modes.variants_of(adt), lambda s: s == ('load', ('param', 1), ()))
                # the bundle sits at a different field index in the two enums only if their shapes differ; compare by field *type* position
                norm = {}
                for v, rows in t.items():
                    vals = []
                    for rt, site in rows:
                        x = strip_sites(rt)
                        if name == 'mode_id':
                            x = fold_const(x, 'u8')
                        if x[0] == 'load' and x[1] == ('param', 1):
                            x = ('load', ('param', 1), tuple(e for e in x[2] if not (e[0] == 'f' and e[1].isdigit())))
                        vals.append(x)
                    norm[v] = vals
                tabs[role] = norm
            except booldec.Undecidable as e:
                tabs[role] = 'depends on more than the variant: %s' % e
        if set(tabs) != {'sender', 'receiver'}:
            rep.anchor_lost(rule, 'OpMode::%s impls for both roles' % name, 'sender and receiver', sorted(tabs))
            continue
        n += 1
        same = tabs['sender'] == tabs['receiver'] and not isinstance(tabs['sender'], str)
        rep.check(same, rule, 'op_mode::OpMode::%s' % name, 'sender-receiver-agree',
                  'sender: %s ; receiver: %s' % (_tab(tabs['sender']), _tab(tabs['receiver'])),
                  'both roles map every mode variant to the same value (otherwise matching setups derive different keys)', None)
    return n


def _tab(t):
    if isinstance(t, str):
        return t
    return {v: [pp(x)[:40] for x in xs] for v, xs in t.items()}


def run(ctx):
    rep, facts = ctx.rep, ctx.facts
    n5 = check_mode_siblings(rep, facts)
    rep.floor('R01.5', 'mode accessor pairs', n5, 3)
    feats = facts.meta.get('features', [])
    alloc = 'alloc' in feats or 'std' in feats
    check_setups(rep, facts)
    n = check_kem_agreement(rep, facts)
    nk = len([f for f in ('x25519', 'p256', 'p384', 'p521') if f in feats])
    rep.floor('R01.2', 'encap/decap pairs (2 branches per KEM)', n, 2 * nk)
    check_seal_open(rep, facts)
    c14.run_alloc_forms(rep, facts, alloc)
    # in-place forms: &mut [u8] + separate tag
    for a, bi, t, c in aead_sites(facts, 'encrypt_in_place_detached'):
        rep.check(a.body.sig['inputs'][1] == '&mut [u8]' and a.body.sig['output'].startswith('core::result::Result<aead::AeadTag<A>'), 'R01.4', a.body.key, 'in-place-types',
                  '%s -> %s' % (a.body.sig['inputs'], a.body.sig['output']), 'buffer of unchanged length (&mut [u8]) plus a separate AeadTag', where(a))
    for a, bi, t, c in aead_sites(facts, 'decrypt_in_place_detached'):
        rep.check(a.body.sig['inputs'][1] == '&mut [u8]' and a.body.sig['inputs'][3].startswith('&aead::AeadTag<A>'), 'R01.4', a.body.key, 'in-place-types',
                  '%s' % a.body.sig['inputs'], 'buffer of unchanged length (&mut [u8]) plus a separate AeadTag', where(a))
    # R01.6: both sides run the suite the caller named: setup, context and single-shot bodies are parametric in A/Kdf/Kem
    from .common import check_suite_parametric
    check_suite_parametric(rep, facts, 'R01.6', scope=lambda b: b.key.startswith(('single_shot::', 'setup::', 'aead::')),
                           floor=8, what='setup / context / single-shot bodies generic over the suite')
    rep.bodies_analysed = len(facts.body_list)
