"""C17 — every feature combination builds and behaves the same (DESIGN §5 C17: R17.1 … R17.4)."""
import hashlib
import itertools
import json
import os
import re
import subprocess
import time

from .. import framework
from ..mirjson import Facts

NEEDS_FACTS = False
THOROUGH_CONFIGS = []

EXPLANATION = (
    'Static analysis by the compiler itself plus fact comparison. R17.1 compile matrix: `cargo check --lib` with the '
    'repository\'s own (stable) toolchain for a pairwise-covering array of feature subsets incl. none/all/default '
    '(quick) or all 64 subsets x (lib, lib+tests) and the example/bench targets under their required features '
    '(thorough); a failure is reported with the first compiler error (file:line). R17.2 API surface: for each analysed '
    'subset the exported items extracted by the rustc_private driver must equal the expected table — in-place '
    'interfaces always, seal/open/single_shot_seal/single_shot_open iff alloc or std, each KEM iff its feature, '
    '`impl std::error::Error for HpkeError` iff std. R17.3 cfg-independence of behaviour: the canonical MIR (spans, '
    'line numbers and std/alloc path spelling normalised) of every function body present in two subsets is identical, '
    'so there is no cfg-dependent code inside bodies and verdicts obtained on the all-features build transfer to '
    'every subset. R17.4 no verification hooks were added to the repository (guard-off tree = tree). R17.5 the Cargo '
    'feature table declares exactly the six independent features the matrix enumerates. R17.6 cfg universe: every '
    'cfg predicate in src/ is built from those features, `test` and `docsrs` only — behaviour cannot depend on '
    'debug_assertions, target_*, panic strategy or other cfgs the analysed builds would not exhibit. R17.7 a structural '
    'necessary condition of "each enabled KEM passes its self-consistency tests": every concatenation buffer holds the '
    'largest pieces any enabled implementation puts there (type-level capacity arithmetic over all impls). Not decided: '
    'running each subset\'s tests / comparing run-time outputs per subset.')
TRUSTED = ['rustc/cargo (stable 1.95 for the matrix, nightly 1.97 for fact extraction)']
ASSUME = ['identical MIR implies identical behaviour given identical dependency versions (Cargo.lock is shared by all subsets)']

FEATURES = ['alloc', 'std', 'x25519', 'p256', 'p384', 'p521']
DEFAULT = ('alloc', 'p256', 'x25519')
KEM_OF = {'x25519': 'X25519HkdfSha256', 'p256': 'DhP256HkdfSha256', 'p384': 'DhP384HkdfSha384', 'p521': 'DhP521HkdfSha512'}
ALWAYS = ['setup::setup_sender', 'setup::setup_receiver', 'single_shot::single_shot_seal_in_place_detached',
          'single_shot::single_shot_open_in_place_detached', 'aead::AeadCtxS<A, Kdf, Kem>::seal_in_place_detached',
          'aead::AeadCtxR<A, Kdf, Kem>::open_in_place_detached', 'aead::AeadCtxS<A, Kdf, Kem>::export',
          'aead::AeadCtxR<A, Kdf, Kem>::export', "op_mode::PskBundle<'_>::new", 'kem::Kem::gen_keypair']
ALLOC_ONLY = ['aead::AeadCtxS<A, Kdf, Kem>::seal', 'aead::AeadCtxR<A, Kdf, Kem>::open', 'single_shot::single_shot_seal',
              'single_shot::single_shot_open']


def all_subsets():
    out = []
    for r in range(len(FEATURES) + 1):
        for c in itertools.combinations(FEATURES, r):
            out.append(tuple(c))
    return out


def covering_array():
    """greedy pairwise covering array, seeded with none / all / default"""
    rows = [(), tuple(FEATURES), DEFAULT]
    need = set()
    for i, j in itertools.combinations(range(len(FEATURES)), 2):
        for a in (0, 1):
            for b in (0, 1):
                need.add((i, a, j, b))

    def covers(row):
        bits = [1 if f in row else 0 for f in FEATURES]
        return {(i, bits[i], j, bits[j]) for i, j in itertools.combinations(range(len(FEATURES)), 2)}
    for r in rows:
        need -= covers(r)
    cands = all_subsets()
    while need:
        best = max(cands, key=lambda r: (len(covers(r) & need), -len(r), r))
        rows.append(best)
        need -= covers(best)
    return rows


def cfg_name(sub):
    if set(sub) == set(FEATURES):
        return 'all'
    return 'f:' + ','.join(sub)


def cargo_check(repo, sub, extra=(), toolchain=None):
    env = dict(os.environ, CARGO_NET_OFFLINE='true', CARGO_INCREMENTAL='0',
               CARGO_TARGET_DIR=os.path.join(framework.CACHE, 'target', 'matrix'))
    env.pop('RUSTC_WORKSPACE_WRAPPER', None)
    cmd = ['cargo'] + ([toolchain] if toolchain else []) + ['check', '--offline', '--message-format=short', '--no-default-features']
    if sub:
        cmd += ['--features', ','.join(sub)]
    cmd += list(extra)
    p = subprocess.run(cmd, cwd=repo, env=env, stdout=subprocess.PIPE, stderr=subprocess.STDOUT, text=True)
    first = None
    if p.returncode != 0:
        m = re.search(r'^(\S+\.rs):(\d+):\d+: error(\[E\d+\])?: (.*)$', p.stdout, re.M)
        if m:
            first = {'file': m.group(1), 'line': int(m.group(2)), 'msg': (m.group(3) or '') + ' ' + m.group(4)}
        else:
            first = {'file': '?', 'line': 0, 'msg': p.stdout[-600:]}
    return p.returncode == 0, first


def _spell(s):
    s = re.sub(r'\bstd::(vec|slice|boxed|string|borrow|fmt|alloc|collections)\b', r'alloc::\1', s)
    s = re.sub(r'\bstd::', 'core::', s)
    s = re.sub(r'\balloc::(fmt|ops|result|option|convert|cmp|clone|marker|mem|num|iter|default|panicking)\b', r'core::\1', s)
    # items of crates that are not direct dependencies are printed through whichever re-export is linked
    s = re.sub(r'\bp(256|384|521)::(elliptic_curve|ecdh)::', r'\2::', s)
    return s


def semantic_summary(facts, b):
    """view-erased provenance summary of a body: returns, effectful calls (callee + argument terms), stores,
    branch conditions — independent of which impl a trait method resolved to"""
    from ..prov import get_an, strip_sites, VIEW_NAMES
    from ..mirjson import callee_of
    a = get_an(facts, b.key)
    out = []
    for bi in a.cfg.rpo:
        blk = b.blocks[bi]
        for si, st in enumerate(blk['stmts']):
            if st['k'] == 'assign' and st['place']['p']:
                base, path = a.place_desc(st['place'], (bi, si))
                out.append(('store', strip_sites(base), strip_sites(path), strip_sites(a.val_rv(st['rv'], (bi, si)))))
        t = blk['term']
        if t['k'] == 'call':
            c = callee_of(t)
            if c and (c['name'] in VIEW_NAMES or c['name'] in ('index', 'index_mut', 'branch', 'from_residual', 'len')):
                continue
            v = strip_sites(a.val_call(t, a.term_point(bi)))
            out.append(('call', v))
        elif t['k'] == 'switch':
            out.append(('switch', strip_sites(a.val_op(t['discr'], a.term_point(bi))), len(t['targets'])))
        elif t['k'] == 'drop':
            out.append(('drop', b.local_ty(t['place']['l'])))
    out.append(('ret', strip_sites(a.ret_val())))
    # sizes and constants are behaviour: array-typed locals and every integer constant of the body
    arrays = sorted(l['ty'] for l in b.raw['locals'] if re.match(r'^\[.*; \d+\]$', l['ty']))
    consts = []

    def scan(x):
        if isinstance(x, dict):
            if x.get('k') == 'const' and 'int' in x:
                consts.append((x.get('ty'), x['int']))
            if x.get('k') == 'repeat':
                consts.append(('repeat', str(x.get('n'))))
            for v in x.values():
                scan(v)
        elif isinstance(x, list):
            for v in x:
                scan(v)
    for bi in a.cfg.rpo:
        scan(b.blocks[bi]['stmts'])
        t = b.blocks[bi]['term']
        if t['k'] in ('switch', 'assert'):
            scan(t)
    out.append(('arrays', arrays))
    out.append(('consts', sorted(consts, key=str)))
    return hashlib.sha256(_renumber_locals(_spell(repr(out))).encode()).hexdigest()


def _renumber_locals(text):
    """locals named by order of first appearance: an extra auto-deref temporary in one feature subset shifts the numbering
    of everything after it without changing anything else"""
    m = {}

    def sub(mo):
        n = mo.group(2)
        if n not in m:
            m[n] = str(len(m))
        return mo.group(1) + 'L' + m[n] + mo.group(3)
    return re.sub(r"(\('(?:local|mem|uninit|rec)', )(\d+)([,)])", sub, text)


def canon_body(b):
    """canonical text of a MIR body: no spans/lines, std/alloc path spelling normalised"""
    def strip(x):
        if isinstance(x, dict):
            return {k: strip(v) for k, v in x.items() if k not in ('line', 'fn_line', 'exp', 'span', 'full_span', 'name', 'text')}
        if isinstance(x, list):
            return [strip(v) for v in x]
        return x
    doc = {'blocks': strip(b.raw['blocks']), 'locals': [l['ty'] for l in b.raw['locals']],
           'promoted': [strip(p['blocks']) for p in b.raw.get('promoted', [])]}
    s = _spell(json.dumps(doc, sort_keys=True, separators=(',', ':')))
    return hashlib.sha256(s.encode()).hexdigest()


def api_keys(facts):
    return {x['key'] for x in facts.api}


def check_api(rep, facts, sub, rule='R17.2'):
    cfg = cfg_name(sub)
    keys = api_keys(facts)
    has_alloc = 'alloc' in sub or 'std' in sub
    for k in ALWAYS:
        rep.check(k in keys, rule, k, 'always-present@%s' % cfg, 'exported: %s' % (k in keys), 'in-place / setup interfaces are present in every feature subset')
    for k in ALLOC_ONLY:
        rep.check((k in keys) == has_alloc, rule, k, 'alloc-gated@%s' % cfg, 'exported: %s (alloc|std: %s)' % (k in keys, has_alloc),
                  'allocating interfaces exist exactly when alloc or std is enabled')
    kems = {im['self_ty'].rsplit('::', 1)[-1] for im in facts.impls_of('kem::Kem')}
    for f, name in KEM_OF.items():
        rep.check((name in kems) == (f in sub), rule, 'kem::' + name, 'kem-gated@%s' % cfg, 'impl Kem present: %s (feature %s: %s)' % (name in kems, f, f in sub),
                  'each KEM exists exactly when its feature is enabled')
        exported = any(x['path'].endswith('::' + name) and x['kind'] == 'Struct' for x in facts.api)
        rep.check(exported == (f in sub), rule, 'kem::' + name, 'kem-exported@%s' % cfg, 'exported: %s' % exported, 'the KEM type is exported with its feature')
    err_impl = any(im.get('trait_def', '').endswith('error::Error') and im['self_ty'] == 'HpkeError' for im in facts.impls)
    rep.check(err_impl == ('std' in sub), rule, 'HpkeError', 'std-error-impl@%s' % cfg, 'impl Error for HpkeError: %s' % err_impl,
              '`impl std::error::Error for HpkeError` exactly with the std feature')


def check_mir_identity(rep, ref, facts, sub, rule='R17.3'):
    cfg = cfg_name(sub)
    refh = ref.__dict__.setdefault('_canon', {})
    diff = []
    n = 0
    resol = 0
    for b in facts.body_list:
        rb = ref.body(b.key)
        if rb is None:
            if b.key in ((ref.meta.get('helpers') or {}).get('dropped') or []):
                # a new private helper: inlined into its callers where it has any (all-features build), a free-standing
                # uncalled body where the only callers are cfg'd out — the same source either way
                continue
            diff.append((b.key, 'absent from the all-features build'))
            continue
        if b.key not in refh:
            refh[b.key] = canon_body(rb)
        n += 1
        if canon_body(b) != refh[b.key]:
            # method resolution may differ with the dependency feature set (e.g. `.zeroize()` on a GenericArray
            # resolves to the array impl or, through auto-deref, to the slice impl): compare view-erased summaries
            if semantic_summary(facts, b) == semantic_summary(ref, rb):
                rep.note('%s: raw MIR differs between all and %s (method resolution / auto-deref), view-erased provenance summary identical' % (b.key, cfg))
                resol += 1
            else:
                diff.append((b.key, 'MIR and provenance summary differ'))
    rep.check(not diff, rule, '-', 'mir-identity@%s' % cfg, '%d shared bodies compared, %d identical MIR, %d identical up to method resolution, %d differ: %s' % (n, n - resol - len(diff), resol, len(diff), diff[:4]),
              'every body present in this subset has the same canonical MIR as in the all-features build', None)
    return n


def check_no_hooks(rep, repo, rule='R17.4'):
    hits = []
    for root, dirs, fs in os.walk(os.path.join(repo, 'src')):
        for f in fs:
            if f.endswith('.rs'):
                txt = open(os.path.join(root, f), errors='replace').read()
                if 'hpke_verif' in txt:
                    hits.append(os.path.relpath(os.path.join(root, f), repo))
    rep.check(not hits, rule, '-', 'no-hooks', 'files mentioning the reserved guard `hpke_verif`: %s' % hits,
              'no verification hooks in the repository: the guard-off tree is the tree')


def strip_comments(src):
    """remove // and /* */ comments and string/char literals (good enough for attribute scanning)"""
    out = []
    i, n = 0, len(src)
    while i < n:
        c = src[i]
        if src.startswith('//', i):
            j = src.find('\n', i)
            i = n if j < 0 else j
        elif src.startswith('/*', i):
            depth, i = 1, i + 2
            while i < n and depth:
                if src.startswith('/*', i):
                    depth += 1
                    i += 2
                elif src.startswith('*/', i):
                    depth -= 1
                    i += 2
                else:
                    i += 1
        elif c == '"':
            i += 1
            buf = []
            while i < n and src[i] != '"':
                if src[i] == '\\':
                    i += 1
                buf.append(src[i] if i < n else '')
                i += 1
            i += 1
            out.append('"%s"' % ''.join(buf))       # keep feature names
        else:
            out.append(c)
            i += 1
    return ''.join(out)


def check_cfg_universe(rep, repo, rule='R17.6'):
    """behaviour may only depend on cargo features (covered by the matrix), `test` and `docsrs`: every cfg predicate in
    src/ is built from feature = "<known feature>", test, docsrs with any/all/not — no debug_assertions, target_*,
    panic, overflow_checks, … that the analysed configurations would not exhibit"""
    allowed_idents = {'any', 'all', 'not', 'feature', 'test', 'docsrs'}
    n = 0
    bad = []
    for root, dirs, fs in os.walk(os.path.join(repo, 'src')):
        for f in sorted(fs):
            if not f.endswith('.rs'):
                continue
            path = os.path.join(root, f)
            txt = strip_comments(open(path, errors='replace').read())
            for m in re.finditer(r'\b(cfg_attr|cfg!?)\s*\(', txt):
                i = m.end()
                depth = 1
                j = i
                while j < len(txt) and depth:
                    if txt[j] == '(':
                        depth += 1
                    elif txt[j] == ')':
                        depth -= 1
                    j += 1
                inner = txt[i:j - 1]
                if m.group(1) == 'cfg_attr':
                    # predicate = first top-level comma-separated argument
                    d, k = 0, 0
                    for k, ch in enumerate(inner):
                        if ch == '(':
                            d += 1
                        elif ch == ')':
                            d -= 1
                        elif ch == ',' and d == 0:
                            break
                    inner = inner[:k]
                n += 1
                idents = set(re.findall(r'[A-Za-z_][A-Za-z0-9_]*', re.sub(r'"[^"]*"', '', inner)))
                feats = set(re.findall(r'feature\s*=\s*"([^"]*)"', inner))
                unk = (idents - allowed_idents) | {('feature=' + x) for x in feats if x not in FEATURES}
                if unk:
                    line = txt[:m.start()].count('\n') + 1
                    bad.append('%s:%d cfg(%s)' % (os.path.relpath(path, repo), line, inner.strip()[:60]))
    rep.check(not bad, rule, '-', 'cfg-universe', '%d cfg predicates scanned; outside the analysed universe: %s' % (n, bad[:4]),
              'every cfg predicate uses only feature = "alloc|std|x25519|p256|p384|p521", test, docsrs (any/all/not)', None)
    rep.floor(rule, 'cfg predicates in src/', n, 20)


def check_feature_universe(rep, repo, rule='R17.5'):
    """the [features] table of Cargo.toml declares exactly the six features the matrix enumerates (+ default)"""
    txt = open(os.path.join(repo, 'Cargo.toml')).read()
    m = re.search(r'^\[features\]\s*$(.*?)(?=^\[)', txt, re.M | re.S)
    names = set()
    table = {}
    if m:
        for line in m.group(1).splitlines():
            line = line.split('#', 1)[0].strip()
            mm = re.match(r'^([A-Za-z0-9_-]+)\s*=\s*\[(.*)\]\s*$', line)
            if mm:
                names.add(mm.group(1))
                table[mm.group(1)] = [x.strip().strip('"') for x in mm.group(2).split(',') if x.strip()]
    rep.check(names == set(FEATURES) | {'default'}, rule, 'Cargo.toml', 'feature-names', sorted(names),
              'features = default + %s (the matrix enumerates exactly their subsets)' % FEATURES, None)
    # a feature must not silently enable another one of the six (the subsets would no longer be independent)
    cross = {k: [x for x in v if x in FEATURES] for k, v in table.items() if k != 'default'}
    cross = {k: v for k, v in cross.items() if v}
    rep.check(not cross, rule, 'Cargo.toml', 'features-independent', cross, 'no feature enables another of the six features', None)


def run(ctx):
    rep = ctx.rep
    repo = ctx.repo
    check_feature_universe(rep, repo)
    check_cfg_universe(rep, repo)
    thorough = ctx.tier == 'thorough'
    subsets = all_subsets() if thorough else covering_array()
    rep.extra['subsets'] = [cfg_name(s) for s in subsets]
    rep.extra['exhaustive'] = thorough
    # R17.1
    for sub in subsets:
        ok, first = cargo_check(repo, sub, ['--lib'])
        rep.check(ok, 'R17.1', '-', 'lib@%s' % cfg_name(sub), 'cargo check --lib: %s' % ('ok' if ok else first['msg']),
                  'the library compiles with this feature subset', first and {'file': first['file'], 'line': first['line'], 'function': '-'})
        if thorough and ok:
            ok2, first2 = cargo_check(repo, sub, ['--lib', '--tests'])
            rep.check(ok2, 'R17.1', '-', 'tests@%s' % cfg_name(sub), 'cargo check --lib --tests: %s' % ('ok' if ok2 else first2['msg']),
                      'the in-crate tests compile with this feature subset', first2 and {'file': first2['file'], 'line': first2['line'], 'function': '-'})
    if thorough:
        for name, sub, extra in (('example client_server', ('alloc', 'x25519'), ['--example', 'client_server']),
                                 ('example agility', ('alloc', 'p256', 'p384', 'p521', 'x25519'), ['--example', 'agility']),
                                 ('benches', tuple(FEATURES), ['--benches'])):
            ok, first = cargo_check(repo, sub, extra)
            rep.check(ok, 'R17.1', '-', name, 'cargo check %s: %s' % (' '.join(extra), 'ok' if ok else first['msg']),
                      'bundled example/bench targets compile under their required features', first and {'file': first['file'], 'line': first['line'], 'function': '-'})
    # R17.2 / R17.3 on the fact level
    ref = ctx.facts_for('all')
    fact_subsets = subsets if thorough else [(), DEFAULT, ('alloc',), ('std',), ('x25519',), ('std', 'p384'), ('p256', 'p521')]
    nb = 0
    for sub in fact_subsets:
        cfg = cfg_name(sub)
        try:
            f = ref if cfg == 'all' else ctx.facts_for(cfg)
        except framework.ExtractionError as e:
            rep.bad('R17.1', '-', 'nightly-lib@%s' % cfg, str(e)[-400:], 'the library type-checks with this feature subset')
            continue
        check_api(rep, f, sub)
        if cfg != 'all':
            nb += check_mir_identity(rep, ref, f, sub)
    check_api(rep, ref, tuple(FEATURES))
    # R17.7: "each enabled KEM passes the crate's own self-consistency tests" has a structural necessary condition that is
    # the same for every subset containing the KEM: its encapsulation must not run out of buffer. Every concatenation buffer
    # in the crate holds the largest pieces any enabled implementation can put there (capacity arithmetic over type-level
    # sizes; a buffer sized by the digest instead of the public-key bound only breaks the one KEM whose DH output is larger).
    from . import c13
    from ..prov import get_an
    reach = {b.key: get_an(ref, b.key) for b in ref.body_list}
    D = c13.Discharger(rep, ref, reach, rule='R17.7')
    nch = D.verify_chains()
    nk = len([x for x in ('x25519', 'p256', 'p384', 'p521') if x in ref.meta.get('features', [])])
    rep.floor('R17.7', 'concatenation buffers (all-features build)', nch, max(1, 4 * nk))
    rep.bodies_analysed = nb
    check_no_hooks(rep, repo)
