"""The oracle: RFC 9180 tables and label constants, hand-encoded once from the RFC text and
independent of the code under analysis (DESIGN §4).  The only repository-specific columns are
the *names* under which the crate implements each algorithm (module / type names), which are
how the analysed items are found — not what they are compared with."""

# RFC 9180 §7.1 Table 2 (KEM IDs) + §4.1 (Ndh) + §7.1.3 (DeriveKeyPair bitmask)
KEMS = {
    0x0010: dict(name='DHKEM(P-256, HKDF-SHA256)', Nsecret=32, Nenc=65, Npk=65, Nsk=32, Ndh=32, kdf=0x0001, mask=0xFF,
                 feature='p256', dh_mod='dhkex::ecdh_nistp::p256', kem_mod='kem::dhkem::dhp256_hkdfsha256', ty='DhP256HkdfSha256', nist=True),
    0x0011: dict(name='DHKEM(P-384, HKDF-SHA384)', Nsecret=48, Nenc=97, Npk=97, Nsk=48, Ndh=48, kdf=0x0002, mask=0xFF,
                 feature='p384', dh_mod='dhkex::ecdh_nistp::p384', kem_mod='kem::dhkem::dhp384_hkdfsha384', ty='DhP384HkdfSha384', nist=True),
    0x0012: dict(name='DHKEM(P-521, HKDF-SHA512)', Nsecret=64, Nenc=133, Npk=133, Nsk=66, Ndh=66, kdf=0x0003, mask=0x01,
                 feature='p521', dh_mod='dhkex::ecdh_nistp::p521', kem_mod='kem::dhkem::dhp521_hkdfsha512', ty='DhP521HkdfSha512', nist=True),
    0x0020: dict(name='DHKEM(X25519, HKDF-SHA256)', Nsecret=32, Nenc=32, Npk=32, Nsk=32, Ndh=32, kdf=0x0001, mask=None,
                 feature='x25519', dh_mod='dhkex::x25519', kem_mod='kem::dhkem::x25519_hkdfsha256', ty='X25519HkdfSha256', nist=False),
}

# RFC 9180 §7.2 Table 3 (KDF IDs)
KDFS = {
    0x0001: dict(name='HKDF-SHA256', Nh=32, hash='Sha256', ty='HkdfSha256'),
    0x0002: dict(name='HKDF-SHA384', Nh=48, hash='Sha384', ty='HkdfSha384'),
    0x0003: dict(name='HKDF-SHA512', Nh=64, hash='Sha512', ty='HkdfSha512'),
}

# RFC 9180 §7.3 Table 5 (AEAD IDs)
AEADS = {
    0x0001: dict(name='AES-128-GCM', Nk=16, Nn=12, Nt=16, impl='aes_gcm::AesGcm<aes_gcm::aes::Aes128,'),
    0x0002: dict(name='AES-256-GCM', Nk=32, Nn=12, Nt=16, impl='aes_gcm::AesGcm<aes_gcm::aes::Aes256,'),
    0x0003: dict(name='ChaCha20Poly1305', Nk=32, Nn=12, Nt=16, impl='chacha20poly1305::ChaChaPoly1305<'),
    0xFFFF: dict(name='Export-only', Nk=0, Nn=None, Nt=0, impl='aead::export_only::EmptyAeadImpl'),
}

# RFC 9180 §5 Table 1
MODES = {'Base': 0x00, 'Psk': 0x01, 'Auth': 0x02, 'AuthPsk': 0x03}

VERSION_LABEL = b'HPKE-v1'
# labels, by the RFC function that uses them
L_EAE_PRK = b'eae_prk'
L_SHARED_SECRET = b'shared_secret'
L_DKP_PRK = b'dkp_prk'
L_SK = b'sk'
L_CANDIDATE = b'candidate'
L_PSK_ID_HASH = b'psk_id_hash'
L_INFO_HASH = b'info_hash'
L_SECRET = b'secret'
L_KEY = b'key'
L_BASE_NONCE = b'base_nonce'
L_EXP = b'exp'
L_SEC = b'sec'

SUITE_PREFIX_FULL = b'HPKE'   # suite_id = "HPKE" || I2OSP(kem_id,2) || I2OSP(kdf_id,2) || I2OSP(aead_id,2)
SUITE_PREFIX_KEM = b'KEM'     # suite_id = "KEM"  || I2OSP(kem_id,2)
