"""C05 — receiver state machine (DESIGN §5 C05: R05.1 … R05.7)."""
from ..prov import get_an, pp, strip_generics, walk
from .common import (all_ans, ret_classes, where, switch_on, switch_edge, result_err_variants, load_path_fields,
                     addr_fields, site_reaches)
from .aeadctx import aead_sites, SiteInfo, field_load_of_self, CTX_ADT
from . import c04

EXPLANATION = (
    'Static analysis of drop-elaborated MIR (all cargo features). Decides the structural clause of C05 for every '
    'delivery history (the per-call effect summary is history-free): R05.1 no write to the context on any Err path of '
    'the opening body; R05.2 exactly one counter update on every Ok path, after the AEAD verdict; R05.3 Ok is returned '
    'only on the AEAD-said-Ok edge; R05.4 on every opening entry point that takes `&mut self`, every Err other than '
    'MessageLimitReached is dominated by the not-overflowed edge (or is the propagated error of a callee that checks '
    'first), and the caller\'s buffer is not used on the refusing branch; R05.5 the allocating open splits at '
    'len - Nt under a guard that maps a short input to OpenError; R05.6 wrappers propagate the in-place result '
    'unchanged; R05.7 the nonce is helper(self.base_nonce, self.seq) read before any update, and the helper is the '
    'injective big-endian counter encoding XOR base nonce (bit-provenance), so no other position\'s ciphertext can verify. Not decided: that a '
    'forged or out-of-sequence ciphertext fails the tag check (AEAD security).')
TRUSTED = c04.TRUSTED + ['usize::checked_sub / Option::ok_or / slice::split_at semantics']
ASSUME = c04.ASSUME


def overflow_guard(a):
    """(switch block, false-edge target) of the unique branch on self.overflowed, or None"""
    sw = switch_on(a, lambda d: field_load_of_self(d, 'overflowed'))
    if len(sw) != 1:
        return None, len(sw)
    bi, t, _ = sw[0]
    return (bi, switch_edge(t, 0)), 1


def entry_points(facts, recv_prefix='&mut aead::AeadCtxR<'):
    out = []
    for a in all_ans(facts):
        b = a.body
        if b.sig and b.sig['inputs'] and b.sig['inputs'][0].startswith(recv_prefix) and b.raw.get('exported'):
            out.append(a)
    return out


def check_overflow_first(rep, facts, a, checked, rule='R05.4'):
    """every Err other than MessageLimitReached is preceded by the overflow test"""
    fn = a.body.key
    guard, n = overflow_guard(a)
    classes = ret_classes(a, facts)
    allok = True
    for s, t, cls in classes:
        if not (isinstance(cls, tuple) and cls[0] == 'err'):
            if cls == 'ok' or (isinstance(cls, tuple) and cls[0] == 'tail'):
                continue
            continue
        variants = cls[1]
        if variants == frozenset(['MessageLimitReached']):
            continue
        # (c) propagated error of a callee that itself checks first
        if t[0] == 'from_residual' and t[1][0] == 'residual' and t[1][1][0] == 'call':
            c = t[1][1]
            ck = c[4][3] if c[4] else None
            if ck in checked and c[2] and c[2][0] == ('param', 1):
                rep.ok(rule, fn, 'err-after-check:%s' % ','.join(sorted(variants)),
                       'Err propagated from %s, which tests `overflowed` first' % ck)
                continue
        ok = False
        how = 'no dominating overflow test'
        if guard is not None and s is not None:
            ok = a.cfg.edge_dominates(guard[0], guard[1], s[0])
            how = 'dominated by the not-overflowed edge bb%d->bb%d: %s' % (guard[0], guard[1], ok)
        if not ok and s is not None:
            # (b) dominated by the success edge of a `?` on a checked callee
            for bi in a.cfg.dom_chain(s[0]):
                tt = a.body.blocks[bi]['term']
                if tt['k'] != 'switch':
                    continue
                d = a.val_op(tt['discr'], a.term_point(bi))
                if d[0] == 'discr' and d[1][0] == 'try' and d[1][1][0] == 'call':
                    c = d[1][1]
                    ck = c[4][3] if c[4] else None
                    if ck in checked and c[2] and c[2][0] == ('param', 1):
                        tgt = switch_edge(tt, 0)
                        if a.cfg.edge_dominates(bi, tgt, s[0]):
                            ok = True
                            how = 'dominated by the success edge of %s(self, ..)?' % ck
        allok = allok and ok
        inst = 'Err(%s)@%s' % (','.join(sorted(variants)), _origin(t))
        rep.check(ok, rule, fn, inst, 'return %s ; %s' % (pp(t)[:160], how),
                  'an exhausted context answers MessageLimitReached to every call: the overflow test precedes every other failure',
                  where(a, s))
    return allok


def _origin(t):
    """a stable, line-free name for where an Err value comes from"""
    if t[0] == 'from_residual' and t[1][0] == 'residual':
        x = t[1][1]
        if x[0] == 'call':
            if x[1] == 'core::option::Option::ok_or' and x[2][0][0] == 'call':
                return x[2][0][1].rsplit('::', 1)[-1]
            if x[1] == 'core::result::Result::map_err' and x[2][0][0] == 'call':
                return x[2][0][1].rsplit('::', 1)[-1]
            return x[1].rsplit('::', 1)[-1]
        return x[0]
    if t[0] == 'agg':
        return 'literal'
    return t[0]


def check_open_alloc(rep, facts, a, inplace_key):
    """R05.5 / R05.6 on the allocating open"""
    fn = a.body.key
    calls = [(bi, t, c) for bi, t, c in a.calls(lambda c: (c.get('resolved') or {}).get('key') == inplace_key or c.get('key') == inplace_key)]
    if len(calls) != 1:
        rep.bad('R05.6', fn, 'delegation', '%d call(s) to %s' % (len(calls), inplace_key), 'exactly one delegation to the in-place open', where(a))
        return
    bi, t, c = calls[0]
    args = [a.arg_val(bi, i) for i in range(len(t['args']))]
    rep.check(args[0] == ('param', 1), 'R05.6', fn, 'self-passthrough', pp(args[0]), 'self', where(a, a.term_point(bi)))
    # error propagated unchanged, Ok only after the callee's Ok
    def mentions_call(t):
        return any(isinstance(x, tuple) and x and x[0] == 'call' and len(x) > 3 and x[3] == bi and x[1].endswith(inplace_key.rsplit('::', 1)[-1])
                   for x in walk(t))
    n_prop = 0
    for s, tt, cls in ret_classes(a, facts):
        if isinstance(cls, tuple) and cls[0] == 'err' and mentions_call(tt):
            n_prop += 1
            same = tt[0] == 'from_residual' and tt[1][0] == 'residual' and tt[1][1][0] == 'call' and tt[1][1][3] == bi
            rep.check(same, 'R05.6', fn, 'error-identity', pp(tt)[:200],
                      'the in-place open\'s error, propagated by `?` unchanged', where(a, s))
        elif isinstance(cls, tuple) and cls[0] == 'tail' and mentions_call(tt):
            n_prop += 1
            rep.ok('R05.6', fn, 'error-identity', 'tail call: ' + pp(tt)[:160])
        elif cls == 'ok':
            # dominated by the Continue edge of a `?` on (something derived from) the delegation
            dom = False
            for b2 in a.cfg.dom_chain(s[0]):
                t2 = a.body.blocks[b2]['term']
                if t2['k'] == 'switch':
                    d = a.val_op(t2['discr'], a.term_point(b2))
                    if d[0] == 'discr' and d[1][0] == 'try' and mentions_call(d[1][1]):
                        dom = dom or a.cfg.edge_dominates(b2, switch_edge(t2, 0), s[0])
            rep.check(dom, 'R05.3', fn, 'ok-needs-inplace-ok', 'Ok return dominated by success of the in-place open: %s' % dom,
                      'plaintext is returned only if the in-place open succeeded', where(a, s))
    rep.check(n_prop >= 1, 'R05.6', fn, 'error-propagated', '%d return(s) carry the in-place open\'s error' % n_prop,
              'the in-place open\'s error reaches the caller', where(a, a.term_point(bi)))
    # R05.5: the split index
    from .c14 import open_split
    os_ = open_split(a)
    if os_ is None:
        rep.undecided('R05.5', fn, 'split', 'no single split of the input found', 'one split_at(len - tag_len) of the input (or the two complementary index expressions)', where(a))
        return
    sbi = os_['site']
    whole = ('param', 2)
    idx = os_['k']
    ctparam = 2
    okw = whole == ('param', ctparam)
    rep.check(okw, 'R05.5', fn, 'split-whole-input', pp(whole), 'split_at applied to the whole ciphertext parameter', where(a, a.term_point(sbi)))
    shape = False
    guard_err = None
    found = pp(idx)
    from .common import checked_sub_some
    cs = checked_sub_some(a, facts, idx)
    if cs is not None:
        x, y, _cbi, none_errs = cs
        len_ok = x == ('len', ('param', ctparam))
        tag_ok = y[0] == 'call' and y[1] == 'Serializable::size' and y[4] and y[4][2] and y[4][2].startswith('aead::AeadTag<')
        shape = len_ok and tag_ok
        guard_err = none_errs
    if not shape and idx[0] == 'bin' and idx[1] == 'Sub' and idx[2] == ('len', ('param', ctparam)):
        # explicit comparison + early return, then a plain subtraction
        y = idx[3]
        if y[0] == 'call' and y[1] == 'Serializable::size' and y[4] and (y[4][2] or '').startswith('aead::AeadTag<'):
            from .common import cmp_guard
            gs = [cmp_guard(a, b2, idx[2], y) for b2 in os_['sites']]
            g = {'guards': min(x['guards'] for x in gs), 'lt': any(x['lt'] for x in gs), 'eq': all(x['eq'] for x in gs), 'gt': all(x['gt'] for x in gs)}
            exact = g['guards'] >= 1 and not g['lt'] and g['eq'] and g['gt']
            rep.check(exact, 'R05.5', fn, 'split-guard', 'split reachable for len < Nt: %s, len == Nt: %s, len > Nt: %s (%d comparison guard(s))' % (g['lt'], g['eq'], g['gt'], g['guards']),
                      'the split is reached exactly when len >= Nt (len == Nt is the sealing of the empty plaintext and must be accepted)', where(a, a.term_point(sbi)))
            # the excluded case returns OpenError
            errs = [cls for s2, tt, cls in ret_classes(a, facts) if isinstance(cls, tuple) and cls[0] == 'err' and tt[0] == 'agg']
            rep.check(any(c[1] == frozenset(['OpenError']) for c in errs), 'R05.5', fn, 'short-input-error', [sorted(c[1]) for c in errs],
                      'a ciphertext shorter than a tag yields OpenError', where(a))
            return
    rep.check(shape, 'R05.5', fn, 'split-index', found,
              'len(ciphertext).checked_sub(AeadTag::size()) with the None case turned into an error (no unchecked subtraction)',
              where(a, a.term_point(sbi)))
    if shape:
        rep.check(bool(guard_err) and all(e == ['OpenError'] for e in guard_err), 'R05.5', fn, 'short-input-error', str(guard_err),
                  'a ciphertext shorter than a tag yields OpenError', where(a, a.term_point(sbi)))


def run(ctx):
    rep, facts = ctx.rep, ctx.facts
    sites = [SiteInfo(facts, a, bi, t, 'decrypt_in_place_detached') for a, bi, t, c in aead_sites(facts, 'decrypt_in_place_detached')]
    if not rep.floor('R05.0', 'opening sites (callers of AeadInPlace::decrypt_in_place_detached)', len(sites), 1):
        return
    incs = {}
    for si in sites:
        c04.check_site(rep, facts, si, 'open')
        incs.update(getattr(si, 'inc_calls', {}))
    for k in incs:
        c04.check_increment(rep, facts, k, 'R05.2')
    # R05.4 over all opening entry points
    checked = set()
    site_keys = {si.key for si in sites}
    eps = entry_points(facts)
    # the decrypt bodies first, then their callers
    order = [a for a in eps if a.body.key in site_keys] + [a for a in eps if a.body.key not in site_keys]
    n_open_eps = 0
    for a in order:
        calls_site = a.body.key in site_keys or any(
            ((c.get('resolved') or {}).get('key') in site_keys or c.get('key') in site_keys) for _, _, c in a.calls() if c)
        if not calls_site:
            continue
        n_open_eps += 1
        if check_overflow_first(rep, facts, a, checked):
            checked.add(a.body.key)
        if a.body.key not in site_keys:
            for k in site_keys:
                check_open_alloc(rep, facts, a, k)
    feats = facts.meta.get('features', [])
    rep.floor('R05.4', 'opening entry points taking &mut self', n_open_eps, 2 if ('alloc' in feats or 'std' in feats) else 1)
    rep.bodies_analysed = len(facts.body_list)
    rep.call_sites = sum(len(get_an(facts, b.key).calls()) for b in facts.body_list)
