"""Mode tables (shared by C02 R02.6, C08 R08.2, C15 R15.3): decision tables of the OpMode accessors."""
from ..prov import get_an, pp, bytes_of, fold_const
from .. import booldec
from .common import impl_bodies, where, base_trait

MODE_IDS = {'Base': 0, 'Psk': 1, 'Auth': 2, 'AuthPsk': 3}      # RFC 9180 §5 Table 1
PSK_MODES = ('Psk', 'AuthPsk')
AUTH_MODES = ('Auth', 'AuthPsk')


def adt_of_self(facts, self_ty):
    path = self_ty.split('<', 1)[0]
    return path, facts.adts.get(path)


def variants_of(adt):
    return [v['name'] for v in adt['variants']]


def field_index_of_type(adt, variant, ty_prefix):
    for v in adt['variants']:
        if v['name'] == variant:
            hits = [i for i, f in enumerate(v['fields']) if f['ty'].startswith(ty_prefix)]
            return hits[0] if len(hits) == 1 else None
    return None


def table_for(rep, rule, a, adt):
    fn = a.body.key
    try:
        tab = booldec.variant_table(a, variants_of(adt), lambda s: s == ('load', ('param', 1), ()))
        if a.body.key.endswith('::mode_id'):
            # `u8::from(auth.is_some()) << 1 | u8::from(psk.is_some())` over per-variant known Options is a number
            tab = {v: [(fold_const(rt, 'u8'), site) for rt, site in rows] for v, rows in tab.items()}
        return tab
    except booldec.Undecidable as e:
        rep.undecided(rule, fn, 'decision-table', str(e), 'a match on the mode enum only', where(a))
        return None


def is_empty_slice(t):
    b = bytes_of(t)
    return b == b''


def check_opmode_impls(rep, facts, rule, which=('mode_id', 'get_psk_bytes', 'get_psk_id')):
    n = 0
    for name in which:
        for b in impl_bodies(facts, 'op_mode::OpMode', name):
            if b.default_of:
                continue
            n += 1
            a = get_an(facts, b.key)
            fn = b.key
            path, adt = adt_of_self(facts, b.impl_of['self_ty'])
            if adt is None or set(variants_of(adt)) != set(MODE_IDS):
                rep.bad(rule, fn, 'mode-enum', '%s: %s' % (path, variants_of(adt) if adt else None),
                        'an enum with variants Base, Psk, Auth, AuthPsk', where(a))
                continue
            tab = table_for(rep, rule, a, adt)
            if tab is None:
                continue
            for v in variants_of(adt):
                rows = tab[v]
                if len(rows) != 1:
                    rep.bad(rule, fn, '%s:%s' % (name, v), '%d path(s)' % len(rows), 'exactly one result per mode', where(a))
                    continue
                rt, site = rows[0]
                if name == 'mode_id':
                    rep.check(rt == ('const', 'u8', MODE_IDS[v]), rule, fn, 'mode_id:%s' % v, pp(rt),
                              'mode byte 0x%02x (RFC 9180 Table 1)' % MODE_IDS[v], where(a, site))
                else:
                    field = 'psk' if name == 'get_psk_bytes' else 'psk_id'
                    if v in PSK_MODES:
                        idx = field_index_of_type(adt, v, 'op_mode::PskBundle')
                        want = ('load', ('param', 1), (('v', v), ('f', str(idx)), ('f', field)))
                        rep.check(rt == want, rule, fn, '%s:%s' % (name, v), pp(rt),
                                  'the bundle\'s `%s` field of the %s variant' % (field, v), where(a, site))
                    else:
                        rep.check(is_empty_slice(rt), rule, fn, '%s:%s' % (name, v), pp(rt),
                                  'the empty default (RFC 9180 §5.1 default_%s = "")' % field, where(a, site))
    return n


def check_identity_accessors(rep, facts, rule):
    """R08.2: Auth, AuthPsk -> Some(the variant's key material); Base, Psk -> None"""
    n = 0
    for key, kind in (("op_mode::OpModeS<'_, Kem>::get_sender_id_keypair", 'keypair'),
                      ("op_mode::OpModeR<'_, Kem>::get_pk_sender_id", 'pk')):
        a = get_an(facts, key)
        if a is None:
            # re-find by role: inherent methods of the mode enums returning Option<..>
            cands = [b for b in facts.body_list if b.impl_of and not b.impl_of.get('trait')
                     and b.impl_of['self_ty'].startswith('op_mode::OpMode') and b.sig and b.sig['output'].startswith('core::option::Option<')
                     and (('PrivateKey' in b.sig['output']) == (kind == 'keypair'))]
            if len(cands) == 1:
                a = get_an(facts, cands[0].key)
        if a is None:
            rep.anchor_lost(rule, 'identity accessor (%s)' % kind, key, 'not found')
            continue
        n += 1
        fn = a.body.key
        path, adt = adt_of_self(facts, a.body.impl_of['self_ty'])
        tab = table_for(rep, rule, a, adt)
        if tab is None:
            continue
        for v in variants_of(adt):
            rows = tab[v]
            if len(rows) != 1:
                rep.bad(rule, fn, 'identity:%s' % v, '%d path(s)' % len(rows), 'exactly one result per mode', where(a))
                continue
            rt, site = rows[0]
            if v in AUTH_MODES:
                ok = rt[0] == 'agg' and rt[2] == 'core::option::Option::Some'
                if ok:
                    payload = rt[3][0]
                    if kind == 'pk':
                        ok = payload == ('addr', ('pointee', ('param', 1)), (('v', v), ('f', '0')), False)
                    else:
                        ok = (payload[0] == 'agg' and payload[1] == 'tuple' and len(payload[3]) == 2 and
                              payload[3][0] == ('addr', ('pointee', ('param', 1)), (('v', v), ('f', '0'), ('f', '0')), False) and
                              payload[3][1] == ('addr', ('pointee', ('param', 1)), (('v', v), ('f', '0'), ('f', '1')), False))
                rep.check(ok, rule, fn, 'identity:%s' % v, pp(rt), 'Some(identity key material stored in the %s variant)' % v, where(a, site))
            else:
                rep.check(rt[0] == 'agg' and rt[2] == 'core::option::Option::None', rule, fn, 'identity:%s' % v, pp(rt),
                          'None (no sender identity in mode %s)' % v, where(a, site))
    return n
