"""C15 — PSK bundle (DESIGN §5 C15: R15.1 … R15.4)."""
from ..prov import get_an, pp, bytes_of, strip_sites
from .. import booldec
from .common import all_ans, aggregates_of, where, hpke_variant, is_ok_agg, is_err_agg, bodies_calling
from . import modes

EXPLANATION = (
    'Static analysis of MIR (all cargo features). R15.1: the complete decision table of PskBundle::new over the two '
    'emptiness atoms (psk.is_empty(), psk_id.is_empty()) is enumerated on the CFG (finite abstraction, exhaustive, '
    'exact for all byte strings because the function branches on nothing else): Ok iff both atoms agree, otherwise '
    'Err(InvalidPskBundle). R15.2: the Ok payload stores parameter 0 in `psk` and parameter 1 in `psk_id`. R15.3: the '
    'per-mode selection tables of get_psk_bytes/get_psk_id for both mode enums, and the key-schedule slots (psk -> ikm '
    'of "secret", psk_id -> ikm of "psk_id_hash"). R15.4: PskBundle values are only built in `new`; fields are private.')
TRUSTED = ['rustc MIR construction', '<[u8]>::is_empty semantics']
ASSUME = []

BUNDLE = 'op_mode::PskBundle'


def find_new(facts):
    cands = [b for b in facts.body_list if b.impl_of and not b.impl_of.get('trait') and
             b.impl_of['self_ty'].startswith(BUNDLE) and b.raw.get('exported') and b.sig and BUNDLE in b.sig['output']]
    return cands


def atom_kind(x):
    """('psk'|'psk_id') for is_empty(param) / len(param)==0 atoms"""
    if x[0] == 'call' and x[1].endswith('::is_empty') and len(x[2]) == 1 and x[2][0][0] == 'param':
        return x[2][0][1], True
    if x[0] == 'bin' and x[1] in ('Eq', 'Ne') and x[2][0] == 'len' and x[2][1][0] == 'param' and x[3] == ('const', 'usize', 0):
        return x[2][1][1], x[1] == 'Eq'
    return None, None


def check_len_grid(rep, facts, a, fn):
    reps, rows = booldec.len_grid_table(a, [1, 2])
    bad = 0
    for env, rt, site in rows:
        l1, l2 = env[1], env[2]
        inst = 'len(psk)=%s%s, len(psk_id)=%s%s' % (l1, '+' if l1 == reps[-1] else '', l2, '+' if l2 == reps[-1] else '')
        if (l1 == 0) == (l2 == 0):
            ok = is_ok_agg(rt)
            if ok:
                pl = rt[3][0]
                fields = dict(zip(pl[4], pl[3])) if pl[0] == 'agg' else {}
                okf = pl[0] == 'agg' and pl[2].startswith(BUNDLE) and fields.get('psk') == ('param', 1) and fields.get('psk_id') == ('param', 2)
                if not okf:
                    rep.bad('R15.2', fn, 'fields:' + inst, pp(pl), 'PskBundle { psk: <param 0>, psk_id: <param 1> }', where(a, site))
            if not ok:
                bad += 1
                rep.bad('R15.1', fn, inst, pp(rt), 'Ok(bundle): both empty or both non-empty', where(a, site))
        else:
            ok = is_err_agg(rt) and hpke_variant(rt[3][0]) == 'InvalidPskBundle'
            if not ok:
                bad += 1
                rep.bad('R15.1', fn, inst, pp(rt), 'Err(InvalidPskBundle): a lone key or lone identifier', where(a, site))
    if not bad:
        rep.ok('R15.1', fn, 'length-grid', '%d x %d representative length pairs (0..%d, %d+): Ok iff both empty or both non-empty' % (
            len(reps), len(reps), reps[-1] - 1, reps[-1]))
        rep.ok('R15.2', fn, 'fields', 'every Ok row stores (psk, psk_id) in order')
    rep.extra['exhaustive'] = True


def run(ctx):
    rep, facts = ctx.rep, ctx.facts
    news = find_new(facts)
    if not rep.floor('R15.1', 'public PskBundle constructors', len(news), 1):
        return
    for b in news:
        a = get_an(facts, b.key)
        fn = b.key
        try:
            atoms, rows = booldec.bool_table(a, lambda x: atom_kind(x)[0] is not None)
        except booldec.Undecidable as e:
            # general form: comparisons of the two lengths with constants (slice patterns, `len() >= 1`, ...)
            try:
                check_len_grid(rep, facts, a, fn)
            except booldec.Undecidable as e2:
                rep.undecided('R15.1', fn, 'decision-table', '%s / %s' % (e, e2), 'branches only on the lengths of the two parameters', where(a))
            continue
        # evaluate all four valuations
        for e1 in (True, False):
            for e2 in (True, False):
                res = []
                for asg, rt, site in rows:
                    okrow = True
                    for x, val in asg.items():
                        p, pos = atom_kind(x)
                        actual = (e1 if p == 1 else e2) if pos else not (e1 if p == 1 else e2)
                        if actual != val:
                            okrow = False
                    if okrow:
                        res.append((rt, site))
                inst = 'psk %s, psk_id %s' % ('empty' if e1 else 'non-empty', 'empty' if e2 else 'non-empty')
                if len(res) != 1:
                    rep.bad('R15.1', fn, inst, '%d matching path(s)' % len(res), 'a unique outcome', where(a))
                    continue
                rt, site = res[0]
                if e1 == e2:
                    rep.check(is_ok_agg(rt), 'R15.1', fn, inst, pp(rt), 'Ok(bundle): both empty or both non-empty', where(a, site))
                    if is_ok_agg(rt):
                        pl = rt[3][0]
                        fields = dict(zip(pl[4], pl[3])) if pl[0] == 'agg' else {}
                        rep.check(pl[0] == 'agg' and pl[2].startswith(BUNDLE) and fields.get('psk') == ('param', 1) and fields.get('psk_id') == ('param', 2),
                                  'R15.2', fn, 'fields:' + inst, pp(pl), 'PskBundle { psk: <param 0>, psk_id: <param 1> }', where(a, site))
                else:
                    rep.check(is_err_agg(rt) and hpke_variant(rt[3][0]) == 'InvalidPskBundle', 'R15.1', fn, inst, pp(rt),
                              'Err(InvalidPskBundle): a lone key or lone identifier', where(a, site))
        rep.extra['exhaustive'] = True
    # R15.3 selection tables + slots
    n = modes.check_opmode_impls(rep, facts, 'R15.3', which=('get_psk_bytes', 'get_psk_id'))
    rep.floor('R15.3', 'get_psk_bytes/get_psk_id impls', n, 4)
    slots = {}
    for a, bi, t, c in bodies_calling(facts, path='kdf::labeled_extract'):
        label = bytes_of(a.arg_val(bi, 2))
        ikm = a.arg_val(bi, 3)
        if label in (b'psk_id_hash', b'secret'):
            slots[label] = (a, bi, ikm)
    for label, acc in ((b'psk_id_hash', 'get_psk_id'), (b'secret', 'get_psk_bytes')):
        if label not in slots:
            rep.anchor_lost('R15.3', 'labeled_extract with label %r' % label, 'present in the key schedule', 'not found')
            continue
        a, bi, ikm = slots[label]
        ok = ikm[0] == 'call' and ikm[1] == 'op_mode::OpMode::' + acc and ikm[2] == (('param', 1),)
        rep.check(ok, 'R15.3', a.body.key, 'slot:%s' % label.decode(), pp(ikm), 'ikm = mode.%s()' % acc, where(a, a.term_point(bi)))
    # R15.4 construction sites and field privacy
    sites = 0
    newkeys = {b.key for b in news}
    for a in all_ans(facts):
        for s, st in aggregates_of(a, BUNDLE):
            sites += 1
            rep.check(a.body.key in newkeys, 'R15.4', a.body.key, 'construction-site', 'PskBundle{..} built here',
                      'bundles are only built by the validating constructor', where(a, s))
    adt = facts.adts.get(BUNDLE)
    if adt is None:
        rep.anchor_lost('R15.4', BUNDLE, 'the bundle type', 'not found')
    else:
        for f in adt['variants'][0]['fields']:
            rep.check(f['vis'] != 'pub', 'R15.4', BUNDLE, 'field-private:' + f['name'], f['vis'], 'private field (no struct-literal construction outside the crate)')
    rep.floor('R15.4', 'PskBundle construction sites', sites, 1)
    rep.bodies_analysed = len(facts.body_list)
