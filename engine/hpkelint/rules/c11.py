"""C11 — export (DESIGN §5 C11: R11.1 … R11.5)."""
from ..prov import get_an, pp, bytes_of
from .. import witness
from .common import (result_outcome, is_ok_agg, all_ans, where, adt_field_stores, adt_field_mut_borrows, closure_ret, hpke_variant, impl_bodies, ret_classes,
                     fn_err_variants)
from . import c02, rfc9180 as rfc

EXPLANATION = (
    'Static analysis of MIR, type facts and compiler witnesses (all cargo features). R11.1: export = '
    'Hkdf::from_prk(self.exporter_secret) -> LabeledExpand(self.suite_id, "sec", exporter_context, out) with any Err '
    'mapped to KdfOutputTooLong and Ok passed through; the sender/receiver wrappers pass both parameters through '
    'unchanged. R11.2 history independence: export takes &self, the context types are Freeze for all suites (rustc '
    'witness), and exporter_secret / suite_id have the constructor as their only writer in the whole crate — so no '
    'sequence of seal/open/export calls can change the inputs of R11.1; both roles are built by the same constructor '
    'from the same key-schedule terms. R11.3: exporter_secret = LabeledExpand(secret, "exp", key_schedule_context, Nh) '
    '(the key-schedule rules of C02 re-evaluated). R11.4 length limit: the HKDF result is propagated unchanged through '
    'labeled_expand and export (no path returns Ok without it, none rewrites its Ok), and 255*Nh <= 65535 for every '
    'KDF so the u16 prefix never truncates on an Ok path; the okm.len() > 255*Nh test itself is inside hkdf 0.12 '
    '(trusted). R11.5 export-only: the inert AEAD\'s encrypt/decrypt bodies have no path to Return (they diverge), '
    'Nk = Nt = 0, id 0xFFFF, nonce size >= 8. Not decided: the numerical value of HKDF output.')
TRUSTED = ['hkdf 0.12.4 Hkdf::expand_multi_info returns InvalidLength iff okm.len() > 255*Nh', 'rustc auto-trait solver (Freeze)']
ASSUME = ['HKDF-Expand is a deterministic function of (prk, info, L)']


def check_export_errors(rep, facts, rule='R11.1'):
    n = 0
    inner = None
    for a in all_ans(facts):
        b = a.body
        if not (b.impl_of and b.impl_of.get('name') == 'export' and b.impl_of['self_ty'].startswith('aead::AeadCtx')):
            continue
        n += 1
        fn = b.key
        if b.impl_of['self_ty'].startswith('aead::AeadCtx<'):
            inner = b.key
            # form-independent (after normalisation `.map_err(f)`, `match` and `?` are one shape): exactly one branch decides on
            # the labeled_expand result; on its failure edge every return is Err(KdfOutputTooLong); on its success edge every
            # return is Ok(the unit payload of the HKDF result); nothing returns without passing that branch
            ex = a.calls(lambda c: c['name'] == 'labeled_expand')
            ok = False
            found = '%d labeled_expand call(s)' % len(ex)
            single = False
            if len(ex) == 1:
                xbi = ex[0][0]
                o = result_outcome(a, facts, xbi)
                if o is not None:
                    hows = sorted({h for _, _, h in o['err_returns']})
                    oks = []
                    outside = []
                    for s_, tt in a.return_terms():
                        if s_ in (None, 'entry'):
                            outside.append(pp(tt)[:60])
                        elif a.cfg.edge_dominates(o['ok_edge'][0], o['ok_edge'][1], s_[0]):
                            pl = tt[3][0] if is_ok_agg(tt) and len(tt[3]) == 1 else None
                            oks.append(pl is not None and (pl == ('agg', 'tuple', 'tuple', (), ()) or (pl[0] == 'okval' and pl[1][0] == 'call' and pl[1][3] == xbi)))
                        elif not a.cfg.edge_dominates(o['err_edge'][0], o['err_edge'][1], s_[0]):
                            outside.append(pp(tt)[:60])
                    ok = hows == ['KdfOutputTooLong'] and bool(oks) and all(oks)
                    single = not outside
                    found = '%s form; failure -> %s; success returns Ok(()): %s; returns not decided by the HKDF verdict: %s' % (o['form'], hows, oks, outside)
            rep.check(ok, rule, fn, 'error-mapping', found, 'Ok iff labeled_expand returned Ok, every Err becomes KdfOutputTooLong', where(a))
            rep.check(single, 'R11.4', fn, 'single-return', found, 'no path returns without the HKDF verdict', where(a))
        else:
            rt = a.ret_val()
            ok = rt[0] == 'call' and rt[4] and rt[4][3] and rt[4][3].endswith('>::export') and pp(rt[2][0]) == '&*p1.0' and rt[2][1:] == (('param', 2), ('param', 3))
            rep.check(ok, rule, fn, 'wrapper-passthrough', pp(rt)[:160], 'self.0.export(exporter_context, out) — both parameters unchanged, result returned as is', where(a))
        rep.check(b.sig['inputs'][0].startswith('&aead::AeadCtx'), 'R11.2', fn, 'shared-receiver', b.sig['inputs'][0], 'export takes &self', where(a))
    return n


def check_single_writer(rep, facts, rule='R11.2'):
    fields = ('exporter_secret', 'suite_id', 'base_nonce', 'encryptor')
    hits = []
    for a in all_ans(facts):
        for s, f, st in adt_field_stores(a, 'aead::AeadCtx') + adt_field_mut_borrows(a, 'aead::AeadCtx'):
            if f in fields:
                hits.append((a.body.key, f, a.line_at(s)))
    rep.check(not hits, rule, '-', 'export-inputs-never-written', hits, 'exporter_secret and suite_id are only set by the constructor (single writer)', None)


def check_freeze(rep, ctx, facts, rule='R11.2'):
    ok, asserts, fails, raw = witness.check(ctx.repo, facts)
    ctxs = [(i, t) for i, (f, t) in enumerate(asserts) if t.startswith('hpke::aead::AeadCtx')]
    bad = [x for x in fails if x[0] is None or any(x[0] == i for i, _ in ctxs)]
    # history independence needs Freeze only; a lost Send/Sync (reported by rustc on the same assertion) is C18's R18.5
    bad = [x for x in bad if x[0] is None or not ('cannot be sent between threads' in x[2] or 'cannot be shared between threads' in x[2])]
    rep.check(not bad, rule, 'witness', 'contexts-freeze', '%d context instantiations checked by rustc, failures: %s' % (len(ctxs), bad[:2]),
              'AeadCtxS/AeadCtxR are Freeze (no interior mutability) for every AEAD x KDF x KEM combination', None)
    rep.extra['witness_assertions'] = len(ctxs)


def check_export_only(rep, facts, rule='R11.5'):
    ims = [im for im in facts.impls_of('aead::Aead') if im['consts'].get('AEAD_ID') == 0xFFFF]
    if not rep.floor(rule, 'export-only AEAD', len(ims), 1):
        return
    it = ims[0]['types']['AeadImpl']['ty']
    d = facts.derived.get(it, {})
    sizes = {k.rsplit('::', 1)[-1]: v.get('usize') for k, v in d.items()}
    rep.check(sizes.get('TagSize') == 0 and sizes.get('KeySize') == 0, rule, it, 'zero-sizes', sizes, 'Nk = Nt = 0 for the export-only suite', None)
    rep.check((sizes.get('NonceSize') or 0) >= 8, rule, it, 'nonce-size', sizes.get('NonceSize'), 'nonce size >= 8, so ComputeNonce cannot underflow before the panic', None)
    n = 0
    for name in ('encrypt_in_place_detached', 'decrypt_in_place_detached'):
        for b in impl_bodies(facts, 'aead::AeadInPlace', name):
            if b.impl_of['self_ty'] != it:
                continue
            n += 1
            a = get_an(facts, b.key)
            rep.check(not a.cfg.returns and bool(a.cfg.diverging), rule, b.key, 'diverges', 'return blocks: %s, diverging: %s' % (a.cfg.returns, a.cfg.diverging),
                      'no path to Return: sealing/opening with the export-only AEAD panics instead of producing output', where(a))
    rep.floor(rule, 'inert encrypt/decrypt bodies', n, 2)


def run(ctx):
    rep, facts = ctx.rep, ctx.facts
    n = c02.check_export(rep, facts, rule='R11.1')
    n2 = check_export_errors(rep, facts)
    rep.floor('R11.1', 'export bodies (inner + two wrappers)', n2, 3)
    check_single_writer(rep, facts)
    if facts.meta.get('config', 'all') == 'all':
        check_freeze(rep, ctx, facts)
    c02.check_key_schedule(rep, facts, rule='R11.3')
    c02.check_labeled_expand(rep, facts, rule='R11.4')
    for im in facts.impls_of('kdf::Kdf'):
        ht = im['types'].get('HashImpl', {}).get('ty', '')
        nh = None
        for k2, v2 in facts.derived.get(ht, {}).items():
            if k2.endswith('OutputSizeUser::OutputSize'):
                nh = v2.get('usize')
        rep.check(nh is not None and 255 * nh <= 65535, 'R11.4', im['self_ty'], 'limit-is-hkdfs', '255*Nh = %s' % (255 * nh if nh else None),
                  'the binding limit is HKDF\'s 255*Nh (<= 65535), the u16 prefix can only agree with it', None)
    check_export_only(rep, facts)
    from .common import check_suite_parametric
    check_suite_parametric(rep, facts, 'R11.6', scope=lambda b: 'export' in b.key or b.key.startswith(('setup::', 'kdf::')),
                           floor=4, what='export / key-schedule / KDF bodies generic over the suite')
    rep.bodies_analysed = len(facts.body_list)
