"""Helpers shared by the rule modules."""
from ..mirjson import callee_of
from ..tyutil import typenum_usize
from ..prov import An, get_an, pp, walk, strip_generics, bytes_of, contains

HPKE_ERR = 'HpkeError'


def base_trait(s):
    """'op_mode::OpMode<Kem>' -> 'op_mode::OpMode'"""
    if s is None:
        return None
    i = s.find('<')
    return s if i < 0 else s[:i]


def all_ans(facts):
    # closures whose every use was expanded in place are dead code (normalize.drop_dead_closures, N6): nothing can run them,
    # their statements are looked at where they were inlined
    dead = set(facts.meta.get('closures_dead') or [])
    for b in facts.body_list:
        if b.key in dead:
            continue
        a = get_an(facts, b.key)
        if a is not None:
            yield a


def bodies_calling(facts, trait=None, name=None, path=None, exclude_impls_of=None):
    """[(An, bi, term, callee)] over the crate"""
    out = []
    for a in all_ans(facts):
        io = a.body.impl_of
        if exclude_impls_of and io and base_trait(io.get('trait')) == exclude_impls_of:
            continue
        for bi, t, c in a.calls():
            if c is None:
                continue
            if trait is not None and c.get('trait') != trait:
                continue
            if name is not None and c.get('name') != name:
                continue
            if path is not None and strip_generics(c['path']) != path:
                continue
            out.append((a, bi, t, c))
    return out


def impl_bodies(facts, trait, name):
    """bodies implementing trait::name (trait without generic args), incl. the default body"""
    out = []
    for b in facts.body_list:
        io = b.impl_of
        if io and base_trait(io.get('trait')) == trait and io.get('name') == name:
            out.append(b)
        d = b.default_of
        if d and d.get('trait') == trait and d.get('name') == name:
            out.append(b)
    return out


def callee_targets(facts, info, path=None):
    """local bodies a call may dispatch to: the resolved body, else CHA over impls"""
    if info is None:
        return []
    trait, name, self_ty, rkey = info[0], info[1], info[2], info[3]
    if rkey:
        b = facts.body(rkey)
        return [b] if b is not None else []
    if trait:
        return impl_bodies(facts, trait, name)
    if path and facts.body(path):
        return [facts.body(path)]
    return []


# ---------------------------------------------------------------------- places / stores
def place_fields(place):
    """[(fieldname, adt)] of the field projections of a place"""
    return [(e['f'], e.get('adt')) for e in place['p'] if isinstance(e, dict) and 'f' in e]


def adt_field_stores(a, adt):
    """[(site, fieldname, stmt)] — assignments (incl. call destinations) whose target place goes through
    a field of `adt`"""
    out = []
    for bi, blk in enumerate(a.body.blocks):
        if blk['cleanup'] or bi not in a.cfg.reach:
            continue
        for si, st in enumerate(blk['stmts']):
            if st['k'] in ('assign', 'set_discr'):
                for f, ad in place_fields(st['place']):
                    if ad == adt:
                        out.append(((bi, si), f, st))
                        break
        t = blk['term']
        if t['k'] == 'call':
            for f, ad in place_fields(t['dest']):
                if ad == adt:
                    out.append((a.term_point(bi), f, t))
                    break
    return out


def adt_field_mut_borrows(a, adt):
    """[(site, fieldname, stmt)] — `&mut` / `&raw mut` taken of a place through a field of adt"""
    out = []
    for bi, blk in enumerate(a.body.blocks):
        if blk['cleanup'] or bi not in a.cfg.reach:
            continue
        for si, st in enumerate(blk['stmts']):
            if st['k'] == 'assign' and st['rv']['k'] in ('ref', 'rawptr') and st['rv'].get('mut'):
                for f, ad in place_fields(st['rv']['place']):
                    if ad == adt:
                        out.append(((bi, si), f, st))
                        break
    return out


def aggregates_of(a, adt):
    """[(site, stmt)] aggregate constructions of adt"""
    out = []
    for bi, blk in enumerate(a.body.blocks):
        if blk['cleanup'] or bi not in a.cfg.reach:
            continue
        for si, st in enumerate(blk['stmts']):
            if st['k'] == 'assign' and st['rv']['k'] == 'aggregate' and st['rv'].get('adt') == adt:
                out.append(((bi, si), st))
    return out


def ctor_uses(a, adt):
    """[(bi, call term, arg index)] — the tuple-struct constructor of `adt` passed around as a function value"""
    out = []
    for bi, blk in enumerate(a.body.blocks):
        if blk['cleanup'] or bi not in a.cfg.reach:
            continue
        t = blk['term']
        if t['k'] == 'call':
            for i, x in enumerate(t['args']):
                if x.get('k') == 'const' and 'fn' in x and x['fn'].get('def_kind', '').startswith('Ctor') and x['fn'].get('ctor_of') == adt:
                    out.append((bi, t, i))
            f = t['func']
            if f.get('k') == 'const' and 'fn' in f and f['fn'].get('def_kind', '').startswith('Ctor') and f['fn'].get('ctor_of') == adt:
                out.append((bi, t, -1))
        for si, st in enumerate(blk['stmts']):
            if st['k'] == 'assign':
                txt = str(st['rv'])
                if "'ctor_of': '%s'" % adt in txt:
                    out.append((bi, st, -2))
    return out


# ---------------------------------------------------------------------- returns / errors
def is_ok_agg(t):
    return t[0] == 'agg' and t[2] == 'core::result::Result::Ok'


def is_err_agg(t):
    return t[0] == 'agg' and t[2] == 'core::result::Result::Err'


def hpke_variant(t):
    """'OpenError' for agg HpkeError::OpenError{..}"""
    if t[0] == 'agg' and t[2].startswith(HPKE_ERR + '::'):
        return t[2].split('::', 1)[1]
    return None


def closure_ret(facts, t):
    if t[0] == 'closure':
        a = get_an(facts, t[1])
        if a is not None:
            return a.ret_val()
    if t[0] == 'fn':
        return ('ctor', t[1])
    return None


def result_err_variants(facts, x, depth=0):
    """HpkeError variants a Result-valued term may carry in Err; '?<why>' entries mean undecided"""
    if depth > 6:
        return {'?depth'}
    k = x[0]
    if k == 'agg':
        if is_ok_agg(x):
            return set()
        if is_err_agg(x):
            v = hpke_variant(x[3][0])
            return {v} if v else {'?err:' + pp(x[3][0])[:60]}
    if k == 'from_residual':
        r = x[1]
        if r[0] == 'residual':
            return result_err_variants(facts, r[1], depth + 1)
        return {'?residual'}
    if k == 'call':
        path = x[1]
        if path == 'core::result::Result::map_err':
            cr = closure_ret(facts, x[2][1])
            if cr is not None:
                v = hpke_variant(cr)
                return {v} if v else {'?closure:' + pp(cr)[:60]}
            return {'?map_err'}
        if path == 'core::option::Option::ok_or':
            v = hpke_variant(x[2][1])
            return {v} if v else {'?ok_or'}
        info = x[4] if len(x) > 4 else None
        tg = callee_targets(facts, info, path)
        if tg:
            out = set()
            for b in tg:
                out |= fn_err_variants(facts, b.key, depth + 1)
            return out
        return {'?call:' + path}
    if k == 'phi':
        out = set()
        for _, t in x[1]:
            out |= result_err_variants(facts, t, depth + 1)
        return out
    if k == 'mem':
        return result_err_variants(facts, x[2], depth + 1)
    return {'?term:' + k}


def fn_err_variants(facts, key, depth=0):
    cache = facts.__dict__.setdefault('_errset_cache', {})
    if key in cache:
        return cache[key]
    cache[key] = set()   # recursion guard
    a = get_an(facts, key)
    if a is None:
        return {'?nobody:' + key}
    out = set()
    for _, t in a.return_terms():
        out |= result_err_variants(facts, t, depth)
    cache[key] = out
    return out


def ret_classes(a, facts):
    """[(site, term, cls)]; cls = 'ok' | ('err', frozenset(variants)) | ('tail', path) """
    out = []
    for s, t in a.return_terms():
        if is_ok_agg(t):
            out.append((s, t, 'ok'))
        elif is_err_agg(t) or t[0] == 'from_residual':
            out.append((s, t, ('err', frozenset(result_err_variants(facts, t)))))
        elif t[0] == 'call':
            out.append((s, t, ('tail', t[1])))
        else:
            out.append((s, t, ('other', t[0])))
    return out


# ---------------------------------------------------------------------- paths
def enumerate_paths(cfg, src, dst, limit=5000):
    """all simple block paths src->dst on the normal CFG; None if a cycle is reachable or too many"""
    if cfg.back_edges():
        # only refuse if a back edge lies between src and dst
        for (x, y) in cfg.back_edges():
            if x in cfg.fwd(src) and dst in cfg.fwd(y):
                return None
    out = []
    st = [(src, (src,))]
    while st:
        x, p = st.pop()
        if x == dst:
            out.append(p)
            if len(out) > limit:
                return None
            continue
        for y in cfg.succ[x]:
            if dst in cfg.fwd(y) and y not in p:
                st.append((y, p + (y,)))
    return out


def site_reaches(a, s, d):
    """site s can execute before site d"""
    return a._site_reaches(s, d)


def switch_on(a, pred):
    """[(bi, term, discr_term)] of switches whose discriminant term satisfies pred"""
    out = []
    for bi, blk in enumerate(a.body.blocks):
        if blk['cleanup'] or bi not in a.cfg.reach:
            continue
        t = blk['term']
        if t['k'] == 'switch':
            d = a.val_op(t['discr'], a.term_point(bi))
            if pred(d):
                out.append((bi, t, d))
    return out


def switch_edge(t, value):
    """target block of a switch for an integer value"""
    for v, bb in t['targets']:
        if v == value:
            return bb
    return t['otherwise']


_REL = {'Eq': lambda x, y: x == y, 'Ne': lambda x, y: x != y, 'Lt': lambda x, y: x < y, 'Le': lambda x, y: x <= y,
        'Gt': lambda x, y: x > y, 'Ge': lambda x, y: x >= y}


def cmp_guard(a, block, lhs, rhs):
    """which of the cases lhs < rhs / lhs == rhs / lhs > rhs can reach `block`, judging only by the dominating
    branches whose condition compares the two (stripped) terms. -> {'lt': bool, 'eq': bool, 'gt': bool, 'guards': n}"""
    from ..prov import strip_sites
    lhs, rhs = strip_sites(lhs), strip_sites(rhs)
    cases = {'lt': (0, 1), 'eq': (1, 1), 'gt': (2, 1)}
    reach = {k: True for k in cases}
    n = 0

    def ev(x, l, r):
        if x == lhs:
            return l
        if x == rhs:
            return r
        if x[0] == 'un' and x[1] == 'Not':
            v = ev(x[2], l, r)
            return None if v is None else (not v)
        if x[0] == 'bin' and x[1] in _REL:
            p, q = ev(x[2], l, r), ev(x[3], l, r)
            if p is None or q is None or isinstance(p, bool) or isinstance(q, bool):
                return None
            return _REL[x[1]](p, q)
        return None
    for b2 in a.cfg.dom_chain(block)[:-1]:
        t = a.body.blocks[b2]['term']
        if t['k'] != 'switch':
            continue
        d = strip_sites(a.val_op(t['discr'], a.term_point(b2)))
        if ev(d, 0, 1) is None or not isinstance(ev(d, 0, 1), bool):
            continue
        n += 1
        for k, (l, r) in cases.items():
            v = 1 if ev(d, l, r) else 0
            tgt = switch_edge(t, v)
            others = {bb for _, bb in t['targets']} | {t['otherwise']}
            if not a.cfg.edge_dominates(b2, tgt, block) and len(others) > 1:
                # the edge taken in this case does not lead (exclusively) to block: is block still reachable from it?
                if not a.cfg.reaches_avoiding(tgt, block) or all(a.cfg.edge_dominates(b2, o, block) for o in others if o != tgt):
                    reach[k] = False
    reach['guards'] = n
    return reach


def alias_locals(a, l):
    """locals that hold the same value/reference as local l: plain copies/moves of it and whole reborrows `&*l`
    (argument passing of an inlined helper, `let x = y;`)"""
    return alias_locals_from(a, {l})


def _alias_src(st):
    rv = st['rv']
    if rv['k'] == 'use' and rv['op']['k'] in ('copy', 'move') and not rv['op']['place']['p']:
        return rv['op']['place']['l']
    if rv['k'] == 'ref' and rv['place']['p'] == ['deref']:
        return rv['place']['l']
    return None


def alias_locals_from(a, start):
    al = set(start)
    changed = True
    while changed:
        changed = False
        for blk in a.body.blocks:
            for st in blk['stmts']:
                if st['k'] != 'assign' or st['place']['p'] or st['place']['l'] in al:
                    continue
                src = _alias_src(st)
                if src not in al:
                    continue
                x = st['place']['l']
                ds = a.defs.get(x, [])
                # one definition, or several that are all the same kind of copy of an alias (a statement duplicated into
                # several paths by the normaliser's jump threading)
                ok = len(ds) == 1
                if not ok and ds:
                    ok = all(isinstance(dd, tuple) and a.stmt_at(dd).get('k') == 'assign' and not a.stmt_at(dd)['place']['p']
                             and _alias_src(a.stmt_at(dd)) in al for dd in ds)
                if ok:
                    al.add(x)
                    changed = True
    return al


def closure_carriers(a, al):
    """closure values that merely *carry* the reference held by the locals `al` (captured by an inlined closure literal):
    {closure local: set of capture positions}.  Reading such a capture back (`copy c.k`) yields the reference again; `al` is
    extended in place with those reads.  A carrier that escapes (call argument, stored, returned) is not listed: every
    occurrence of it then counts as a use."""
    car = {}
    changed = True
    while changed:
        changed = False
        for blk in a.body.blocks:
            for st in blk['stmts']:
                if st['k'] != 'assign' or st['place']['p']:
                    continue
                x, rv = st['place']['l'], st['rv']
                if rv['k'] == 'aggregate' and rv.get('agg') == 'closure' and x not in car:
                    pos = {i for i, f in enumerate(rv['fields']) if f.get('k') in ('copy', 'move') and not f['place']['p'] and f['place']['l'] in al}
                    ds = a.defs.get(x, [])
                    same = len(ds) == 1 or all(
                        isinstance(dd, tuple) and a.stmt_at(dd).get('k') == 'assign' and a.stmt_at(dd)['rv'].get('k') == 'aggregate'
                        and a.stmt_at(dd)['rv'].get('closure') == rv.get('closure') for dd in ds)
                    if pos and same:
                        car[x] = pos
                        changed = True
                elif rv['k'] == 'use' and rv['op']['k'] in ('copy', 'move'):
                    pl = rv['op']['place']
                    if not pl['p'] and pl['l'] in car and x not in car and len(a.defs.get(x, [])) == 1:
                        car[x] = set(car[pl['l']])
                        changed = True
                    elif pl['l'] in car and len(pl['p']) == 1 and isinstance(pl['p'][0], dict) and pl['p'][0].get('i') in car[pl['l']] \
                            and x not in al and len(a.defs.get(x, [])) == 1:
                        al.add(x)
                        changed = True
    # escape: any other occurrence of a carrier
    def occurs(xj, skip_stmt=None):
        found = []

        def scan(y):
            if isinstance(y, dict):
                if 'l' in y and 'p' in y and y['l'] in car:
                    found.append(y['l'])
                for v in y.values():
                    scan(v)
            elif isinstance(y, list):
                for v in y:
                    scan(v)
        scan(xj)
        return found
    bad = set()
    for blk in a.body.blocks:
        if blk['cleanup']:
            continue
        for st in blk['stmts']:
            if st['k'] == 'assign' and not st['place']['p']:
                x, rv = st['place']['l'], st['rv']
                if x in car and rv['k'] == 'aggregate':
                    continue
                if rv['k'] == 'use' and rv['op']['k'] in ('copy', 'move') and rv['op']['place']['l'] in car:
                    pl = rv['op']['place']
                    if (not pl['p'] and x in car) or (len(pl['p']) == 1 and isinstance(pl['p'][0], dict) and 'f' in pl['p'][0]):
                        continue
            if st['k'] in ('storage_live', 'storage_dead', 'nop'):
                continue
            bad.update(occurs(st))
        t = blk['term']
        if t['k'] == 'drop':
            continue
        bad.update(occurs(t))
    for x in bad:
        car.pop(x, None)
    return car


def _is_alias_def(st, al, car=None):
    if car and st['k'] == 'assign' and not st['place']['p']:
        x, rv = st['place']['l'], st['rv']
        if x in car and rv['k'] == 'aggregate' and rv.get('agg') == 'closure':
            return True
        if rv['k'] == 'use' and rv['op']['k'] in ('copy', 'move') and rv['op']['place']['l'] in car:
            return True
    if st['k'] != 'assign' or st['place']['p'] or st['place']['l'] not in al:
        return False
    rv = st['rv']
    if rv['k'] == 'use' and rv['op']['k'] in ('copy', 'move') and not rv['op']['place']['p'] and rv['op']['place']['l'] in al:
        return True
    return rv['k'] == 'ref' and rv['place']['p'] == ['deref'] and rv['place']['l'] in al


def _is_len_read(x, al):
    """statement `_ = PtrMetadata(copy alias)` or terminator `len(alias)`: reads the length only, never the bytes"""
    def whole(o):
        return isinstance(o, dict) and o.get('k') in ('copy', 'move') and o['place']['l'] in al and not o['place']['p']
    if x.get('k') == 'assign' and x['rv'].get('k') == 'unop' and x['rv'].get('op') == 'PtrMetadata':
        return whole(x['rv']['x']) and x['place']['l'] not in al
    if x.get('k') == 'call' and ((x.get('func') or {}).get('fn') or {}).get('path') == 'core::slice::<impl [T]>::len':
        return len(x['args']) == 1 and whole(x['args'][0]) and x['dest']['l'] not in al
    return False


def uses_of_local_blocks(a, l, ignore_len=False):
    """blocks in which local l — or a plain copy / whole reborrow of it — occurs as an operand/place base (reads, borrows,
    call args); the copies themselves are not uses.  ignore_len: reading only the slice's length is not a use"""
    out = set()
    al = alias_locals(a, l)
    # the reference captured by an inlined closure literal and read back inside its (inlined) body
    car = {}
    for _ in range(4):
        n0 = len(al)
        car = closure_carriers(a, al)
        if len(al) == n0:
            break
        al |= alias_locals_from(a, al)

    def scan(x, bi):
        if isinstance(x, dict):
            if 'l' in x and 'p' in x and x['l'] in al:
                out.add(bi)
            for v in x.values():
                scan(v, bi)
        elif isinstance(x, list):
            for v in x:
                scan(v, bi)
    for bi, blk in enumerate(a.body.blocks):
        if blk['cleanup'] or bi not in a.cfg.reach:
            continue
        for st in blk['stmts']:
            if _is_alias_def(st, al, car) or (ignore_len and _is_len_read(st, al)):
                continue
            scan(st, bi)
        if not (ignore_len and _is_len_read(blk['term'], al)):
            scan(blk['term'], bi)
    return out


def load_path_fields(t):
    """('load', base, path) -> (base, [field names])"""
    if t[0] != 'load':
        return None, None
    return t[1], [e[1] for e in t[2] if e[0] == 'f']


def addr_fields(t):
    """for ('addr', ('pointee', base), path, m) -> (base, [field names]); for a bare term -> (term, [])"""
    if t[0] == 'addr' and t[1][0] == 'pointee':
        return t[1][1], [e[1] for e in t[2] if e[0] == 'f']
    if t[0] == 'addr':
        return t[1], [e[1] for e in t[2] if e[0] == 'f']
    return t, []


def where(a, site=None):
    if site is None or site == 'entry':
        return a.body.where()
    return a.body.where(site[0], a.line_at(site))


# ---------------------------------------------------------------------- suite parametricity
SUITE_PARAMS = {'A': 'aead::Aead', 'Kdf': 'kdf::Kdf', 'Kem': 'kem::Kem'}
# dependency types the local implementors are built from (a concrete hash / cipher named in generic code is the same slip)
_SUITE_DEP_TYPES = {
    'Kdf': ('sha2::Sha256', 'sha2::Sha384', 'sha2::Sha512', 'sha2::Sha224', 'sha2::Sha512_256'),
    'A': ('aes_gcm::Aes128Gcm', 'aes_gcm::Aes256Gcm', 'chacha20poly1305::ChaCha20Poly1305', 'chacha20poly1305::XChaCha20Poly1305'),
    'Kem': (),
}


def _strings(x):
    if isinstance(x, str):
        yield x
    elif isinstance(x, dict):
        for v in x.values():
            yield from _strings(v)
    elif isinstance(x, (list, tuple)):
        for v in x:
            yield from _strings(v)


def body_generics(facts, body):
    """generic parameter names in scope of a body (closures inherit their parent's)"""
    b = body
    for _ in range(8):
        g = b.raw.get('generics')
        if g is not None:
            return [x for x in g if not x.startswith("'")]
        par = b.raw.get('parent')
        b = facts.body(par) if par else None
        if b is None:
            break
    return []


def check_suite_parametric(rep, facts, rule, scope=None, floor=None, what='suite-generic bodies'):
    """Every body that is generic over an algorithm parameter (A: Aead, Kdf: Kdf, Kem: Kem) is parametric in it: no type
    mentioned in the body (locals, call generic arguments, self types, constants) is a *concrete* implementor of the
    same trait. A block-level `type Kdf = HkdfSha256;` shadows the parameter without changing one token of the calls."""
    import re
    n = 0
    concrete = {}
    for p, tr in SUITE_PARAMS.items():
        names = [im['self_ty'] for im in facts.impls_of(tr) if not im.get('generic')]
        concrete[p] = sorted(set(names) | set(_SUITE_DEP_TYPES[p]))
    pats = {p: [(c, re.compile(r'(?<![\w:])' + re.escape(c) + r'(?![\w])')) for c in cs] for p, cs in concrete.items()}
    for b in facts.body_list:
        if scope is not None and not scope(b):
            continue
        gs = [g for g in body_generics(facts, b) if g in SUITE_PARAMS]
        if not gs:
            continue
        n += 1
        # where a *substitution* shows: types of locals, the signature, and the callee paths / generic arguments / self
        # types / argument and result types of calls.  Constants of a concrete algorithm (`ExportOnlyAead::AEAD_ID` in a
        # comparison) are a special case of a value, not a re-instantiation, and are left to the rules on values.
        text = list(_strings({'l': [l.get('ty') for l in (b.raw.get('locals') or [])], 's': b.raw.get('sig')}))
        for blk in b.raw.get('blocks') or []:
            t = blk.get('term') or {}
            if t.get('k') == 'call':
                text += list(_strings([t.get('func'), t.get('arg_tys'), t.get('dest_ty')]))
        hits = []
        for g in gs:
            for c, rx in pats[g]:
                if any(rx.search(s) for s in text):
                    hits.append('%s := %s' % (g, c))
        a = get_an(facts, b.key)
        rep.check(not hits, rule, b.key, 'parametric', 'generic over %s; concrete algorithm types mentioned: %s' % (gs, hits or 'none'),
                  'code generic over A/Kdf/Kem names no concrete Aead/Kdf/Kem implementor (the caller\'s suite is passed through)', where(a))
    if floor is not None:
        rep.floor(rule, what, n, floor)
    return n


# ---------------------------------------------------------------------- how a Result is consumed (form-independent)
def _peel_result(a, y, point):
    """y: a term that denotes the Result produced by a call, possibly behind a reference to the local that holds it and
    possibly through map_err.  -> (call site block, closure term | None) or (None, None)"""
    for _ in range(6):
        if y[0] == 'addr' and y[1][0] == 'local' and not y[2]:
            y = a.load(y[1], (), point)
            continue
        if y[0] == 'call' and y[1] == 'core::result::Result::map_err' and len(y[2]) == 2:
            inner, clos = y[2]
            s, c2 = _peel_result(a, inner, a.term_point(y[3]))
            return (s, clos if c2 is None else c2) if s is not None else (None, None)
        if y[0] == 'call':
            return y[3], None
        break
    return None, None


def result_outcome(a, facts, bi):
    """How the Result returned by the call terminating block `bi` is consumed, whatever the spelling:
    `x?`, `x.map_err(f)?`, `match x { Ok(v) => …, Err(e) => return Err(…) }`, `if x.is_err() { return Err(…) }`,
    `if let Ok(v) = x {…} else { return Err(…) }`.
    -> None if no branch of the body decides on it, else a dict with
       ok_edge / err_edge: (src block, target block) taken iff the call returned Ok / Err;
       form: 'try' | 'match' | 'is_err' | 'is_ok';
       err_returns: [(site, term, how)] the values returned on paths through err_edge, how = HpkeError variant name,
                    'same' (the callee's error unchanged) or '?…' (not understood)."""
    cands = []
    for sb, blk in enumerate(a.body.blocks):
        if blk['cleanup'] or sb not in a.cfg.reach or blk['term']['k'] != 'switch':
            continue
        t = blk['term']
        p = a.term_point(sb)
        d = a.val_op(t['discr'], p)
        form = None
        y = None
        neg = False
        while d[0] == 'un' and d[1] == 'Not':
            d = d[2]
            neg = not neg
        if d[0] == 'discr' and d[1][0] == 'try':
            form, y = 'try', d[1][1]
        elif d[0] == 'discr':
            form, y = 'match', d[1]
        elif d[0] == 'call' and d[1] in ('core::result::Result::is_err', 'core::result::Result::is_ok') and len(d[2]) == 1:
            form, y = d[1].rsplit('::', 1)[1], d[2][0]
            p = a.term_point(d[3])
        if form is None:
            continue
        site, clos = _peel_result(a, y, p)
        if site != bi:
            continue
        if form in ('try', 'match'):
            ok_t, err_t = switch_edge(t, 0), switch_edge(t, 1)
        else:
            truthy, falsy = switch_edge(t, 1), switch_edge(t, 0)
            if neg:
                truthy, falsy = falsy, truthy
            ok_t, err_t = (falsy, truthy) if form == 'is_err' else (truthy, falsy)
        if ok_t == err_t:
            continue
        cands.append({'switch': sb, 'form': form, 'ok_edge': (sb, ok_t), 'err_edge': (sb, err_t), 'closure': clos})
    if len(cands) != 1:
        return None
    o = cands[0]
    sb, err_t = o['err_edge']
    rets = []
    for s, t in a.return_terms():
        if s is None or s == 'entry' or not a.cfg.edge_dominates(sb, err_t, s[0]):
            continue
        how = '?' + pp(t)[:80]
        if t[0] == 'from_residual' and t[1][0] == 'residual':
            site, clos = _peel_result(a, t[1][1], a.term_point(s[0]))
            if site == bi:
                how = 'same'
                if clos is not None:
                    cr = closure_ret(facts, clos)
                    how = (hpke_variant(cr) if cr is not None else None) or '?closure'
        elif is_err_agg(t):
            pl = t[3][0]
            v = hpke_variant(pl)
            if v:
                how = v
            elif pl[0] == 'errval':
                site, clos = _peel_result(a, pl[1], a.term_point(s[0]))
                if site == bi and clos is None:
                    how = 'same'
        rets.append((s, t, how))
    o['err_returns'] = rets
    return o


def checked_sub_some(a, facts, idx):
    """idx = the Some payload of `x.checked_sub(y)` (the canonical form of `x.checked_sub(y).ok_or(e)?`, of
    `match x.checked_sub(y) { Some(n) => n, None => return Err(e) }` and of `let Some(n) = … else { return … }`).
    -> (x, y, call block, [returned error variants on the None edge]) or None"""
    if not (idx[0] == 'field' and idx[1] == '0' and idx[2][0] == 'variant' and idx[2][1] == 'Some'):
        return None
    c = idx[2][2]
    if not (c[0] == 'call' and c[1] == 'core::num::<impl usize>::checked_sub' and len(c[2]) == 2):
        return None
    cbi = c[3]
    errs = None
    for sb, t, d in switch_on(a, lambda d: d[0] == 'discr' and d[1][0] == 'call' and len(d[1]) > 3 and d[1][3] == cbi):
        none_t = switch_edge(t, 0)
        some_t = switch_edge(t, 1)
        if none_t == some_t:
            continue
        errs = []
        for s, tt in a.return_terms():
            if s in (None, 'entry') or not a.cfg.edge_dominates(sb, none_t, s[0]):
                continue
            vs = result_err_variants(facts, tt)
            errs.append(sorted(vs))
    return c[2][0], c[2][1], cbi, errs


_PRIM_SIZE = {'u8': 1, 'i8': 1, 'u16': 2, 'i16': 2, 'u32': 4, 'i32': 4, 'u64': 8, 'i64': 8, 'u128': 16, 'i128': 16, 'usize': 8, 'isize': 8}


def size_of_term(facts, t):
    """value of a `core::mem::size_of::<T>()` term for a primitive integer T or a single-field struct around one"""
    if not (t[0] == 'call' and t[1] == 'core::mem::size_of' and len(t) > 4 and t[4] and len(t[4][4]) == 1):
        return None
    ty = t[4][4][0]
    if ty in _PRIM_SIZE:
        return _PRIM_SIZE[ty]
    adt = facts.adts.get(ty)
    if adt and adt.get('kind') == 'Struct' and len(adt['variants']) == 1 and len(adt['variants'][0]['fields']) == 1:
        return _PRIM_SIZE.get(adt['variants'][0]['fields'][0]['ty'])
    return None


def literal_iteration(a, x):
    """x: the item of a `for`/`for_each` loop over an array *literal* (`for p in [a, b, c]`, `[a, b, c].iter().for_each(..)`,
    a helper taking `&[a, b, c]`): the Some payload of Iterator::next over that array, possibly dereferenced once.
    -> the element terms in order, or None"""
    derefs = 0
    while x[0] == 'load' and not x[2]:
        x = x[1]
        derefs += 1
    if not (x[0] == 'field' and x[1] == '0' and x[2][0] == 'variant' and x[2][1] == 'Some' and x[2][2][0] == 'call' and
            x[2][2][1] == 'core::iter::Iterator::next' and len(x[2][2][2]) == 1):
        return None
    nx = x[2][2]
    it = a.deref_val(nx[2][0], a.term_point(nx[3]))
    src = it[2] if it[0] == 'mem' else it
    by_ref = 0
    for _ in range(6):
        if src[0] == 'call' and src[1] in ('core::iter::IntoIterator::into_iter', 'core::iter::Iterator::by_ref') and len(src[2]) == 1:
            src = src[2][0]
            continue
        if src[0] == 'call' and src[1].endswith('::iter') and len(src[2]) == 1:
            src = src[2][0]
            by_ref = 1
            continue
        break
    src, r = literal_array_of(a, src, a.term_point(nx[3]))
    by_ref = max(by_ref, r)
    if src is None:
        return None
    if derefs != by_ref:
        return None
    return list(src[3])


def literal_array_of(a, src, point):
    """through references / unsizing to an array literal: -> (('agg', 'array', …) or None, 1 if a reference was followed)"""
    by_ref = 0
    for _ in range(6):
        if src[0] == 'addr' and not src[2]:
            if src[1][0] == 'local':
                src = a.load(src[1], (), point)
                by_ref = 1
                continue
            if src[1][0] == 'cell':
                src = src[1][1]
                by_ref = 1
                continue
            if src[1][0] == 'promoted':
                src = src[1][2]
                by_ref = 1
                continue
        if src[0] == 'cast' and src[1].startswith('PointerCoercion(Unsize'):
            src = src[3]
            continue
        break
    if not (src[0] == 'agg' and src[1] == 'array'):
        return None, by_ref
    return src, by_ref


def explicit_len_guard(a, facts, param=1):
    """an exact-length guard spelled as a comparison: one branch on `input.len() == N` (or `!=`), N a constant, `T::size()` or
    `<N as Unsigned>::to_usize()`.  -> {'switch', 'n' (the N term), 'eq_edge', 'ne_edge', 'ne_returns': [(site, term)]} or None"""
    from ..prov import strip_sites
    found = []
    for sb in sorted(a.cfg.reach):
        blk = a.body.blocks[sb]
        t = blk['term']
        if blk['cleanup'] or t['k'] != 'switch':
            continue
        d = a.val_op(t['discr'], a.term_point(sb))
        neg = False
        while d[0] == 'un' and d[1] == 'Not':
            d = d[2]
            neg = not neg
        if not (d[0] == 'bin' and d[1] in ('Eq', 'Ne')):
            continue
        sides = [d[2], d[3]]
        ln = [x for x in sides if strip_sites(x) == ('len', ('param', param))]
        other = [x for x in sides if strip_sites(x) != ('len', ('param', param))]
        if len(ln) != 1 or len(other) != 1:
            continue
        n = other[0]
        if not ((n[0] == 'const' and isinstance(n[2], int)) or (n[0] == 'call' and (n[1].endswith('::to_usize') or n[1] == 'Serializable::size'))):
            continue
        is_eq = (d[1] == 'Eq') != neg
        t_true, t_false = switch_edge(t, 1), switch_edge(t, 0)
        eq_t, ne_t = (t_true, t_false) if is_eq else (t_false, t_true)
        if eq_t == ne_t:
            continue
        found.append({'switch': sb, 'n': n, 'eq_edge': (sb, eq_t), 'ne_edge': (sb, ne_t)})
    if len(found) != 1:
        return None
    g = found[0]
    rets = []
    for s, tt in a.return_terms():
        if s in (None, 'entry'):
            continue
        if a.cfg.edge_dominates(g['ne_edge'][0], g['ne_edge'][1], s[0]):
            rets.append((s, tt))
    g['ne_returns'] = rets
    return g


def len_value(facts, n):
    """the value of a length term: an int, or the type-level name it stands for (symbolic), or None"""
    if n[0] == 'call' and len(n) < 5:
        return None          # a call term stripped of its callee description
    if n[0] == 'const' and isinstance(n[2], int):
        return n[2]
    if n[0] == 'call' and n[1].endswith('::to_usize') and n[4]:
        v = typenum_usize(n[4][2] or '')
        return v if v is not None else n[4][2]
    if n[0] == 'call' and n[1] == 'Serializable::size' and n[4]:
        raws = [im['types']['OutputSize'] for im in facts.impls if im.get('trait') == 'Serializable' and im['self_ty'] == n[4][2]]
        if raws:
            return raws[0].get('usize') if raws[0].get('usize') is not None else raws[0]['raw']
    return None


def is_incorrect_len_err(tt, n, param=1, facts=None):
    """tt = Err(HpkeError::IncorrectInputLength(n, input.len())) — n the same term, or (with facts) the same value"""
    from ..prov import strip_sites
    if not is_err_agg(tt):
        return False
    pl = tt[3][0]
    if not (pl[0] == 'agg' and pl[2] == HPKE_ERR + '::IncorrectInputLength' and len(pl[3]) == 2):
        return False
    same = strip_sites(pl[3][0]) == strip_sites(n)
    if not same and facts is not None:
        v = len_value(facts, n)
        same = v is not None and v == len_value(facts, pl[3][0])
    return same and strip_sites(pl[3][1]) == ('len', ('param', param))
