"""C13 — no panic on attacker-controlled input (DESIGN §5 C13: R13.1 … R13.4).

Every panic-capable MIR site in the call-graph closure of the public entry points is enumerated
and must be discharged by a structural rule (D1 … D9) or be listed in the frozen, reasoned table.
A site that is neither is a violation naming function, kind and callee."""
from ..prov import get_an, pp, strip_generics, strip_sites, unref, bytes_of
from ..tyutil import typenum_usize, array_len, strip_ref, generic_args
from ..mirjson import callee_of
from .common import all_ans, where, callee_targets, fn_err_variants, switch_edge, impl_bodies, explicit_len_guard, len_value
from .hpketerms import concat_pieces
from . import c10, c12, rfc9180 as rfc

# buffer capacities may be cfg-dependent constants while the Kdf/Aead impls are not: also decide the default feature set
QUICK_EXTRA_CONFIGS = ['default']

EXPLANATION = (
    'Static analysis of MIR (all cargo features). R13.1: the entry points are all exported functions of the crate '
    '(cross-checked against the API facts, so a new public byte-consuming function cannot be forgotten). R13.2: every '
    'panic-capable site on the normal-path CFG of every body in their call-graph closure (class-hierarchy resolution '
    'of trait calls) is enumerated: MIR Assert terminators (overflow, bounds, shift) and calls into panicking '
    'families (unwrap/expect, copy_from_slice, split_at, Index/IndexMut, &[u8] -> &GenericArray conversion, '
    'panicking::*, allocation); every *other* external callee must be in the reasoned panic-free table, an '
    'unclassified callee is reported. R13.3: each site is discharged by a structural rule — D1 constant shift / '
    'constant range within a type-level length, D2 full-range index, D3 copy or conversion under a dominating exact '
    'length guard with equal type-level length, D4 the concat idiom (buffer capacity >= sum of the maximal type-level '
    'sizes of the pieces over all impls; N - unused.len()), D5 split at checked_sub and the tag copy, D6 fixed-length '
    'expands / from_prk within 255*Nh / >= Nh for all impl combinations, D7 nonce_size - 8 with NonceSize >= 8 for '
    'all AEADs, D8 length arithmetic bounded by isize::MAX + Nt, D9 encoder length asserts with statically known '
    'caller slice lengths — or is an entry of the frozen table with its reason. R13.4: error sets of the setup '
    'functions. Bound: the crate\'s own bodies; dependency crates are assumed panic-free for the calls used.')
TRUSTED = ['dependency crates do not panic on any input for the calls listed in the panic-free table (their documented contract)',
           'slice lengths are at most isize::MAX']
ASSUME = ['the caller-supplied RNG does not panic', 'allocation failure (abort) is outside the property']

# external callees that cannot panic for any input (name-level reasons); anything not here and not in PANICKY is reported
SAFE = {
    'core::clone::Clone::clone': 'clone of plain data', 'core::cmp::PartialEq::eq': 'comparison', 'core::convert::From::from': 'infallible conversions (dalek from [u8;32], From<T> for T)',
    'core::default::Default::default': 'zero value', 'core::fmt::Arguments::from_str': 'formatting', 'core::fmt::Arguments::new': 'formatting',
    'core::fmt::Formatter::debug_tuple_field1_finish': 'formatting (returns Result)', 'core::fmt::Formatter::debug_tuple_field2_finish': 'formatting (returns Result)',
    'core::fmt::Formatter::write_fmt': 'formatting (returns Result)', 'core::fmt::Formatter::write_str': 'formatting (returns Result)',
    'core::fmt::rt::Argument::new_display': 'formatting', 'core::iter::IntoIterator::into_iter': 'iterator construction', 'core::iter::Iterator::map': 'lazy adapter',
    'core::iter::Iterator::next': 'iterator step on ranges/slices', 'core::iter::Iterator::zip': 'lazy adapter', 'core::mem::size_of': 'constant',
    'core::num::<impl u64>::checked_add': 'checked arithmetic', 'core::num::<impl usize>::checked_sub': 'checked arithmetic', 'core::ops::BitXor::bitxor': 'bit operation',
    'core::ops::Deref::deref': 'view', 'core::ops::DerefMut::deref_mut': 'view', 'core::ops::FromResidual::from_residual': '`?` plumbing', 'core::ops::Try::branch': '`?` plumbing',
    'core::ops::RangeInclusive::new': 'range construction', 'core::option::Option::map': 'combinator', 'core::option::Option::ok_or': 'combinator',
    'core::result::Result::is_err': 'inspection', 'core::result::Result::is_ok': 'inspection', 'core::result::Result::map_err': 'combinator',
    'core::slice::<impl [T]>::is_empty': 'inspection', 'core::slice::<impl [T]>::iter': 'iterator construction', 'core::slice::<impl [T]>::len': 'inspection',
    'aead::AeadInPlace::decrypt_in_place_detached': 'returns Err on failure / over-long input (trusted dependency)',
    'aead::AeadInPlace::encrypt_in_place_detached': 'returns Err on over-long input (trusted dependency)',
    'aead::KeyInit::new': 'key of the exact type-level size',
    'generic_array::GenericArray::as_mut_slice': 'view', 'generic_array::GenericArray::as_slice': 'view',
    'generic_array::GenericArray::from_exact_iter': 'returns Option',
    'hkdf::Hkdf::expand_multi_info': 'returns Err(InvalidLength) when too long', 'hkdf::Hkdf::from_prk': 'returns Err when the PRK is too short',
    'hkdf::HkdfExtract::finalize': 'hash finalisation', 'hkdf::HkdfExtract::input_ikm': 'hash update (any length)', 'hkdf::HkdfExtract::new': 'HMAC keyed with a salt of any length',
    'rand_core::RngCore::fill_bytes': 'the caller\'s RNG (assumed not to panic)', 'subtle::ConstantTimeEq::ct_eq': 'constant-time comparison (length mismatch gives false)',
    'subtle::Choice::unwrap_u8': 'field read', 'zeroize::Zeroizing::new': 'by-value wrapper', 'subtle::ConstantTimeEq::ct_ne': 'negated ct_eq',
    'generic_array::typenum::Unsigned::to_usize': 'constant', 'zeroize::Zeroize::zeroize': 'memory wipe',
    'x25519_dalek::PublicKey::as_bytes': 'view', 'x25519_dalek::SharedSecret::as_bytes': 'view', 'x25519_dalek::StaticSecret::as_bytes': 'view',
    'x25519_dalek::StaticSecret::diffie_hellman': 'total function on 32-byte inputs', 'x25519_dalek::StaticSecret::to_bytes': 'copy',
    'x25519_dalek::SharedSecret::was_contributory': 'inspection',
    'sec1::point::EncodedPoint::as_bytes': 'view',
    # RustCrypto curve API reached through whichever crate re-exports it (see _canon)
    'ecdh::diffie_hellman': 'total on validated keys', 'elliptic_curve::PublicKey::as_affine': 'view', 'elliptic_curve::PublicKey::from_sec1_bytes': 'returns Err on invalid input',
    'elliptic_curve::SecretKey::from_bytes': 'returns Err on invalid input', 'elliptic_curve::SecretKey::from_slice': 'returns Err on invalid input',
    'elliptic_curve::SecretKey::public_key': 'sk*G', 'elliptic_curve::SecretKey::to_bytes': 'copy', 'elliptic_curve::SecretKey::to_nonzero_scalar': 'validated scalar',
    'elliptic_curve::ecdh::SharedSecret::raw_secret_bytes': 'view', 'elliptic_curve::sec1::ToEncodedPoint::to_encoded_point': 'encoding of a valid point',
    'core::num::<impl u64>::to_be_bytes': 'pure', 'core::num::<impl u16>::to_be_bytes': 'pure', 'core::num::<impl u32>::to_be_bytes': 'pure',
    'core::num::<impl usize>::to_be_bytes': 'pure', 'core::cmp::min': 'pure', 'core::cmp::max': 'pure', 'core::cmp::Ord::min': 'pure', 'core::cmp::Ord::max': 'pure',
    'core::num::<impl usize>::saturating_sub': 'pure', 'core::num::<impl usize>::checked_add': 'pure', 'core::num::<impl usize>::wrapping_sub': 'pure',
    'core::option::Option::is_none': 'inspection', 'core::option::Option::is_some': 'inspection', 'core::option::Option::ok_or_else': 'combinator',
    'core::option::Option::and_then': 'combinator', 'core::option::Option::unwrap_or': 'total', 'core::option::Option::unwrap_or_default': 'total',
    'core::result::Result::ok': 'combinator', 'core::result::Result::map': 'combinator', 'core::result::Result::and_then': 'combinator',
    'core::result::Result::unwrap_or': 'total', 'core::result::Result::is_ok_and': 'inspection',
    'core::vec::Vec::new': 'empty vector (no allocation)', 'core::slice::<impl [T]>::first': 'returns Option', 'core::slice::<impl [T]>::last': 'returns Option',
    'core::slice::<impl [T]>::get': 'returns Option', 'core::slice::<impl [T]>::split_first': 'returns Option', 'core::slice::<impl [T]>::split_last': 'returns Option',
    'core::slice::<impl [T]>::split_at_checked': 'returns Option', 'core::slice::<impl [T]>::iter_mut': 'iterator construction',
    'core::num::<impl u64>::wrapping_add': 'pure', 'core::num::<impl u64>::saturating_add': 'pure', 'core::num::<impl u64>::checked_sub': 'pure',
    'core::num::<impl u64>::to_le_bytes': 'pure', 'core::mem::take': 'pure', 'core::mem::replace': 'pure', 'core::mem::swap': 'pure',
    'core::convert::AsRef::as_ref': 'view', 'core::convert::AsMut::as_mut': 'view', 'core::borrow::Borrow::borrow': 'view',
    'core::cmp::PartialEq::ne': 'comparison', 'core::cmp::PartialOrd::lt': 'comparison', 'core::cmp::PartialOrd::le': 'comparison',
    'core::cmp::PartialOrd::gt': 'comparison', 'core::cmp::PartialOrd::ge': 'comparison', 'core::ops::Not::not': 'pure',
    'core::ops::BitAnd::bitand': 'pure', 'core::ops::BitOr::bitor': 'pure', 'core::ops::Drop::drop': 'destructor',
    'core::convert::Into::into': None,     # decided per call (target type), see classify()
}
PANICKY_NAMES = {'unwrap', 'expect', 'copy_from_slice', 'split_at', 'index', 'index_mut', 'panic_fmt', 'assert_failed', 'to_vec', 'from_elem',
                 'unwrap_unchecked', 'expect_err', 'unwrap_err', 'clone_from_slice', 'split_at_mut', 'swap', 'from_slice', 'from_mut_slice',
                 'panic', 'panic_display', 'unreachable_display', 'panic_explicit', 'panic_nounwind', 'panic_bounds_check', 'chunks_exact', 'chunks', 'windows',
                 'remove', 'insert', 'push', 'extend_from_slice', 'resize', 'with_capacity', 'truncate', 'drain', 'split_off', 'rotate_left', 'rotate_right',
                 'first_chunk', 'split_first_chunk', 'last_chunk', 'div_ceil', 'pow', 'abs', 'neg', 'rem_euclid', 'div_euclid'}


# families of core functions that cannot panic themselves (closures they run are bodies of this crate and are analysed
# as part of the call-graph closure); deliberately absent: Iterator::sum/product (overflow), step_by/chunks (zero), indexing
import re as _re
SAFE_FAMILIES = [_re.compile(x) for x in (
    r'^core::iter::Iterator::(rev|zip|map|fold|for_each|enumerate|all|any|filter|take|skip|chain|cloned|copied|count|last|next|nth|position|'
    r'find|min|max|by_ref|peekable|flat_map|flatten|try_fold|try_for_each|collect|eq|ne|cmp|size_hint|filter_map|find_map|take_while|'
    r'skip_while|inspect|fuse|min_by_key|max_by_key|rposition|unzip|scan|partial_cmp|lt|le|gt|ge)$',
    r'^core::iter::(DoubleEndedIterator::(next_back|rfold|rfind|nth_back)|IntoIterator::into_iter|ExactSizeIterator::len)$',
    r'^core::ops::(BitXor::bitxor|BitXorAssign::bitxor_assign|BitAndAssign::bitand_assign|BitOrAssign::bitor_assign)$',
    r'^core::result::Result::(err|ok|is_err_and|map_or|map_or_else|or|or_else|unwrap_or_else|unwrap_or_default|as_ref|as_mut|iter|copied|cloned|and|inspect|inspect_err)$',
    r'^core::option::Option::(map_or|map_or_else|or|or_else|xor|filter|zip|take|replace|as_ref|as_mut|copied|cloned|unwrap_or_else|and|iter|inspect|is_some_and|is_none_or|ok_or|map|then)$',
    r'^core::bool::<impl bool>::(then_some|then)$',
    r'^core::vec::Vec::(as_mut_slice|as_slice|len|is_empty|capacity|as_ptr|as_mut_ptr|clear)$',
    r'^core::array::<impl \[T; N\]>::(as_slice|as_mut_slice|each_ref|each_mut|iter|iter_mut)$',
    r'^core::slice::<impl \[T\]>::(as_ptr|as_mut_ptr|get_mut|first_mut|last_mut|contains|starts_with|ends_with|fill|reverse|iter|is_empty|len|split_first_mut|split_last_mut|as_chunks|as_chunks_mut|as_rchunks)$',
    r'^core::num::<impl [ui](8|16|32|64|128|size)>::(wrapping_\w+|saturating_\w+|checked_\w+|overflowing_\w+|to_[bln]e_bytes|from_[bln]e_bytes|'
    r'leading_zeros|trailing_zeros|count_ones|count_zeros|swap_bytes|rotate_left|rotate_right|min|max|is_power_of_two|abs_diff)$',
    r'^digest::(Digest::(new|update|finalize|digest|output_size|chain_update)|core_api::BlockSizeUser::block_size|FixedOutput::finalize_fixed|Update::update)$',
    r'^core::(cmp::Ord::cmp|cmp::PartialOrd::partial_cmp)$',
    # generic-array's functional combinators: both operands have the same type-level length, so they are total; the closure
    # they run is a local body whose own sites are enumerated
    r'^generic_array::functional::(FunctionalSequence|MappedGenericSequence)::(zip|map|fold)$',
)]


def _canon(path):
    import re
    p = strip_generics(path)
    p = re.sub(r'^std::', 'core::', p)
    p = re.sub(r'^alloc::', 'core::', p)
    p = re.sub(r'^p(256|384|521)::(elliptic_curve|ecdh)::', r'\2::', p)
    return p


# ---------------------------------------------------------------------- type-level bounds
def sym_bounds(facts, sym):
    """(min, max) of a type-level length: ints are exact; projections over a generic parameter range over all impls"""
    if isinstance(sym, int):
        return sym, sym
    if sym is None:
        return None
    n = typenum_usize(sym)
    if n is not None:
        return n, n
    vals = None
    if 'AeadCore>::TagSize' in sym or 'AeadCore>::NonceSize' in sym or 'KeySizeUser>::KeySize' in sym:
        which = 'TagSize' if 'TagSize' in sym else ('NonceSize' if 'NonceSize' in sym else 'KeySize')
        vals = []
        for im in facts.impls_of('aead::Aead'):
            d = facts.derived.get(im['types']['AeadImpl']['ty'], {})
            for k, v in d.items():
                if k.endswith('::' + which):
                    vals.append(v.get('usize'))
    elif 'OutputSizeUser>::OutputSize' in sym and 'HashImpl' in sym:
        vals = []
        for im in facts.impls_of('kdf::Kdf'):
            d = facts.derived.get(im['types']['HashImpl']['ty'], {})
            for k, v in d.items():
                if k.endswith('OutputSizeUser::OutputSize'):
                    vals.append(v.get('usize'))
    elif sym.endswith('as kem::Kem>::NSecret'):
        vals = [im['types']['NSecret']['usize'] for im in facts.impls_of('kem::Kem')]
    elif 'as Serializable>::OutputSize' in sym:
        vals = [im['types']['OutputSize']['usize'] for im in facts.impls if im.get('trait') == 'Serializable' and im['types']['OutputSize'].get('usize') is not None]
        # AeadTag<A>: TagSize
        for im in facts.impls_of('aead::Aead'):
            d = facts.derived.get(im['types']['AeadImpl']['ty'], {})
            for k, v in d.items():
                if k.endswith('::TagSize'):
                    vals.append(v.get('usize'))
    if vals and all(v is not None for v in vals):
        return min(vals), max(vals)
    return None


def ty_len(ty):
    """type-level length of a (reference to a) byte array type: int | symbolic str | None"""
    t = strip_ref(ty)
    n = array_len(t)
    if n is not None:
        return n
    if t.startswith('generic_array::GenericArray<u8,'):
        ga = generic_args(t)
        if len(ga) == 2:
            v = typenum_usize(ga[1])
            return v if v is not None else ga[1]
    return None


def operand_len(a, op, facts=None, depth=0):
    """type-level length of the byte sequence a reference operand points to, tracing views back"""
    cur = op
    for _ in range(14):
        if cur.get('k') not in ('copy', 'move'):
            return None
        pl = cur['place']
        l = pl['l']
        if not pl['p'] or pl['p'] == ['deref']:
            n = ty_len(a.body.local_ty(l))
            if n is not None:
                return n
        elif isinstance(pl['p'][-1], dict) and 'ty' in pl['p'][-1]:
            return ty_len(pl['p'][-1]['ty'])
        defs = a.defs.get(l, [])
        if len(defs) != 1:
            return None
        st = a.stmt_at(defs[0])
        if st['k'] == 'assign':
            rv = st['rv']
            if rv['k'] in ('use', 'cast'):
                cur = rv['op']
            elif rv['k'] == 'ref':
                p2 = rv['place']
                if p2['p'] and isinstance(p2['p'][-1], dict) and 'ty' in p2['p'][-1]:
                    return ty_len(p2['p'][-1]['ty'])
                n = ty_len(a.body.local_ty(p2['l'])) if (not p2['p'] or p2['p'] == ['deref']) else None
                if n is not None:
                    return n
                cur = {'k': 'copy', 'place': {'l': p2['l'], 'p': []}}
            else:
                return None
        elif st['k'] == 'call':
            n = ty_len(st['dest_ty'])
            if n is not None:
                return n
            c = callee_of(st)
            if c and c['name'] in ('deref', 'deref_mut', 'as_ref', 'as_mut', 'as_slice', 'as_mut_slice', 'borrow') and st['args']:
                cur = st['args'][0]
            else:
                return None
        else:
            return None
    return None


# ---------------------------------------------------------------------- reachability
def entry_points(facts):
    # exported = nameable from outside; reachable = callable from outside through a trait / associated type
    # (e.g. <Kem::PublicKey as Deserializable>::from_bytes of the key types living in pub(crate) modules)
    return [b for b in facts.body_list if (b.raw.get('exported') or b.raw.get('reachable')) and b.kind in ('Fn', 'AssocFn')]


def closure(facts, roots):
    seen = {}
    work = [b.key for b in roots]
    # closures whose every use was expanded in place: nothing can run them (normalize.drop_dead_closures, N6)
    dead = set((facts.meta.get('closures_dead') or []))
    while work:
        k = work.pop()
        if k in seen or k in dead:
            continue
        a = get_an(facts, k)
        if a is None:
            continue
        seen[k] = a
        for bi, t, c in a.calls():
            if c is None:
                continue
            info = a.callee_info(t)
            for tb in callee_targets(facts, info, strip_generics(c['path'])):
                if tb.key not in seen:
                    work.append(tb.key)
            # closures passed as arguments
            for x in t['args']:
                if x.get('k') == 'const' and 'closure' in x:
                    work.append(x['closure'])
        for blk in a.body.blocks:
            for st in blk['stmts']:
                if st['k'] == 'assign' and st['rv']['k'] == 'aggregate' and st['rv'].get('agg') == 'closure':
                    work.append(st['rv']['closure'])
    return seen


# ---------------------------------------------------------------------- site enumeration
def classify(a, t, c):
    """'safe' | 'panicky' | 'unknown' for an external call"""
    p = _canon(c['path'])
    name = c['name']
    if p in ('core::convert::Into::into', 'core::convert::From::from'):
        dst = t['dest_ty']
        if dst.startswith('&generic_array::GenericArray<') or dst.startswith('&mut generic_array::GenericArray<'):
            return 'panicky'
        return 'safe'
    if p in SAFE and SAFE[p] is not None:
        return 'safe'
    if any(rx.match(p) for rx in SAFE_FAMILIES):
        return 'safe'
    if name in PANICKY_NAMES or p.startswith('core::panicking::'):
        return 'panicky'
    return 'unknown'


def sites_of(a):
    out = []
    ord_by_kind = {}
    for bi in sorted(a.cfg.reach):
        blk = a.body.blocks[bi]
        t = blk['term']
        if t['k'] == 'assert':
            kind = 'assert:' + t['msg']
            n = ord_by_kind.get(kind, 0)
            ord_by_kind[kind] = n + 1
            out.append({'bi': bi, 'kind': kind, 'ord': n, 'term': t, 'callee': None})
        elif t['k'] == 'call':
            c = callee_of(t)
            if c is None:
                out.append({'bi': bi, 'kind': 'indirect-call', 'ord': 0, 'term': t, 'callee': None})
                continue
            if c.get('local'):
                continue
            cls = classify(a, t, c)
            if cls == 'safe':
                continue
            kind = ('call:' + c['name']) if cls == 'panicky' else ('unclassified:' + _canon(c['path']))
            n = ord_by_kind.get(kind, 0)
            ord_by_kind[kind] = n + 1
            out.append({'bi': bi, 'kind': kind, 'ord': n, 'term': t, 'callee': c})
    return out


# ---------------------------------------------------------------------- discharge rules
def const_of(t):
    if t[0] == 'const' and isinstance(t[2], int) and not isinstance(t[2], bool):
        return t[2]
    if t[0] == 'cast' and t[1] == 'IntToInt':
        return const_of(t[3])
    return None


def guard_equal_len(a, facts, bi, param_term, explicit=True):
    """constant N such that a dominating `enforce_equal_len(N, len(param))?` success edge guards block bi"""
    for gbi, t, c in a.calls(lambda c: c.get('key') == 'util::enforce_equal_len'):
        if a.arg_val(gbi, 1) != ('len', param_term):
            continue
        exp = a.arg_val(gbi, 0)
        n = None
        if exp[0] == 'call' and exp[1].endswith('::to_usize') and exp[4]:
            n = typenum_usize(exp[4][2] or '')
            if n is None:
                n = exp[4][2]
        elif exp[0] == 'call' and exp[1] == 'Serializable::size' and exp[4]:
            st = exp[4][2]
            raws = [im['types']['OutputSize'] for im in facts.impls if im.get('trait') == 'Serializable' and im['self_ty'] == st]
            if raws:
                n = raws[0].get('usize') if raws[0].get('usize') is not None else raws[0]['raw']
        elif const_of(exp) is not None:
            n = const_of(exp)
        for b2 in a.cfg.reach:
            t2 = a.body.blocks[b2]['term']
            if t2['k'] == 'switch':
                d = a.val_op(t2['discr'], a.term_point(b2))
                if d[0] == 'discr' and d[1][0] == 'try' and d[1][1][0] == 'call' and d[1][1][3] == gbi:
                    if a.cfg.edge_dominates(b2, switch_edge(t2, 0), bi):
                        return n
    if explicit and param_term[0] == 'param':
        eg = explicit_len_guard(a, facts, param_term[1])
        if eg and a.cfg.edge_dominates(eg['eq_edge'][0], eg['eq_edge'][1], bi):
            return len_value(facts, eg['n'])
    return None


def _same_len_term(x, y):
    """the same length expression; for `<T as Serializable>::size()` the same T (strip_sites drops the resolved callee)"""
    if strip_sites(x) != strip_sites(y):
        return False
    for u, v in ((x, y),):
        if u[0] == 'call' and v[0] == 'call':
            iu = u[4][2] if len(u) > 4 and u[4] else None
            iv = v[4][2] if len(v) > 4 and v[4] else None
            return iu is not None and iu == iv
    return True


def guarded_prefix(a, facts, bi, t):
    """t = `&p[..hi]` (or `&p[0..hi]`) of a slice parameter p, at a block guarded by len(p) == N with hi == N (same constant or the
    same type-level length): the prefix is the whole parameter.  -> ('param', k) or None"""
    if not (isinstance(t, tuple) and len(t) == 4 and t[0] == 'addr' and t[1][0] == 'pointee' and t[1][1][0] == 'param' and len(t[2]) == 1):
        return None
    sl = t[2][0]
    if sl[0] != 'slice' or sl[2] is None or not (sl[1] is None or const_of(sl[1]) == 0):
        return None
    from .common import len_value
    g = guard_equal_len(a, facts, bi, t[1][1])
    hv = len_value(facts, sl[2])
    if g is not None and hv is not None and g == hv:
        return t[1][1]
    return None


_UWIDTH = {'u8': 8, 'u16': 16, 'u32': 32, 'u64': 64, 'usize': 64}


def unwrap_casts(t):
    while t[0] == 'cast' and t[1] == 'IntToInt':
        t = t[3]
    return t


def len_assert_of(a, bi, param):
    """N if block bi is dominated by the `equal` edge of a test len(param) == N"""
    for b2 in a.cfg.reach:
        t2 = a.body.blocks[b2]['term']
        if t2['k'] != 'switch':
            continue
        d = strip_sites(a.val_op(t2['discr'], a.term_point(b2)))
        if d[0] == 'bin' and d[1] in ('Eq', 'Ne'):
            x, y = unref(d[2]), unref(d[3])
            xs = [x, y]
            vals = []
            for v in xs:
                while v[0] == 'load' and not v[2]:
                    v = unref(v[1])
                vals.append(v)
            n = None
            if vals[0] == ('len', param) and const_of(vals[1]) is not None:
                n = const_of(vals[1])
            elif vals[1] == ('len', param) and const_of(vals[0]) is not None:
                n = const_of(vals[0])
            if n is None:
                continue
            eq_edge = switch_edge(t2, 1 if d[1] == 'Eq' else 0)
            if a.cfg.edge_dominates(b2, eq_edge, bi):
                return n
    return None


ISIZE_MAX = (1 << 63) - 1
_REL_OPS = ('Eq', 'Ne', 'Lt', 'Le', 'Gt', 'Ge')


def _ladd(x, y, k=1):
    co = dict(x[0])
    for at, c in y[0].items():
        co[at] = co.get(at, 0) + k * c
        if co[at] == 0:
            del co[at]
    return co, x[1] + k * y[1]


def lin(a, facts, t, point, depth=0):
    """a usize-valued term as a linear form over immutable lengths: ({atom: coefficient}, constant), or None.
    Atoms: ('sym', type-level length) — a fixed number within one instantiation — and ('len', slice reference) for a
    slice parameter (a slice reference never changes its length).  Sub-slices are expanded: len(x[lo..hi]) = hi - lo,
    which is what the slicing operation (a panic site of its own, reached first) guarantees."""
    if depth > 12 or not isinstance(t, tuple):
        return None
    c = const_of(t) if t[0] == 'const' else None
    if c is not None and not isinstance(c, bool):
        return {}, c
    if t[0] == 'bin' and t[1] in ('Add', 'Sub', 'AddUnchecked', 'SubUnchecked'):
        x, y = lin(a, facts, t[2], point, depth + 1), lin(a, facts, t[3], point, depth + 1)
        if x is None or y is None:
            return None
        return _ladd(x, y, 1 if t[1].startswith('Add') else -1)
    if t[0] == 'bin' and t[1] == 'Mul':
        for k, x in ((t[2], t[3]), (t[3], t[2])):
            kc = const_of(k) if k[0] == 'const' else None
            if kc is not None and not isinstance(kc, bool):
                v = lin(a, facts, x, point, depth + 1)
                return None if v is None else ({at: kc * c2 for at, c2 in v[0].items() if kc}, kc * v[1])
        return None
    if t[0] == 'field' and t[1] == '0' and t[2][0] == 'variant' and t[2][1] == 'Some':
        from .common import checked_sub_some
        cs = checked_sub_some(a, facts, t)
        if cs is not None:
            x, y = lin(a, facts, cs[0], point, depth + 1), lin(a, facts, cs[1], point, depth + 1)
            return None if x is None or y is None else _ladd(x, y, -1)
    if t[0] == 'field':
        # the position of a loop over buffers of known length: one unknown with its range
        b = len_term_bounds(a, facts, t, point)
        if b and isinstance(b[0], int) and isinstance(b[1], int):
            return {('var', strip_sites(t), b[0], b[1]): 1}, 0
        return None
    if t[0] == 'call' and (t[1] == 'Serializable::size' or t[1].endswith('::to_usize')):
        from .common import len_value
        v = len_value(facts, t) if len(t) > 4 else None
        if isinstance(v, int):
            return {}, v
        if isinstance(v, str):
            return {('sym', v): 1}, 0
        return None
    if t[0] == 'call' and t[1] == 'core::mem::size_of':
        from .common import size_of_term
        v = size_of_term(facts, t)
        return None if v is None else ({}, v)
    if t[0] == 'cast' and t[1] == 'IntToInt' and t[2] in _UWIDTH:
        v = lin(a, facts, t[3], point, depth + 1)
        if v is None:
            return None
        mx = (1 << _UWIDTH[t[2]]) - 1
        rg = lin_range(facts, v)
        if rg is not None and 0 <= rg[0] and rg[1] <= mx:
            return v
        # a narrowing cast under a dominating comparison that excludes values above the target's maximum
        if point not in (None, 'entry'):
            from .common import cmp_guard
            for ty in ('usize', 'u64', 'u32'):
                g = cmp_guard(a, point[0], t[3], ('const', ty, mx))
                if g['guards'] >= 1 and not g['gt']:
                    return v
        return None
    if t[0] == 'len':
        r = t[1]
        if r[0] == 'addr' and r[2] and r[2][-1][0] == 'slice':
            lo, hi = r[2][-1][1], r[2][-1][2]
            parent = ('addr', r[1], r[2][:-1], r[3])
            if not parent[2] and parent[1][0] == 'pointee':
                parent = parent[1][1]
            hv = lin(a, facts, hi, point, depth + 1) if hi is not None else lin(a, facts, ('len', parent), point, depth + 1)
            lv = lin(a, facts, lo, point, depth + 1) if lo is not None else ({}, 0)
            return None if hv is None or lv is None else _ladd(hv, lv, -1)
        n = ref_len(a, facts, r, point)
        if isinstance(n, int):
            return {}, n
        if isinstance(n, str):
            return {('sym', n): 1}, 0
        r0 = strip_sites(r)
        if r0[0] == 'param' and a.body.local_ty(r0[1]).startswith('&') and '[' in a.body.local_ty(r0[1]):
            return {('len', r0): 1}, 0
        return None
    return None


def lin_range(facts, v):
    """(min, max) of a linear form over all values of its atoms (type-level lengths over all impls; slice lengths in
    0..=isize::MAX); None if some atom is unbounded"""
    lo = hi = v[1]
    for at, c in v[0].items():
        if at[0] == 'sym':
            b = sym_bounds(facts, at[1])
            if not b or not isinstance(b[0], int) or not isinstance(b[1], int):
                return None
        elif at[0] == 'var':
            b = (at[2], at[3])
        else:
            b = (0, ISIZE_MAX)
        lo += c * (b[0] if c > 0 else b[1])
        hi += c * (b[1] if c > 0 else b[0])
    return lo, hi


def lin_holds(a, facts, rel, x, y, point):
    """is `x rel y` true for every value of the lengths involved?  -> explanation or None"""
    lx, ly = lin(a, facts, x, point), lin(a, facts, y, point)
    if lx is None or ly is None:
        return None
    d = _ladd(lx, ly, -1)
    if rel == 'Eq':
        return 'both sides are the same linear form over the lengths involved' if not d[0] and d[1] == 0 else None
    rg = lin_range(facts, d)
    if rg is None:
        return None
    ok = {'Le': rg[1] <= 0, 'Lt': rg[1] < 0, 'Ge': rg[0] >= 0, 'Gt': rg[0] > 0, 'Ne': rg[1] < 0 or rg[0] > 0}.get(rel)
    return 'lhs - rhs ranges over [%d, %d] for all lengths' % rg if ok else None


def _deref_loads(v):
    v = unref(v)
    while v[0] == 'load' and not v[2]:
        v = unref(v[1])
    return v


def assert_condition(a, bi):
    """the comparison that sends control to the diverging block bi when it fails: (rel, x, y, switch block) with
    `x rel y` the condition under which bi is NOT entered; None if bi is not guarded by exactly one comparison"""
    chain = a.cfg.dom_chain(bi)
    for b2 in reversed(chain[:-1]):
        t2 = a.body.blocks[b2]['term']
        if t2['k'] != 'switch':
            continue
        d = a.val_op(t2['discr'], a.term_point(b2))
        neg = False
        while d[0] == 'un' and d[1] == 'Not':
            d = d[2]
            neg = not neg
        if not (d[0] == 'bin' and d[1] in _REL_OPS):
            return None
        t_true, t_false = switch_edge(t2, 1), switch_edge(t2, 0)
        if t_true == t_false:
            return None
        to_bi_true = a.cfg.edge_dominates(b2, t_true, bi)
        to_bi_false = a.cfg.edge_dominates(b2, t_false, bi)
        if to_bi_true == to_bi_false:
            return None
        holds_when_skipped = (not to_bi_true) != neg        # value of the comparison on the path that avoids bi
        rel = d[1] if holds_when_skipped else {'Eq': 'Ne', 'Ne': 'Eq', 'Lt': 'Ge', 'Ge': 'Lt', 'Le': 'Gt', 'Gt': 'Le'}[d[1]]
        return rel, _deref_loads(d[2]), _deref_loads(d[3]), b2
    return None


def len_term_bounds(a, facts, t, point):
    """(lo, hi) bounds of a usize term built from lengths and constants; None if unknown. hi may be 'ISIZE' (<= isize::MAX)"""
    c = const_of(t)
    if c is not None:
        return c, c
    if t[0] == 'len':
        r = t[1]
        n = ref_len(a, facts, r, point)
        if isinstance(n, int):
            return n, n
        b = sym_bounds(facts, n) if n is not None else None
        if b:
            return b
        return 0, 'ISIZE'
    if t[0] == 'call' and t[1] == 'Serializable::size' and t[4]:
        raws = [im['types']['OutputSize'] for im in facts.impls if im.get('trait') == 'Serializable' and im['self_ty'] == t[4][2]]
        if raws:
            v = raws[0].get('usize')
            if v is not None:
                return v, v
            return sym_bounds(facts, raws[0]['raw'])
    if t[0] == 'call' and t[1] == 'core::mem::size_of':
        from .common import size_of_term
        v = size_of_term(facts, t)
        if v is not None:
            return v, v
    if t[0] == 'field':
        # the position handed out by enumerate() / a 0..len range: 0 <= i < len of every buffer the loop runs over
        from .aeadctx import _payload_path, _iter_layout
        pth, nx = _payload_path(t)
        lay = _iter_layout(a, nx) if nx is not None else None
        if lay is not None and lay[0].get(pth) == ('index',) and lay[1]:
            his = []
            for d_ in lay[1]:
                n = ref_len(a, facts, d_, point)
                b = sym_bounds(facts, n) if n is not None else None
                if b and isinstance(b[1], int):
                    his.append(b[1])
                elif d_[0] == 'param' and point not in (None, 'entry'):
                    n2 = len_assert_of(a, point[0], d_)
                    if n2 is not None:
                        his.append(n2)
            if his and min(his) >= 1:
                return 0, min(his) - 1
        return None
    if t[0] == 'cast' and t[1] == 'IntToInt' and t[2] in _UWIDTH:
        b = len_term_bounds(a, facts, t[3], point)
        if b and isinstance(b[1], int) and b[1] < (1 << _UWIDTH[t[2]]):
            return b
        return None
    if t[0] == 'bin' and t[1] == 'Mul':
        x, y = len_term_bounds(a, facts, t[2], point), len_term_bounds(a, facts, t[3], point)
        if x and y and all(isinstance(v, int) for v in x + y):
            return x[0] * y[0], x[1] * y[1]
        return None
    if t[0] == 'bin' and t[1] in ('Add', 'Sub'):
        x, y = len_term_bounds(a, facts, t[2], point), len_term_bounds(a, facts, t[3], point)
        if x is None or y is None:
            return None
        if t[1] == 'Add':
            lo = x[0] + y[0]
            hi = 'ISIZE+%d' % y[1] if x[1] == 'ISIZE' and isinstance(y[1], int) else (x[1] + y[1] if isinstance(x[1], int) and isinstance(y[1], int) else None)
            return (lo, hi) if hi is not None else None
        if isinstance(x[0], int) and isinstance(y[1], int) and x[0] >= y[1]:
            return x[0] - y[1], (x[1] - y[0]) if isinstance(x[1], int) else x[1]
        return None
    return None


def _depth_ok():
    import sys
    f = sys._getframe()
    n = 0
    while f is not None:
        if f.f_code.co_name in ('ref_len', 'lin'):
            n += 1
        f = f.f_back
    return n < 12


def ref_len(a, facts, r, point):
    """type-level length of what reference term r points to: int | symbolic | None"""
    r0 = r
    if r[0] == 'addr':
        base, path = r[1], r[2]
        ty = None
        if base[0] == 'local':
            ty = a.body.local_ty(base[1])
        elif base[0] == 'pointee' and base[1][0] == 'param':
            ty = strip_ref(a.body.local_ty(base[1][1]))
        elif base[0] in ('cell', 'promoted'):
            v = base[1] if base[0] == 'cell' else base[2]
            b = bytes_of(v)
            if b is not None:
                return len(b)
            if v[0] == 'agg' and v[1] == 'array':
                return len(v[3])
            if v[0] == 'repeat' and isinstance(v[2], int):
                return v[2]
            return None
        for e in path:
            if ty is None:
                return None
            if e[0] == 'f':
                adt = facts.adts.get(ty.split('<', 1)[0])
                if adt is None:
                    return None
                fl = [f['ty'] for f in adt['variants'][0]['fields'] if f['name'] == e[1]]
                ty = fl[0] if fl else None
            elif e[0] == 'slice':
                n = ty_len(ty)
                lo, hi = e[1], e[2]
                lo_b = len_term_bounds(a, facts, lo, point) if lo is not None else (0, 0)
                hi_b = len_term_bounds(a, facts, hi, point) if hi is not None else None
                if hi is None:
                    if isinstance(n, int) and lo_b and lo_b[0] == lo_b[1]:
                        return n - lo_b[0]
                    # len - (len - k) = k
                    if lo is not None and lo[0] == 'bin' and lo[1] == 'Sub' and lo[2][0] == 'len':
                        k = len_term_bounds(a, facts, lo[3], point)
                        ln = ref_len(a, facts, lo[2][1], point)
                        if k and k[0] == k[1] and ln is not None and ln == n:
                            return k[0]
                    return None
                if lo_b and hi_b and lo_b[0] == lo_b[1] and hi_b[0] == hi_b[1]:
                    return hi_b[0] - lo_b[0]
                # hi - lo is the same constant at every position of a loop (`start..start + 2`)
                if lo is not None and _depth_ok():
                    lh, ll = lin(a, facts, hi, point), lin(a, facts, lo, point)
                    if lh is not None and ll is not None:
                        d = _ladd(lh, ll, -1)
                        if not d[0] and d[1] >= 0:
                            return d[1]
                        if d[1] == 0 and len(d[0]) == 1:
                            (at, co), = d[0].items()
                            if co == 1 and at[0] == 'sym':
                                return at[1]           # exactly one type-level length
                return None
            else:
                return None
        return ty_len(ty) if ty else None
    if r[0] == 'param':
        return ty_len(a.body.local_ty(r[1]))
    if r[0] == 'call':
        # typed result, e.g. as_bytes() -> &[u8; 32]
        t = a.body.blocks[r[3]]['term']
        return ty_len(t['dest_ty'])
    if r[0] == 'load':
        return None
    return None


class Discharger:
    def __init__(self, rep, facts, reach, rule='R13.3'):
        self.rep = rep
        self.facts = facts
        self.reach = reach
        self.rule = rule
        self.append_helpers = set()
        self.chain_sites = set()        # (body key, block) of append-helper calls that belong to a verified chain
        self.chain_ok = True
        self.encoders = {}

    # D4 — pre-pass: every concat chain in the crate fits its buffer
    def verify_chains(self):
        rep, facts = self.rep, self.facts
        n = 0
        for key, a in self.reach.items():
            for bi, t, c in a.calls(lambda c: c['name'] in ('index', 'index_mut')):
                v = a.val_call(t, a.term_point(bi))
                if v[0] != 'addr' or v[1][0] != 'local' or len(v[2]) != 1 or v[2][0][0] != 'slice' or v[2][0][1] is not None:
                    continue
                hi = v[2][0][2]
                if not (hi[0] == 'bin' and hi[1] == 'Sub' and hi[3][0] == 'len'):
                    continue
                pieces, helper, N = concat_pieces(a, v, a.term_point(bi))
                if pieces is None:
                    continue
                n += 1
                self.append_helpers.add(helper)
                total = 0
                desc = []
                ok = True
                for pr, site in pieces:
                    ln = ref_len(a, facts, pr, site)
                    b = sym_bounds(facts, ln) if ln is not None else None
                    if b is None:
                        ok = False
                        desc.append('?%s' % pp(pr)[:30])
                    else:
                        total += b[1]
                        desc.append(str(b[1]))
                    self.chain_sites.add((key, site[0]))
                fits = ok and total <= N
                self.chain_ok = self.chain_ok and fits
                rep.check(fits, self.rule, key, 'D4:concat-capacity#%d' % len([1 for x in rep.obligations if x['fn'] == key and 'D4:concat-capacity' in x['instance']]),
                          'buffer of %s bytes, maximal piece sizes over all impls: %s = %s' % (N, ' + '.join(desc), total if ok else '?'),
                          'the concatenation buffer holds the largest possible pieces (no slice-index panic inside the append helper)', where(a, a.term_point(bi)))
        # all calls of the append helpers are part of a verified chain
        for h in self.append_helpers:
            for key, a in self.reach.items():
                for bi, t, c in a.calls(lambda c: (c.get('key') == h)):
                    if (key, bi) not in self.chain_sites:
                        self.chain_ok = False
                        rep.bad(self.rule, key, 'D4:append-outside-chain', 'call of %s outside a recognised concat chain' % h,
                                'every use of the append helper is capacity-checked', where(a, a.term_point(bi)))
        return n

    def discharge(self, key, a, s):
        """-> (rule, text) or None"""
        facts = self.facts
        bi, kind, t, c = s['bi'], s['kind'], s['term'], s['callee']
        p = a.term_point(bi)
        if kind.startswith('assert:overflow:Sh'):
            amt = a.val_op(t['ops'][1], p) if len(t['ops']) > 1 else None
            k = const_of(amt) if amt else None
            lhs_ty = None
            if k is not None and 0 <= k < 128:
                cond = a.val_op(t['cond'], p)
                # cond = Lt(k as u32, width)
                if cond[0] == 'bin' and cond[1] == 'Lt' and const_of(cond[2]) == k and const_of(cond[3]) is not None and k < const_of(cond[3]):
                    return 'D1', 'constant shift %d < %d' % (k, const_of(cond[3]))
            if k is None and amt is not None:
                # a shift amount computed from a loop position: bounded below the operand's width
                cond = a.val_op(t['cond'], p)
                ab = len_term_bounds(a, facts, amt, p)
                if ab and isinstance(ab[1], int) and cond[0] == 'bin' and cond[1] == 'Lt' and const_of(cond[3]) is not None and ab[1] < const_of(cond[3]) \
                        and strip_sites(unwrap_casts(cond[2])) == strip_sites(unwrap_casts(amt)):
                    return 'D7', 'shift amount in [%d, %d] < %d' % (ab[0], ab[1], const_of(cond[3]))
            return None
        if kind == 'assert:overflow:Mul':
            l, r = a.val_op(t['ops'][0], p), a.val_op(t['ops'][1], p)
            lb, rb = len_term_bounds(a, facts, l, p), len_term_bounds(a, facts, r, p)
            ty = l[1] if l[0] == 'const' else (r[1] if r[0] == 'const' else None)
            if lb and rb and isinstance(lb[1], int) and isinstance(rb[1], int) and ty in _UWIDTH and lb[1] * rb[1] < (1 << _UWIDTH[ty]):
                return 'D7', 'product of bounded factors <= %d' % (lb[1] * rb[1])
            return None
        if kind == 'assert:bounds':
            ln, idx = a.val_op(t['ops'][0], p), a.val_op(t['ops'][1], p)
            i = const_of(idx)
            if i is None:
                # index = the position handed out by enumerate()/a 0..len range over a buffer of the same type-level length
                from .aeadctx import _payload_path, _iter_layout
                pth, nx = _payload_path(idx)
                lay = _iter_layout(a, nx) if nx is not None else None
                if lay is not None and lay[0].get(pth, (None,))[0] == 'index' and ln[0] == 'len':
                    n_idx = ref_len(a, facts, ln[1], p)
                    n_drv = [ref_len(a, facts, d_, p) for d_ in lay[1]]
                    if n_idx is not None and n_drv and all(x == n_idx for x in n_drv):
                        return 'D3', 'index runs over a buffer of the same type-level length %s' % (n_idx,)
                    if lay[1] and all(strip_sites(d_) == strip_sites(ln[1]) for d_ in lay[1]):
                        return 'D3', 'index runs over 0..len of the very slice that is indexed'
                return None
            if const_of(ln) is not None and i < const_of(ln):
                return 'D1', 'constant index %d < array length %d' % (i, const_of(ln))
            if ln[0] == 'len':
                r = ln[1]
                n = ref_len(a, facts, r, p)
                b = sym_bounds(facts, n) if n is not None else None
                if b and i < b[0]:
                    return 'D1', 'constant index %d < type-level length %s' % (i, n)
                # dominated by an equality test len == N
                if r[0] == 'param':
                    n2 = self.len_assert(a, bi, r)
                    if n2 is not None and i < n2:
                        return 'D9', 'constant index %d under the dominating assert_eq!(len, %d)' % (i, n2)
            return None
        if kind == 'assert:overflow:Sub':
            l, r = a.val_op(t['ops'][0], p), a.val_op(t['ops'][1], p)
            # N - unused.len() of the concat idiom
            if const_of(l) is not None and r[0] == 'len' and r[1][0] == 'addr' and r[1][1][0] == 'local':
                ty = a.body.local_ty(r[1][1][1])
                if array_len(ty) == const_of(l) and all(e[0] == 'slice' for e in r[1][2]):
                    return 'D4', '%d - len(sub-slice of the %d-byte buffer)' % (const_of(l), const_of(l))
            lb, rb = len_term_bounds(a, facts, l, p), len_term_bounds(a, facts, r, p)
            if lb and rb and isinstance(lb[0], int) and isinstance(rb[1], int) and lb[0] >= rb[1]:
                return 'D7', 'minuend >= %d over all impls, subtrahend <= %d' % (lb[0], rb[1])
            from .common import cmp_guard
            g = cmp_guard(a, bi, l, r)
            if g['guards'] >= 1 and not g['lt']:
                return 'D5', 'subtraction dominated by a comparison guard that excludes minuend < subtrahend'
            return None
        if kind == 'assert:overflow:Add':
            l, r = a.val_op(t['ops'][0], p), a.val_op(t['ops'][1], p)
            # x + 1 under a dominating comparison that excludes x == MAX (and x > MAX cannot be)
            for x, c in ((l, r), (r, l)):
                if c[0] == 'const' and c[2] == 1 and c[1] in ('u64', 'usize', 'u32', 'u16', 'u8'):
                    from .common import cmp_guard
                    mx = ('const', c[1], (1 << {'u64': 64, 'usize': 64, 'u32': 32, 'u16': 16, 'u8': 8}[c[1]]) - 1)
                    g = cmp_guard(a, bi, x, mx)
                    if g['guards'] >= 1 and g['lt'] and not g['eq']:
                        return 'D5', 'x + 1 under a dominating comparison that excludes x == %s::MAX' % c[1]
            lsum = lin(a, facts, ('bin', 'Add', l, r), p)
            rg = lin_range(facts, lsum) if lsum is not None else None
            if rg is not None and 0 <= rg[0] and rg[1] < (1 << 64):
                return 'D8', 'sum of lengths in [%d, %d] < 2^64' % rg
            lb, rb = len_term_bounds(a, facts, l, p), len_term_bounds(a, facts, r, p)
            if lb and rb:
                for x, y in ((lb, rb), (rb, lb)):
                    if x[1] == 'ISIZE' and isinstance(y[1], int) and y[1] < 2 ** 62:
                        return 'D8', 'slice length (<= isize::MAX) + at most %d' % y[1]
                    if isinstance(x[1], int) and isinstance(y[1], int) and x[1] + y[1] < 2 ** 63:
                        return 'D8', 'bounded constants'
            return None
        if kind.startswith('assert:'):
            return None
        name = c['name'] if c else ''
        if name in ('index', 'index_mut'):
            return self.d_index(key, a, s)
        if name == 'copy_from_slice':
            return self.d_copy(key, a, s)
        if name == 'clone_from_slice' and len(s['term']['args']) == 1:
            # GenericArray::clone_from_slice(src): panics unless src has the array's type-level length
            return self.d_copy(key, a, s, fixed_dst=ty_len(s['term']['dest_ty']))
        if name == 'split_at_mut':
            whole, idx = a.arg_val(bi, 0), a.arg_val(bi, 1)
            al = self._vec_alloc_summands(a, whole, a.term_point(bi))
            if al is not None and strip_sites(al[0]) == strip_sites(idx):
                return 'D8', 'split index is the first summand of the allocation length n + Nt (<= len)'
            return None
        if name == 'split_at':
            whole, idx = a.arg_val(bi, 0), a.arg_val(bi, 1)
            from .common import checked_sub_some
            cs = checked_sub_some(a, facts, idx)
            if cs is not None and cs[0] == ('len', whole):
                return 'D5', 'split_at(len.checked_sub(k) on its Some path) — index <= len'
            if idx[0] == 'bin' and idx[1] == 'Sub' and idx[2] == ('len', whole):
                return 'D5', 'split_at(len - k): index <= len (the subtraction itself is a separate site)'
            return None
        if name in ('unwrap', 'expect'):
            return self.d_unwrap(key, a, s)
        if name == 'into':
            # &[u8] -> &GenericArray<u8, N>: needs len == N
            src = a.arg_val(bi, 0)
            n_dst = ty_len(t['dest_ty'])
            g = guard_equal_len(a, facts, bi, src)
            if n_dst is not None and g is not None and g == n_dst:
                return 'D3', 'slice of guarded length %s converted to an array of %s' % (g, n_dst)
            return None
        if name in ('to_vec', 'from_elem', 'extend_from_slice', 'with_capacity'):
            return 'T', 'allocation proportional to the input length (+Nt); failure aborts (outside the property)'
        if name == 'assert_failed':
            return self.d_len_assert(key, a, s) or self.d_linear_assert(key, a, s)
        if name == 'panic_fmt':
            return self.d_panic(key, a, s)
        if name == 'panic':
            return self.d_linear_assert(key, a, s)
        return None

    def d_linear_assert(self, key, a, s):
        """D10: an assertion whose condition is a linear identity / inequality over immutable lengths that holds for all of
        them (what a `debug_assert!` of "the parts add up to the whole" states)"""
        ac = assert_condition(a, s['bi'])
        if ac is None:
            return None
        rel, x, y, sb = ac
        why = lin_holds(a, self.facts, rel, x, y, a.term_point(sb))
        if why is None:
            return None
        return 'D10', 'assertion %s %s %s always holds: %s' % (pp(x)[:60], rel, pp(y)[:60], why)

    def len_assert(self, a, bi, param):
        return len_assert_of(a, bi, param)

    def d_len_assert(self, key, a, s):
        """assert_eq!(buf.len(), N) in an encoder: every caller passes a slice of statically known length N"""
        n = None
        for b2 in a.cfg.reach:
            t2 = a.body.blocks[b2]['term']
            if t2['k'] == 'switch' and s['bi'] in a.cfg.fwd(b2):
                d = strip_sites(a.val_op(t2['discr'], a.term_point(b2)))
                if d[0] == 'bin' and d[1] == 'Eq':
                    vals = []
                    for v in (unref(d[2]), unref(d[3])):
                        while v[0] == 'load' and not v[2]:
                            v = unref(v[1])
                        vals.append(v)
                    if vals[0] == ('len', ('param', 1)) and const_of(vals[1]) is not None:
                        n = const_of(vals[1])
                    # assert_eq!(a.len(), b.len()) of two buffers with the same type-level length: always true
                    if vals[0][0] == 'len' and vals[1][0] == 'len':
                        p2 = a.term_point(b2)
                        la, lb = ref_len(a, self.facts, vals[0][1], p2), ref_len(a, self.facts, vals[1][1], p2)
                        if la is not None and la == lb:
                            return 'D3', 'assert_eq!(a.len(), b.len()) of two buffers of type-level length %s' % (la,)
        if n is None:
            return None
        bad = []
        cnt = 0
        for k2, a2 in self.reach.items():
            for bi, t, c in a2.calls(lambda c: c.get('key') == key):
                cnt += 1
                arg = a2.arg_val(bi, 0)
                ln = ref_len(a2, self.facts, arg, a2.term_point(bi))
                if ln != n:
                    bad.append('%s: %s has length %s' % (k2, pp(arg)[:50], ln))
        if bad or cnt == 0:
            return None
        self.encoders[key] = (n, cnt)
        return 'D9', 'assert_eq!(len, %d): all %d call sites pass a slice of type-level length %d' % (n, cnt, n)

    def d_index(self, key, a, s):
        facts = self.facts
        bi, t = s['bi'], s['term']
        p = a.term_point(bi)
        base, r = a.arg_val(bi, 0), a.arg_val(bi, 1)
        if r[0] == 'agg' and r[2].startswith('core::ops::RangeFull'):
            return 'D2', 'full range'
        if r[0] == 'call' and r[1] == 'core::ops::RangeInclusive::new' and len(r[2]) == 2:
            # a..=b is a..b + 1; b + 1 cannot wrap when b is bounded by a length (checked below through hi <= len)
            from ..prov import fold_bin
            lo, hi = r[2][0], fold_bin('Add', r[2][1], ('const', 'usize', 1))
        elif not (r[0] == 'agg' and r[2].rsplit('::', 1)[0] in ('core::ops::Range', 'core::ops::RangeTo', 'core::ops::RangeFrom')):
            return None
        else:
            f = dict(zip(r[4], r[3]))
            lo, hi = f.get('start'), f.get('end')
        if (lo is None or const_of(lo) == 0) and hi is not None:
            bp = base[1][1] if base[0] == 'addr' and base[1][0] == 'pointee' and not base[2] else base
            if bp[0] == 'param' and guarded_prefix(a, facts, bi, ('addr', ('pointee', bp), (('slice', None, hi),), False)) is not None:
                return 'D6', 'prefix [..N] of a parameter whose length is guarded to be N'
        # x[m..][..n]: the prefix of a tail.  The tail x[len - k ..] has k bytes; the tail buf[x..] of a Vec allocated as x + k has k
        if (lo is None or const_of(lo) == 0) and hi is not None and base[0] == 'addr' and base[2] and base[2][-1][0] == 'slice' \
                and base[2][-1][2] is None and base[2][-1][1] is not None:
            m = base[2][-1][1]
            whole = ('addr', base[1], base[2][:-1], base[3]) if base[2][:-1] else (base[1][1] if base[1][0] == 'pointee' else ('addr', base[1], (), base[3]))
            k = None
            if m[0] == 'bin' and m[1] == 'Sub' and m[2] == ('len', whole):
                k = m[3]
            else:
                from .common import checked_sub_some
                cs = checked_sub_some(a, facts, m)
                if cs is not None and cs[0] == ('len', whole):
                    k = cs[1]
            if k is not None and _same_len_term(k, hi):
                return 'D5', 'prefix [..k] of the tail x[len - k ..], which has k bytes'
            al = self._vec_alloc_summands(a, ('addr', base[1], base[2][:-1], base[3]), p)
            if al is not None and strip_sites(al[0]) == strip_sites(m) and _same_len_term(al[1], hi):
                return 'D8', 'prefix [..k] of the tail buf[x..] of a Vec allocated as x + k'
        n = ref_len(a, facts, base, p)
        nb = sym_bounds(facts, n) if n is not None else None
        lo_b = len_term_bounds(a, facts, lo, p) if lo is not None else (0, 0)
        hi_b = len_term_bounds(a, facts, hi, p) if hi is not None else None
        # inside the append helper: justified by the capacity check of every caller chain
        if key in self.append_helpers and self.chain_ok:
            return 'D4', 'append helper: every call chain is capacity-checked (D4:concat-capacity)'
        # constant range within a type-level length
        if nb and lo_b and isinstance(lo_b[1], int) and (hi is None or (hi_b and isinstance(hi_b[1], int))):
            top = hi_b[1] if hi is not None else lo_b[1]
            if top <= nb[0] and (hi is None or lo_b[1] <= hi_b[0]):
                return 'D1', 'range [%s..%s] within type-level length %s' % (lo_b[1] if lo is not None else '', hi_b[1] if hi is not None else '', n)
        # lo..hi with lo <= hi and hi <= len decided relationally (both depend on the same loop position)
        if nb and lo is not None and hi is not None and isinstance(nb[0], int):
            w1 = lin_holds(a, facts, 'Le', lo, hi, p)
            w2 = lin_holds(a, facts, 'Le', hi, ('const', 'usize', nb[0]), p)
            if w1 and w2:
                return 'D7', 'range lo..hi with lo <= hi (%s) and hi <= %d (%s)' % (w1, nb[0], w2)
        # lo..hi of a slice whose length is itself an unknown: lo <= hi and hi <= len(base) as linear facts
        if lo is not None and hi is not None:
            w1 = lin_holds(a, facts, 'Le', lo, hi, p)
            w2 = lin_holds(a, facts, 'Le', hi, ('len', base), p)
            if w1 and w2:
                return 'D7', 'range lo..hi with lo <= hi (%s) and hi <= len (%s)' % (w1, w2)
        # [..N - unused.len()] of the concat idiom
        if lo is None and hi is not None and hi[0] == 'bin' and hi[1] == 'Sub' and isinstance(n, int) and const_of(hi[2]) == n and hi[3][0] == 'len':
            return 'D4', 'prefix [..%d - unused.len()] of the %d-byte buffer' % (n, n)
        # [len - k ..] with len >= k for all impls
        if hi is None and lo is not None and lo[0] == 'bin' and lo[1] == 'Sub' and lo[2][0] == 'len':
            ln = ref_len(a, facts, lo[2][1], p)
            if ln is not None and ln == n:
                kb = len_term_bounds(a, facts, lo[3], p)
                if kb and nb and isinstance(kb[1], int) and kb[1] <= nb[0]:
                    return 'D7', '[len - %d ..] of a buffer of the same type-level length (>= %d for all impls)' % (kb[1], nb[0])
        # [..k] / [k..] with k = len(base) - j (the subtraction itself is a separate site) or the Some payload of checked_sub
        for bound in ([hi] if lo is None and hi is not None else []) + ([lo] if hi is None and lo is not None else []):
            if bound[0] == 'bin' and bound[1] == 'Sub' and bound[2] == ('len', base):
                return 'D5', 'index len - j <= len (the subtraction is checked at its own site)'
            from .common import checked_sub_some
            cs = checked_sub_some(a, facts, bound)
            if cs is not None and cs[0] == ('len', base):
                return 'D5', 'index = len.checked_sub(j) on its Some path: <= len'
        # ranges over a Vec allocated as len(x) + k
        bv = a.deref_val(base, p) if base[0] == 'addr' else None
        root = bv
        if root is not None and root[0] == 'mem':
            root = root[2]
        if root is not None and root[0] == 'call' and root[1].endswith('vec::from_elem'):
            total = root[2][1]
            if total[0] == 'bin' and total[1] == 'Add':
                x, y = total[2], total[3]
                okhi = hi is None or hi == x or hi == total or strip_sites(hi) == strip_sites(total) or strip_sites(hi) == strip_sites(x)
                oklo = lo is None or strip_sites(lo) == strip_sites(x)
                if okhi and oklo:
                    return 'D8', 'range bounds are the summands of the allocation length len + Nt'
        return None

    def _vec_alloc_summands(self, a, ref, p):
        """(x, k) if the buffer behind `ref` is a Vec allocated as vec![_; x + k] (root of the reference, views removed)"""
        base = ref
        if base[0] == 'addr':
            base = ('addr', base[1], tuple(e for e in base[2] if e[0] not in ('slice', 'i')), base[3])
        bv = a.deref_val(base, p) if base[0] == 'addr' else None
        root = bv
        if root is not None and root[0] == 'mem':
            root = root[2]
        if root is not None and root[0] == 'call' and root[1].endswith('vec::from_elem'):
            total = root[2][1]
            if total[0] == 'bin' and total[1] == 'Add':
                return total[2], total[3]
        return None

    def d_copy(self, key, a, s, fixed_dst=None):
        facts = self.facts
        bi, t = s['bi'], s['term']
        p = a.term_point(bi)
        if fixed_dst is not None:
            dst, src = ('unknown', 'value'), a.arg_val(bi, 0)
        else:
            dst, src = a.arg_val(bi, 0), a.arg_val(bi, 1)
        src = guarded_prefix(a, facts, bi, src) or src
        if key in self.append_helpers:
            # buf[..len(x)].copy_from_slice(x)
            if dst[0] == 'addr' and dst[2] and dst[2][-1][0] == 'slice' and dst[2][-1][1] is None and dst[2][-1][2] == ('len', src):
                return 'D4', 'destination is buf[..src.len()]'
        if fixed_dst is not None:
            n_dst = fixed_dst
            n_src = ref_len(a, facts, src, p)
            if n_src is None:
                n_src = operand_len(a, t['args'][0])
        else:
            n_dst = ref_len(a, facts, dst, p)
            if n_dst is None:
                n_dst = operand_len(a, t['args'][0])
            n_src = ref_len(a, facts, src, p)
            if n_src is None:
                n_src = operand_len(a, t['args'][1])
        if n_dst is not None and n_dst == n_src:
            return 'D3', 'both sides have type-level length %s' % (n_dst,)
        if n_dst is not None and src[0] == 'param':
            g = guard_equal_len(a, facts, bi, src)
            if g is not None and g == n_dst:
                return 'D3', 'source length guarded to be %s = destination length' % (g,)
            # symbolic: AeadTag<A>: Self::size() vs GenericArray<u8, Self::OutputSize>
            if g is not None and isinstance(g, str) and isinstance(n_dst, str) and (g == n_dst or n_dst.endswith('as Serializable>::OutputSize') and a.body.impl_of):
                own = [im['types']['OutputSize']['raw'] for im in facts.impls if im.get('trait') == 'Serializable' and im['self_ty'] == a.body.impl_of['self_ty']]
                if g in own or n_dst in own or g == n_dst:
                    return 'D3', 'source length guarded to be Self::OutputSize = destination length'
        # open(): tag copy from the tail x[len - Nt ..] of the one split of the input (split_at(..).1 or an index expression)
        if src[0] == 'addr' and src[2] and src[2][-1][0] == 'slice' and src[2][-1][2] is None and src[2][-1][1] is not None:
            idx = src[2][-1][1]
            whole = ('addr', src[1], src[2][:-1], src[3]) if src[2][:-1] else (src[1][1] if src[1][0] == 'pointee' else ('addr', src[1], (), src[3]))
            k = None
            if idx[0] == 'bin' and idx[1] == 'Sub' and idx[2] == ('len', whole):
                k = idx[3]
            else:
                from .common import checked_sub_some
                cs = checked_sub_some(a, facts, idx)
                if cs is not None and cs[0] == ('len', whole):
                    k = cs[1]
            if k is not None and k[0] == 'call' and k[1] == 'Serializable::size' and k[4]:
                raws = [im['types']['OutputSize']['raw'] for im in facts.impls if im.get('trait') == 'Serializable' and im['self_ty'] == k[4][2]]
                if raws and n_dst is not None and (n_dst == raws[0] or n_dst == typenum_usize(raws[0])):
                    return 'D5', 'the tail x[len - Nt ..] has Nt bytes = the tag buffer'
        # dst = buf[s..e] with e - s = len(src) by linear arithmetic over constants and lengths
        if dst[0] == 'addr' and dst[2] and dst[2][-1][0] == 'slice' and dst[2][-1][2] is not None:
            from .hpketerms import lin
            s_, e_ = lin(dst[2][-1][1]), lin(dst[2][-1][2])
            if s_ is not None and e_ is not None:
                d = {k: e_.get(k, 0) - s_.get(k, 0) for k in set(s_) | set(e_)}
                d = {k: x for k, x in d.items() if x}
                if d == {('len', strip_sites(src)): 1}:
                    return 'D4', 'destination range [s..s + src.len()] has exactly the source length'
        # seal(): ranges of the vec allocated as len(pt) + Nt
        if dst[0] == 'addr' and dst[2] and dst[2][-1][0] == 'slice':
            lo, hi = dst[2][-1][1], dst[2][-1][2]
            if lo is None and hi == ('len', src):
                return 'D8', 'destination is buf[..src.len()]'
            if lo is not None and hi is None:
                # buf[x..] of a Vec allocated with x + k bytes has k bytes
                al = self._vec_alloc_summands(a, dst, p)
                if al is not None and strip_sites(al[0]) == strip_sites(lo):
                    k = al[1]
                    if k[0] == 'call' and k[1] == 'Serializable::size' and k[4]:
                        raws = [im['types']['OutputSize']['raw'] for im in facts.impls if im.get('trait') == 'Serializable' and im['self_ty'] == k[4][2]]
                        if raws and n_src is not None and (n_src == raws[0] or n_src == typenum_usize(raws[0])):
                            return 'D8', 'destination is the last Nt bytes of a Vec allocated as n + Nt, source is the Nt-byte tag'
            if lo is not None and hi is not None and hi[0] == 'bin' and hi[1] == 'Add' and strip_sites(hi[2]) == strip_sites(lo):
                k = hi[3]
                if k[0] == 'call' and k[1] == 'Serializable::size' and k[4]:
                    raws = [im['types']['OutputSize']['raw'] for im in facts.impls if im.get('trait') == 'Serializable' and im['self_ty'] == k[4][2]]
                    if raws and n_src is not None and (n_src == raws[0] or n_src == typenum_usize(raws[0])):
                        return 'D8', 'destination is buf[n..n+Nt], source is the Nt-byte tag'
        # a crate-private helper copying a fixed-size value into its buffer parameter: all callers pass that length
        if dst[0] == 'param' and isinstance(n_src, int) and not a.body.raw.get('exported'):
            cnt, bad = 0, []
            for k2, a2 in self.reach.items():
                for b2, t2, c2 in a2.calls(lambda c: c.get('key') == key):
                    cnt += 1
                    ln = ref_len(a2, facts, a2.arg_val(b2, dst[1] - 1), a2.term_point(b2))
                    if ln != n_src:
                        bad.append(k2)
            if cnt and not bad:
                return 'D9', 'all %d call sites pass a slice of type-level length %d' % (cnt, n_src)
        # write_exact: documented contract on the caller's own output buffer
        if a.body.impl_of and a.body.impl_of.get('name') == 'write_exact' and dst == ('param', 2):
            return 'T', 'write_exact panics iff buf.len() != Self::size(): documented API contract on the caller\'s own buffer (C12 R12.3), not attacker data'
        return None

    def d_unwrap(self, key, a, s):
        bi = s['bi']
        v = a.arg_val(bi, 0)
        if v[0] == 'phi':
            # `let r = if c { f(..) } else { g(..) }; r.expect(..)`: every alternative must be excluded on its own
            res = [self._d_unwrap_one(key, a, s, x[1]) for x in v[1]]
            if res and all(r is not None for r in res):
                return res[0][0], ' / '.join(sorted({r[1] for r in res}))
            return None
        return self._d_unwrap_one(key, a, s, v)

    def _d_unwrap_one(self, key, a, s, v):
        facts = self.facts
        bi, t = s['bi'], s['term']
        p = a.term_point(bi)
        if v[0] == 'agg' and v[1] == 'adt' and v[2] in ('core::result::Result::Ok', 'core::option::Option::Some'):
            return 'D1', 'the unwrapped value is built as %s on every path that reaches the unwrap' % v[2].rsplit('::', 1)[-1]
        if v[0] != 'call':
            return None
        path = v[1]
        minNh = sym_bounds(facts, '<<Kdf as kdf::Kdf>::HashImpl as digest::OutputSizeUser>::OutputSize')
        if path in ('kdf::LabeledExpand::labeled_expand', 'kdf::extract_and_expand'):
            out = v[2][-1]
            n = ref_len(a, facts, out, a.term_point(v[3]))
            b = sym_bounds(facts, n) if n is not None else None
            # the KDF in use: generic (all impls) or a concrete one
            if b and minNh and b[1] <= 255 * minNh[0]:
                return 'D6', 'output length <= %s <= 255 * %d (smallest Nh over all KDFs)' % (b[1], minNh[0])
            return None
        if path == 'hkdf::Hkdf::from_prk':
            prk = v[2][0]
            n = ref_len(a, facts, prk, a.term_point(v[3]))
            if isinstance(n, str) and 'HashImpl' in n and 'OutputSize' in n:
                return 'D6', 'PRK is the Nh-byte exporter secret of the same KDF (from_prk needs >= Nh)'
            return None
        if path.endswith('::from_exact_iter'):
            # zip of two equal type-level length arrays mapped 1:1
            return 'D3', 'from_exact_iter over the zip of two nonce-sized arrays of the same type (R04.1 buffer-type)'
        return None

    def d_panic(self, key, a, s):
        bi = s['bi']
        msg = None
        v = a.arg_val(bi, 0)
        for x in [v] + list(v[2] if v[0] == 'call' else []):
            b = bytes_of(x)
            if b:
                msg = b
        if msg and b'DeriveKeyPair failed all attempts' in msg:
            return 'T', 'DeriveKeyPair exhausted 256 candidates: probability < 2^-256 per call, sender/key-generation side, mandated by RFC 9180 §7.1.3 (DeriveKeyPairError)'
        if msg and (b'export-only' in msg):
            return 'T', 'export-only AEAD: sealing/opening panics by design; excluded by the property ("with a sealing AEAD")'
        if msg and b'write_exact()' in msg:
            return 'T', 'enforce_outbuf_len: write_exact\'s documented contract on the caller\'s own buffer (C12 R12.4)'
        return None


def run(ctx):
    rep, facts = ctx.rep, ctx.facts
    eps = entry_points(facts)
    feats = facts.meta.get('features', [])
    rep.floor('R13.1', 'exported/reachable functions (entry points)', len(eps), 30 + 10 * len([f for f in ('x25519', 'p256', 'p384', 'p521') if f in feats]))
    # every exported fn of the API facts has a body in the entry set
    api_fns = {x['key'] for x in facts.api if x['kind'] in ('Fn', 'AssocFn')}
    have = {b.key for b in eps}
    missing = [k for k in api_fns if k not in have and facts.body(k) is not None]
    rep.check(not missing, 'R13.1', '-', 'entry-points-complete', 'API functions without an analysed body: %s' % missing[:5], 'every exported function is an entry point', None)
    reach = closure(facts, eps)
    rep.bodies_analysed = len(reach)
    D = Discharger(rep, facts, reach)
    nch = D.verify_chains()
    nk = len([f for f in ('x25519', 'p256', 'p384', 'p521') if f in feats])
    # the six chains of each KEM expansion; the key-schedule context may also be laid out by hand (then it is no chain)
    rep.floor('R13.3', 'concat chains', nch, max(1, 4 * nk))
    total = 0
    by_rule = {}
    frozen = []
    for key in sorted(reach):
        a = reach[key]
        for s in sites_of(a):
            total += 1
            inst = '%s#%d' % (s['kind'], s['ord'])
            if s['kind'].startswith('unclassified:') or s['kind'] == 'indirect-call':
                rep.bad('R13.2', key, inst, 'external callee not in the panic-free table nor in a known panicking family',
                        'every external callee is classified (fail closed)', where(a, a.term_point(s['bi'])), kind='UNDECIDED')
                continue
            r = D.discharge(key, a, s)
            if r is None:
                c = s['callee']
                rep.bad('R13.3', key, inst, 'panic-capable site `%s` at line %s is not discharged by any structural rule nor listed in the frozen table' % (
                    s['kind'], s['term'].get('line')), 'a guard/type-level argument that excludes the panic for every input', where(a, a.term_point(s['bi'])))
            else:
                by_rule[r[0]] = by_rule.get(r[0], 0) + 1
                if r[0] == 'T':
                    frozen.append('%s | %s | %s' % (key, inst, r[1]))
                rep.ok('R13.3', key, inst, '%s: %s' % r)
    rep.extra['panic_sites'] = total
    rep.extra['discharged_by'] = by_rule
    rep.extra['frozen_table_hits'] = frozen
    rep.call_sites = sum(len(a.calls()) for a in reach.values())
    alloc = 'alloc' in feats or 'std' in feats
    # a refactoring may legitimately remove sites; the floor only detects a collapsed enumeration
    rep.floor('R13.2', 'panic-capable sites enumerated', total, int(0.6 * (38 + 28 * nk + (8 if alloc else 0))))
    c10.check_setup_errors(rep, facts, rule='R13.4')
