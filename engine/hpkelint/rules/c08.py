"""C08 — sender authentication (DESIGN §5 C08: R08.1 … R08.3)."""
from ..prov import get_an, pp, strip_sites
from .common import where
from . import c02, c03, modes, rfc9180 as rfc
from .hpketerms import ppn

EXPLANATION = (
    'Static analysis of MIR (all cargo features). R08.1: on the Some branch of the identity option (and only there) '
    'every KEM expansion mixes the static-static DH term — Ser(DH(skS, pkR)) on the sender, Ser(DH(skR, pkS)) on the '
    'receiver — as second component of the ExtractAndExpand input, and Ser(pkS) as third component of kem_context; '
    'these are exactly the AuthEncap/AuthDecap terms of RFC 9180 §4.1. R08.2: decision tables of the identity '
    'accessors: Auth and AuthPsk yield Some(the key material stored in the variant), Base and Psk yield None, and '
    'setup_sender/setup_receiver hand exactly that option to Kem::encap/decap. R08.3: psk enters `secret` as ikm and '
    'psk_id enters key_schedule_context (key-schedule slots). R08.4: the shared ExtractAndExpand helper hands its whole ikm '
    'and kem_context parameters to LabeledExtract / LabeledExpand (no clamp or sub-slice can drop the second DH term). Not decided: unforgeability itself (gap-DH assumption, '
    'HKDF as a PRF).')
TRUSTED = ['the gap-DH assumption and HKDF security give authentication from the static-static DH term', 'curve crates']
ASSUME = ['a sender without skS cannot compute DH(skS, pkR)']


def check_setup_passes_identity(rep, facts, rule='R08.2'):
    for key, acc, kemfn in (('setup::setup_sender', 'get_sender_id_keypair', 'encap'), ('setup::setup_receiver', 'get_pk_sender_id', 'decap')):
        a = get_an(facts, key)
        if a is None:
            rep.anchor_lost(rule, key, 'setup function', 'not found')
            continue
        cs = a.calls(lambda c: c.get('trait') == 'kem::Kem' and c['name'] == kemfn)
        if len(cs) != 1:
            rep.bad(rule, key, 'kem-call', '%d call(s)' % len(cs), 'one Kem::%s call' % kemfn, where(a))
            continue
        bi = cs[0][0]
        args = [strip_sites(a.arg_val(bi, i)) for i in range(3)]
        idarg = args[1]
        ok = idarg[0] == 'call' and idarg[1].endswith('::' + acc) and idarg[2] == (('param', 1),)
        rep.check(ok, rule, key, 'identity-option', pp(a.arg_val(bi, 1))[:120], 'Kem::%s receives mode.%s()' % (kemfn, acc), where(a, a.term_point(bi)))
        if kemfn == 'encap':
            rep.check(args[0] == ('param', 2) and args[2] == ('param', 4), rule, key, 'encap-args', [pp(x) for x in args], 'encap(pk_recip, identity, csprng)', where(a, a.term_point(bi)))
        else:
            rep.check(args[0] == ('param', 2) and args[2] == ('param', 3), rule, key, 'decap-args', [pp(x) for x in args], 'decap(sk_recip, identity, encapped_key)', where(a, a.term_point(bi)))


def run(ctx):
    rep, facts = ctx.rep, ctx.facts
    feats = facts.meta.get('features', [])
    n = 0
    for kid, spec in sorted(rfc.KEMS.items()):
        if spec['feature'] not in feats:
            continue
        inner, decap, kty = c03.kem_functions(facts, spec)
        for side, key in (('encap', inner), ('decap', decap)):
            if key is None:
                rep.anchor_lost('R08.1', '%s body of %s' % (side, spec['name']), 'local function', 'not found')
                continue
            r = c03.check_kem_side(rep, facts, spec, key, side, rule='R08.1')
            if r and 'auth' in r['terms']:
                n += 1
                ikm, ctxp = r['terms']['auth']
                base = r['terms'].get('base')
                # the auth branch really adds something to the base branch
                rep.check(base is not None and len(ikm) == 2 and len(ctxp) == 3 and ikm[0] == base[0][0] and ctxp[:2] == base[1], 'R08.1', key, 'auth-extends-base',
                          'auth: %s / %s' % (' || '.join(ppn(x) for x in ikm), ' || '.join(ppn(x) for x in ctxp)),
                          'AuthEncap/AuthDecap = Encap/Decap plus the static-static DH term and pkSm', None)
    nk = len([f for f in ('x25519', 'p256', 'p384', 'p521') if f in feats])
    rep.floor('R08.1', 'auth branches (2 per KEM)', n, 2 * nk)
    # R08.4: the ikm handed over at those sites reaches the extract whole (a clamp to 64 bytes inside the shared helper drops
    # the static-static DH of P-521 and nothing at the call sites changes)
    c03.check_extract_and_expand(rep, facts, rule='R08.4')
    from . import c02 as _c02
    _c02.check_labeled_extract(rep, facts, rule='R08.4')
    _c02.check_labeled_expand(rep, facts, rule='R08.4')
    n2 = modes.check_identity_accessors(rep, facts, 'R08.2')
    rep.floor('R08.2', 'identity accessors', n2, 2)
    check_setup_passes_identity(rep, facts)
    c02.check_key_schedule(rep, facts, rule='R08.3')
    n6 = modes.check_opmode_impls(rep, facts, 'R08.3', which=('get_psk_bytes', 'get_psk_id'))
    rep.bodies_analysed = len(facts.body_list)
