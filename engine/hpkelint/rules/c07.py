"""C07 — context binding (DESIGN §5 C07: R07.1, R07.2)."""
from ..prov import get_an, pp, bytes_of, strip_sites, unref
from .common import all_ans, where, impl_bodies, bodies_calling
from .deps import deps
from .hpketerms import concat_pieces
from . import c02, c03, rfc9180 as rfc

EXPLANATION = (
    'Static analysis: inter-procedural dependence (backward slice) over provenance terms of the MIR (all cargo '
    'features). R07.1: each of key, base_nonce and exporter_secret handed to the context constructor depends on the '
    'mode byte, psk, psk_id, info, the shared secret and all three suite identifiers (KEM_ID, KDF_ID, AEAD_ID; R07.5: the '
    'suite id is byte-exactly "HPKE"||kem||kdf||aead, symbolic per-byte evaluation); the '
    'shared secret of every KEM (both sides, both branches) depends on enc, the recipient key, the DH result(s) and '
    'KEM_ID; export depends on exporter_secret, the suite id, the exporter context and the output length. A missing '
    'static dependence proves that the value cannot influence the keys — a violation; presence is necessary, not '
    'sufficient, and is complemented by the exact wiring rules of C02/C03. R07.2 domain separation: labels used with '
    'one PRK / one salt are pairwise distinct, psk_id and info are hashed by separate extracts, and every element of '
    'key_schedule_context has a type-level fixed width ([u8; 1], Nh-byte digests), so moving bytes between adjacent '
    'fields cannot collide by framing. R07.3 the mode byte is a function of the mode variant alone and pairwise distinct for '
    'the four modes (mode swaps with identical PSK data, empty versus absent). R07.4 variable-length agreed inputs never '
    'enter HKDF in the salt position (HMAC key zero-padding / pre-hashing is not injective: appended zero bytes). Not decided: that different inputs give different outputs (collision / '
    'pre-image resistance of HKDF) and hence "share no key material".')
TRUSTED = ['HKDF/HMAC/SHA-2 are collision resistant PRFs', 'external calls depend on all of their arguments (conservative summary)']
ASSUME = ['dependence through the trusted primitives is real (they do not ignore inputs)']

KS_NEED = [('method', 'mode_id'), ('method', 'get_psk_id'), ('method', 'get_psk_bytes'), ('param', 3), ('param', 2),
           ('aconst', 'KEM_ID'), ('aconst', 'KDF_ID'), ('aconst', 'AEAD_ID')]
KS_NAMES = {('method', 'mode_id'): 'mode', ('method', 'get_psk_id'): 'psk_id', ('method', 'get_psk_bytes'): 'psk', ('param', 3): 'info',
            ('param', 2): 'shared_secret', ('aconst', 'KEM_ID'): 'KEM id', ('aconst', 'KDF_ID'): 'KDF id', ('aconst', 'AEAD_ID'): 'AEAD id'}


def check_key_schedule_deps(rep, facts, rule='R07.1'):
    ks = c02.KeySchedule(facts)
    if ks.a is None or len(ks.ctor) != 1:
        rep.anchor_lost(rule, 'key schedule function / constructor call', 'one of each', 'not found')
        return
    a = ks.a
    fn = a.body.key
    cbi, ct, cc = ks.ctor[0]
    p = a.term_point(cbi)
    names = ['key', 'base_nonce', 'exporter_secret']
    for i, nm in enumerate(names):
        if i >= len(ct['args']):
            rep.bad(rule, fn, 'slot:' + nm, 'constructor has %d args' % len(ct['args']), 'three key-schedule outputs', where(a, p))
            continue
        v = a.arg_val(cbi, i)
        d = deps(facts, a, v, p)
        for need in KS_NEED:
            rep.check(need in d, rule, fn, '%s<-%s' % (nm, KS_NAMES[need]), 'depends on %s: %s' % (KS_NAMES[need], need in d),
                      '%s is derived from %s (otherwise sessions differing only in %s would share it)' % (nm, KS_NAMES[need], KS_NAMES[need]), where(a, p))


def check_kem_deps(rep, facts, rule='R07.1'):
    feats = facts.meta.get('features', [])
    n = 0
    for kid, spec in sorted(rfc.KEMS.items()):
        if spec['feature'] not in feats:
            continue
        inner, decap, kty = c03.kem_functions(facts, spec)
        for side, key in (('encap', inner), ('decap', decap)):
            a = get_an(facts, key) if key else None
            if a is None:
                rep.anchor_lost(rule, '%s body of %s' % (side, spec['name']), str(key), 'not found')
                continue
            for bi, t, c in a.calls(lambda c: c.get('key') == c03.XAE):
                n += 1
                br = c03.branch_of(a, bi)
                p = a.term_point(bi)
                d = set()
                for i in range(3):
                    d |= deps(facts, a, a.arg_val(bi, i), p)
                need = [('aconst', 'KEM_ID'), ('op', 'dh'), ('param', 1), ('param', 3)]
                if br == 'auth':
                    need.append(('param', 2))
                nm = {('aconst', 'KEM_ID'): 'KEM id', ('op', 'dh'): 'the DH result', ('param', 1): 'pkR' if side == 'encap' else 'skR (-> pk(skR))',
                      ('param', 3): 'skE (-> enc)' if side == 'encap' else 'enc', ('param', 2): 'the sender identity key'}
                has_dh = any(x[0] == 'method' or x == ('op', 'dh') for x in d) or ('op', 'dh') in d
                for x in need:
                    ok = x in d
                    rep.check(ok, rule, a.body.key, '%s:%s<-%s' % (side, br, nm[x]), 'shared secret depends on %s: %s' % (nm[x], ok),
                              'the shared secret is bound to %s' % nm[x], where(a, p))
    return n


def check_export_deps(rep, facts, rule='R07.1'):
    for a in all_ans(facts):
        b = a.body
        if not (b.impl_of and b.impl_of.get('name') == 'export' and b.impl_of['self_ty'].startswith('aead::AeadCtx<')):
            continue
        ex = a.calls(lambda c: c['name'] == 'labeled_expand')
        if len(ex) != 1:
            continue
        bi = ex[0][0]
        p = a.term_point(bi)
        args = [a.arg_val(bi, i) for i in range(5)]
        prk = deps(facts, a, args[0], p)
        rep.check(('param', 1) in prk, rule, b.key, 'export<-exporter_secret', sorted(map(str, prk))[:6], 'the PRK comes from self (exporter_secret)', where(a, p))
        rep.check(args[1] != args[3] and ('param', 1) in deps(facts, a, args[1], p), rule, b.key, 'export<-suite_id', pp(args[1]), 'the suite id of the context', where(a, p))
        rep.check(('param', 2) in deps(facts, a, args[3], p), rule, b.key, 'export<-exporter_context', pp(args[3]), 'the caller\'s exporter context', where(a, p))
        rep.check(args[4] == ('param', 3), rule, b.key, 'export<-length', pp(args[4]), 'the caller\'s output buffer (its length L enters the labeled info)', where(a, p))


def check_domain_separation(rep, facts, rule='R07.2'):
    ks = c02.KeySchedule(facts)
    if ks.a is None:
        rep.anchor_lost(rule, 'key schedule function', 'one', 'not found')
        return
    a = ks.a
    fn = a.body.key
    labs = [l for l in ks.expands]
    rep.check(len(set(labs)) == len(labs) == 3 and None not in labs, rule, fn, 'expand-labels-distinct', labs, 'three pairwise distinct labels on the one PRK `secret`', where(a))
    el = [l for l in ks.extracts]
    rep.check(len(set(el)) == len(el) == 3 and None not in el, rule, fn, 'extract-labels-distinct', el, 'three pairwise distinct extract labels', where(a))
    e1, e2 = ks.extracts.get(rfc.L_PSK_ID_HASH), ks.extracts.get(rfc.L_INFO_HASH)
    rep.check(e1 is not None and e2 is not None and e1[0] != e2[0], rule, fn, 'separate-hashes', 'psk_id_hash@bb%s, info_hash@bb%s' % (e1 and e1[0], e2 and e2[0]),
              'psk_id and info are hashed by two separate labeled extracts before concatenation', where(a))
    # fixed widths of the key_schedule_context pieces
    any_exp = next(iter(ks.expands.values()), None)
    if any_exp:
        bi, args = any_exp
        p = a.term_point(bi)
        pieces, helper, N = concat_pieces(a, args[3], p)
        if pieces is None:
            rep.undecided(rule, fn, 'context-pieces', helper, 'the key_schedule_context concatenation', where(a, p))
        else:
            widths = []
            for pr, site in pieces:
                v = unref(a.deref_val(pr, site))
                if v[0] == 'agg' and v[1] == 'array':
                    widths.append('[u8; %d]' % len(v[3]))
                elif pr[0] == 'addr' and pr[1][0] == 'local':
                    widths.append(a.body.local_ty(pr[1][1]))
                else:
                    widths.append('?' + pp(pr)[:40])
            ok = len(widths) == 3 and widths[0] == '[u8; 1]' and all(w.startswith('generic_array::GenericArray<u8, <<Kdf as kdf::Kdf>::HashImpl as') for w in widths[1:])
            rep.check(ok, rule, fn, 'fixed-width-framing', widths, '[u8; 1] || GenericArray<u8, Nh> || GenericArray<u8, Nh>: every component has a type-level fixed width', where(a, p))
    # all label constants in the crate that go to labeled_extract / labeled_expand: those sharing a function are distinct
    per_fn = {}
    for a2, bi, t, c in bodies_calling(facts, path='kdf::labeled_extract') + [x for x in bodies_calling(facts, trait='kdf::LabeledExpand', name='labeled_expand')]:
        lab = bytes_of(a2.arg_val(bi, 2))
        per_fn.setdefault((a2.body.key, c['name']), []).append(lab)
    for (k, nm), labs in per_fn.items():
        rep.check(len(set(labs)) == len(labs), rule, k, 'labels-distinct:%s' % nm, labs, 'labels used by one function with one kind of KDF call are pairwise distinct', None)


def check_mode_injective(rep, facts, rule='R07.3'):
    """the mode byte is a function of the variant alone and separates all four modes (so that Base vs Psk with an
    empty bundle, or Auth vs AuthPsk, can never share a key schedule)"""
    from . import modes
    n = 0
    for b in impl_bodies(facts, 'op_mode::OpMode', 'mode_id'):
        if b.default_of:
            continue
        n += 1
        a = get_an(facts, b.key)
        path, adt = modes.adt_of_self(facts, b.impl_of['self_ty'])
        tab = modes.table_for(rep, rule, a, adt)
        if tab is None:
            continue
        vals = {}
        okshape = True
        for v, rows in tab.items():
            if len(rows) != 1 or rows[0][0][0] != 'const':
                okshape = False
            else:
                vals[v] = rows[0][0][2]
        rep.check(okshape and len(set(vals.values())) == len(modes.variants_of(adt)) == 4, rule, b.key, 'mode-byte-injective', vals,
                  'four pairwise distinct constants, one per variant, independent of the variant\'s contents', where(a))
    return n


def check_injective_slots(rep, facts, rule='R07.4'):
    """variable-length inputs enter HKDF only as message (ikm / info), never as salt: HMAC zero-pads / pre-hashes its key,
    so `x` and `x || 0x00` (or a long x and Hash(x)) would collide"""
    from ..tyutil import strip_ref
    n = 0
    for a, bi, t, c in bodies_calling(facts, path='kdf::labeled_extract'):
        n += 1
        salt = a.arg_val(bi, 0)
        p = a.term_point(bi)
        fixed = False
        why = pp(salt)[:120]
        if bytes_of(salt) is not None:
            fixed = True
            why = 'constant %r' % bytes_of(salt)
        elif salt[0] == 'addr':
            base, path = salt[1], salt[2]
            ty = None
            if base[0] == 'local':
                ty = a.body.local_ty(base[1])
            elif base[0] == 'pointee' and base[1][0] == 'param':
                ty = strip_ref(a.body.local_ty(base[1][1]))
            for e in path:
                if ty is None:
                    break
                if e[0] == 'f':
                    adt = facts.adts.get(ty.split('<', 1)[0])
                    fl = [f['ty'] for f in adt['variants'][0]['fields'] if f['name'] == e[1]] if adt else []
                    ty = fl[0] if fl else None
                else:
                    ty = None
            if ty and (ty.startswith('generic_array::GenericArray<u8,') or ty.startswith('[u8;')):
                fixed = True
                why = 'fixed-size secret of type %s' % ty[:70]
        elif salt[0] == 'param':
            ty = a.body.local_ty(salt[1])
            # the generic helper itself forwards its salt parameter: judged at its call sites
            if a.body.key in ('kdf::labeled_extract',):
                fixed = True
        rep.check(fixed, rule, a.body.key, 'salt-is-fixed-length:%s' % (bytes_of(a.arg_val(bi, 2)) or b'?').decode('latin1'), why,
                  'the HKDF salt is empty or a fixed-length secret; variable-length agreed inputs go in as ikm/info (injective framing)', where(a, p))
    return n


def check_ids_distinct(rep, facts, rule='R07.7'):
    """two suites that differ in one algorithm must differ in the suite id: the identifier constants of the implementations
    of each algorithm trait are pairwise distinct (a duplicated id makes two different AEADs/KDFs/KEMs share a key schedule)"""
    n = 0
    for trait, cname in (('aead::Aead', 'AEAD_ID'), ('kdf::Kdf', 'KDF_ID'), ('kem::Kem', 'KEM_ID')):
        seen = {}
        impls = facts.impls_of(trait)
        for im in impls:
            v = (im.get('consts') or {}).get(cname)
            n += 1
            if not isinstance(v, int):
                rep.undecided(rule, im['self_ty'], cname, v, 'a constant integer identifier', None)
                continue
            other = seen.get(v)
            rep.check(other is None, rule, im['self_ty'], '%s-unique' % cname, '%s = 0x%04x%s' % (cname, v, '' if other is None else ' (also %s)' % other),
                      'no other implementation of %s has the same %s' % (trait, cname), None)
            seen.setdefault(v, im['self_ty'])
    return n


def run(ctx):
    rep, facts = ctx.rep, ctx.facts
    nid = check_ids_distinct(rep, facts)
    feats_ = facts.meta.get('features', [])
    rep.floor('R07.7', 'algorithm identifier constants', nid, 4 + 3 + len([f for f in ('x25519', 'p256', 'p384', 'p521') if f in feats_]))
    n4 = check_injective_slots(rep, facts)
    rep.floor('R07.4', 'labeled_extract call sites', n4, 3)
    n3 = check_mode_injective(rep, facts)
    rep.floor('R07.3', 'mode_id impls', n3, 2)
    check_key_schedule_deps(rep, facts)
    n = check_kem_deps(rep, facts)
    feats = facts.meta.get('features', [])
    nk = len([f for f in ('x25519', 'p256', 'p384', 'p521') if f in feats])
    rep.floor('R07.1', 'ExtractAndExpand sites (4 per KEM)', n, 4 * nk)
    check_export_deps(rep, facts)
    check_domain_separation(rep, facts)
    # R07.5: a dependence says an identifier *may* reach the suite id; binding needs every byte of it to get there:
    # suite_id = "HPKE" || I2OSP(kem, 2) || I2OSP(kdf, 2) || I2OSP(aead, 2) exactly (a loop that stops one short keeps the dependence)
    c02.check_suite_ids(rep, facts, rule='R07.5')
    # R07.6: likewise every piece handed to LabeledExtract / LabeledExpand is absorbed (all four / five components, in order):
    # a loop that stops early keeps the static dependence but drops the binding
    c02.check_labeled_extract(rep, facts, rule='R07.6')
    c02.check_labeled_expand(rep, facts, rule='R07.6')
    rep.bodies_analysed = len(facts.body_list)
