"""C06 — integrity: pass-through to the AEAD (DESIGN §5 C06: R06.1 … R06.5)."""
from ..prov import get_an, pp
from .common import all_ans, where, addr_fields
from .aeadctx import aead_sites, SiteInfo, check_nonce_helper
from . import c04, c14

EXPLANATION = (
    'Static analysis of MIR (all cargo features): parameter-to-sink dataflow. R06.1 at every AEAD decrypt call the aad '
    'argument is the function\'s aad parameter unmodified, the tag argument is the whole tag parameter and the buffer is '
    'the whole ciphertext parameter (no sub-slice); R06.2 the allocating open splits once at len-Nt, hands the whole '
    'head to the in-place open and copies the whole tail into the tag, and uses the input in no other way; R06.3 the '
    'encrypt call gets the aad parameter unmodified and the allocating seal places the returned tag directly after the '
    'ciphertext; R06.4 the single-shot opening functions pass ciphertext, aad and tag through unmodified; R06.5 the '
    'AEAD verdict is never dropped (Ok is control-dependent on the AEAD returning Ok); R06.6 (cross-message substitution) '
    'the nonce handed to the AEAD on both sides is helper(&base_nonce,&seq) and the helper is base XOR an injective '
    'big-endian encoding of the counter (bit-provenance), so no two positions of one context share a nonce; R06.7 the tag '
    'type deserialises from exactly Nt bytes (length guard first, whole copy), so a lengthened or shortened detached tag is '
    'refused before the AEAD. Not decided: that the AEAD '
    'rejects modified input (AEAD security; trusted base).')
TRUSTED = ['rustc MIR construction', 'aead::AeadInPlace implementations verify the tag over (nonce, aad, ciphertext)',
           'slice::split_at / to_vec / copy_from_slice semantics']
ASSUME = ['AES-GCM / ChaCha20-Poly1305 are secure AEADs (a modified input fails verification)']


def check_site_args(rep, facts, si, decrypt):
    a, fn = si.a, si.key
    p = si.point
    aad = si.args[2]
    okaad = aad[0] == 'param' and a.body.local_ty(aad[1]) == '&[u8]'
    rep.check(okaad, 'R06.1' if decrypt else 'R06.3', fn, 'aad-arg', pp(aad), 'the function\'s &[u8] aad parameter, unmodified', where(a, p))
    buf = si.args[3]
    okbuf = buf[0] == 'param' and a.body.local_ty(buf[1]) == '&mut [u8]'
    rep.check(okbuf, 'R06.1' if decrypt else 'R06.3', fn, 'buffer-arg', pp(buf), 'the whole &mut [u8] buffer parameter (no sub-slice)', where(a, p))
    if okaad and okbuf:
        rep.check(aad[1] != buf[1], 'R06.1', fn, 'distinct-params', '%s / %s' % (pp(aad), pp(buf)), 'aad and buffer are different parameters', where(a, p))
    if decrypt:
        tag = si.args[4] if len(si.args) > 4 else ('unknown', 'no tag arg')
        base, fs = addr_fields(tag)
        oktag = base[0] == 'param' and fs == ['0'] and a.body.local_ty(base[1]).startswith('&aead::AeadTag<') and \
            tag[0] == 'addr' and all(e[0] == 'f' for e in tag[2])
        rep.check(oktag, 'R06.1', fn, 'tag-arg', pp(tag), '&tag.0 — the whole tag parameter', where(a, p))


def run(ctx):
    rep, facts = ctx.rep, ctx.facts
    feats = facts.meta.get('features', [])
    alloc = 'alloc' in feats or 'std' in feats
    dsites = [SiteInfo(facts, a, bi, t, 'decrypt_in_place_detached') for a, bi, t, c in aead_sites(facts, 'decrypt_in_place_detached')]
    esites = [SiteInfo(facts, a, bi, t, 'encrypt_in_place_detached') for a, bi, t, c in aead_sites(facts, 'encrypt_in_place_detached')]
    rep.floor('R06.1', 'decrypt sites', len(dsites), 1)
    rep.floor('R06.3', 'encrypt sites', len(esites), 1)
    for si in dsites:
        check_site_args(rep, facts, si, True)
        # R06.5: verdict not dropped
        if si.verdict is None and len(si.verdict_cands) > 1:
            # the result is looked at by several branches: Ok is returned only on paths whose verdict is Ok (decided per path)
            c04.effects_by_paths(rep, facts, si, 'R06.5', 'open', as_rule='R06.5')
        elif si.verdict is None:
            rep.bad('R06.5', si.key, 'verdict-switch', '%d candidate branch(es) on the AEAD result' % len(si.verdict_cands),
                    'exactly one branch inspects the AEAD result', where(si.a, si.point))
        else:
            vbi, vt, ok_edge, form, _ = si.verdict
            for s, t, cls in si.classes:
                if cls == 'ok':
                    d = si.a.cfg.edge_dominates(vbi, ok_edge, s[0])
                    rep.check(d, 'R06.5', si.key, 'ok-needs-verdict', 'Ok return dominated by the AEAD-Ok edge (%s form): %s' % (form, d),
                              'plaintext is released only if the AEAD verified the tag', where(si.a, s))
    for si in esites:
        check_site_args(rep, facts, si, False)
    # R06.6: a tag/aad taken from *another* message must not verify: necessary is that two positions of one context
    # never share a nonce, i.e. the nonce handed to the AEAD is an injective function of the counter on both sides
    for si in dsites + esites:
        nv, hv, helper, hargs, bidx, sidx = c04.nonce_helper_call(si)
        if helper is not None and len(hargs) == 2 and len(bidx) == 1 and len(sidx) == 1:
            check_nonce_helper(rep, facts, helper, bidx[0] + 1, sidx[0] + 1, 'R06.6')
        else:
            rep.bad('R06.6', si.key, 'nonce-arg', pp(nv)[:200], 'nonce = helper(&self.base_nonce, &self.seq)', where(si.a, si.point))
    # R06.2 / R06.3 allocating forms, R06.4 single-shot
    # integrity does not care whether valid inputs are *accepted* (that is C01/C05/C14): strict_accept off
    n = c14.run_alloc_forms(rep, facts, alloc, strict_accept=False)
    ss = [(a, s) for a, s in c14.single_shot_bodies(facts) if 'open' in a.body.key.rsplit('::', 1)[-1]]
    rep.floor('R06.4', 'single-shot opening functions', len(ss), 2 if alloc else 1)
    for a, setups in ss:
        c14.check_single_shot(rep, facts, a, setups, rule='R06.4', integrity_only=True)
    # R06.7: with the detached interfaces the tag reaches the AEAD as an AeadTag the caller deserialised: appended or removed
    # bytes must already be refused there — AeadTag::from_bytes accepts exactly Nt bytes and wraps exactly those
    from . import c12
    from .common import impl_bodies
    tfb = [b for b in impl_bodies(facts, 'Deserializable', 'from_bytes') if not b.default_of and (b.impl_of or {}).get('self_ty', '').startswith('aead::AeadTag<')]
    if rep.floor('R06.7', 'AeadTag::from_bytes', len(tfb), 1):
        for b in tfb:
            c12.check_from_bytes(rep, facts, b, rule='R06.7')
        c12.check_value_flow(rep, facts, tfb, [], rule='R06.7')
    rep.bodies_analysed = len(facts.body_list)
    rep.call_sites = sum(len(get_an(facts, b.key).calls()) for b in facts.body_list)
