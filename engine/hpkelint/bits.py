"""Bit-provenance domain for pure integer code.

bits(term) -> list (LSB first) whose elements are ('in', name, k) (bit k of input `name`),
0, 1 or None (unknown).  Exact transfer functions for and/or/xor with constants, shifts by
constants, truncating and zero-extending casts.  Anything else gives None bits, which makes
the obligation undecided (never a guess)."""

WIDTH = {'u8': 8, 'u16': 16, 'u32': 32, 'u64': 64, 'u128': 128, 'usize': 64,
         'i8': 8, 'i16': 16, 'i32': 32, 'i64': 64, 'i128': 128, 'isize': 64}


def const_int(t):
    if t[0] == 'const' and isinstance(t[2], int) and not isinstance(t[2], bool):
        return t[2]
    if t[0] == 'cast' and t[1] == 'IntToInt':
        return const_int(t[3])
    return None


def bits(t, inputs):
    """inputs: {term: (name, width)} leaves that count as inputs"""
    if t in inputs:
        name, w = inputs[t]
        return [('in', name, k) for k in range(w)]
    k = t[0]
    if k == 'const' and isinstance(t[2], int) and not isinstance(t[2], bool):
        w = WIDTH.get(t[1], 64)
        v = t[2] & ((1 << w) - 1)
        return [(v >> i) & 1 for i in range(w)]
    if k == 'cast' and t[1] == 'IntToInt':
        src = bits(t[3], inputs)
        if src is None:
            return None
        w = WIDTH.get(t[2])
        if w is None:
            return None
        if len(src) >= w:
            return src[:w]
        # widening: only unsigned sources are handled (zero extension)
        return src + [0] * (w - len(src))
    if k == 'elem' and t[2][0] == 'call' and len(t[2][2]) == 1:
        # byte j of x.to_be_bytes() / x.to_le_bytes()
        nm = t[2][1].rsplit('::', 1)[-1]
        j = const_int(t[1]) if isinstance(t[1], tuple) else (t[1] if isinstance(t[1], int) and not isinstance(t[1], bool) else None)
        src = bits(t[2][2][0], inputs)
        if nm in ('to_be_bytes', 'to_le_bytes') and '::num::' in t[2][1] and src is not None and j is not None and len(src) % 8 == 0 \
                and 0 <= j < len(src) // 8:
            lo = 8 * (len(src) // 8 - 1 - j) if nm == 'to_be_bytes' else 8 * j
            return src[lo:lo + 8]
        return None
    if k == 'bin':
        op = t[1]
        a = bits(t[2], inputs)
        if a is None:
            return None
        if op in ('Shr', 'Shl', 'ShrUnchecked', 'ShlUnchecked'):
            n = const_int(t[3])
            if n is None or n < 0 or n >= len(a):
                return None
            if op.startswith('Shr'):
                return a[n:] + [0] * n
            return ([0] * n + a)[:len(a)]
        b = bits(t[3], inputs)
        if b is None or len(a) != len(b):
            return None
        out = []
        for x, y in zip(a, b):
            if op == 'BitAnd':
                if x == 0 or y == 0:
                    out.append(0)
                elif x == 1:
                    out.append(y)
                elif y == 1:
                    out.append(x)
                elif x == y:
                    out.append(x)
                else:
                    out.append(None)
            elif op == 'BitOr':
                if x == 1 or y == 1:
                    out.append(1)
                elif x == 0:
                    out.append(y)
                elif y == 0:
                    out.append(x)
                elif x == y:
                    out.append(x)
                else:
                    out.append(None)
            elif op == 'BitXor':
                if x == 0:
                    out.append(y)
                elif y == 0:
                    out.append(x)
                else:
                    out.append(None)
            else:
                return None
        return out
    return None


def be_byte_ok(bs, name, nbytes, i):
    """bs (8 bits, LSB first) equals byte i of the big-endian encoding of an nbytes-wide input"""
    if bs is None or len(bs) != 8:
        return False
    lo = 8 * (nbytes - 1 - i)
    return all(bs[k] == ('in', name, lo + k) for k in range(8))
