"""Normal-path CFG of a MIR body: successors, dominators, post-dominators, reachability,
control dependence, back edges.  Cleanup blocks and unwind edges are excluded: the
properties are about values returned and state left behind on non-panicking paths; the
panic sites themselves are enumerated separately (C13)."""


def term_succs(term):
    """[(label, target)] of a terminator on the normal path"""
    k = term['k']
    if k == 'goto':
        return [('goto', term['target'])]
    if k == 'switch':
        out = [(('val', v), t) for v, t in term['targets']]
        out.append((('otherwise', tuple(v for v, _ in term['targets'])), term['otherwise']))
        return out
    if k == 'call':
        return [('ret', term['target'])] if term['target'] is not None else []
    if k == 'drop':
        return [('drop', term['target'])]
    if k == 'assert':
        return [('ok', term['target'])]
    return []


class CFG:
    def __init__(self, body):
        self.body = body
        n = len(body.blocks)
        self.n = n
        self.succ = [[] for _ in range(n)]
        self.edges = [[] for _ in range(n)]   # (label, target)
        self.pred = [[] for _ in range(n)]
        for i, blk in enumerate(body.blocks):
            if blk['cleanup']:
                continue
            for lab, t in term_succs(blk['term']):
                if body.blocks[t]['cleanup']:
                    continue
                self.edges[i].append((lab, t))
                if t not in self.succ[i]:
                    self.succ[i].append(t)
                    self.pred[t].append(i)
        self.reach = self._reach_from(0)
        self.returns = [i for i in self.reach if body.blocks[i]['term']['k'] == 'return']
        self.diverging = [i for i in self.reach
                          if not self.succ[i] and body.blocks[i]['term']['k'] != 'return']
        self.idom = self._dominators()
        self._fwd = {}
        self._bwd = {}

    def _reach_from(self, s):
        seen = {s}
        st = [s]
        while st:
            x = st.pop()
            for y in self.succ[x]:
                if y not in seen:
                    seen.add(y)
                    st.append(y)
        return seen

    def fwd(self, s):
        """blocks reachable from s (including s)"""
        if s not in self._fwd:
            self._fwd[s] = self._reach_from(s)
        return self._fwd[s]

    def bwd(self, t):
        """blocks from which t is reachable (including t)"""
        if t not in self._bwd:
            seen = {t}
            st = [t]
            while st:
                x = st.pop()
                for y in self.pred[x]:
                    if y not in seen:
                        seen.add(y)
                        st.append(y)
            self._bwd[t] = seen
        return self._bwd[t]

    def _dominators(self):
        # iterative algorithm on reverse post-order
        order = []
        seen = set()

        def dfs(x):
            stack = [(x, iter(self.succ[x]))]
            seen.add(x)
            while stack:
                node, it = stack[-1]
                adv = False
                for y in it:
                    if y not in seen:
                        seen.add(y)
                        stack.append((y, iter(self.succ[y])))
                        adv = True
                        break
                if not adv:
                    order.append(node)
                    stack.pop()
        dfs(0)
        rpo = list(reversed(order))
        self.rpo = rpo
        idx = {b: i for i, b in enumerate(rpo)}
        idom = {0: 0}
        changed = True
        while changed:
            changed = False
            for b in rpo[1:]:
                new = None
                for p in self.pred[b]:
                    if p in idom:
                        if new is None:
                            new = p
                        else:
                            a, c = p, new
                            while a != c:
                                while idx[a] > idx[c]:
                                    a = idom[a]
                                while idx[c] > idx[a]:
                                    c = idom[c]
                            new = a
                if new is not None and idom.get(b) != new:
                    idom[b] = new
                    changed = True
        return idom

    def dominates(self, a, b):
        """block a dominates block b (reflexive)"""
        if b not in self.idom:
            return False
        x = b
        while True:
            if x == a:
                return True
            if x == 0:
                return False
            x = self.idom[x]

    def dom_chain(self, b):
        out = [b]
        while b != 0:
            b = self.idom[b]
            out.append(b)
        return list(reversed(out))

    def point_dominates(self, p, q):
        """point (bb, idx) dominates point q"""
        (a, i), (b, j) = p, q
        if a == b:
            return i <= j
        return self.dominates(a, b)

    def edge_dominates(self, src, tgt, b):
        """every path from entry to block b passes through the CFG edge src->tgt.
        Decided by removing the edge and testing reachability of b."""
        if b not in self.reach:
            return True
        seen = {0}
        st = [0]
        while st:
            x = st.pop()
            if x == b:
                return False
            for y in self.succ[x]:
                if x == src and y == tgt:
                    # other edges src->tgt with the same target count as the same edge
                    continue
                if y not in seen:
                    seen.add(y)
                    st.append(y)
        return b not in seen

    def back_edges(self):
        out = []
        for a in self.reach:
            for b in self.succ[a]:
                if self.dominates(b, a):
                    out.append((a, b))
        return out

    def blocks_through(self, b):
        """blocks lying on some entry->...->b->...->exit path (over-approximation)"""
        return (self.reach & self.bwd(b)) | self.fwd(b)

    def reaches_avoiding(self, src, dst, avoid_blocks=(), avoid_edges=()):
        """is there a path src ->* dst that uses none of avoid_blocks / avoid_edges?"""
        avoid_blocks = set(avoid_blocks)
        avoid_edges = set(avoid_edges)
        if src in avoid_blocks:
            return False
        seen = {src}
        st = [src]
        while st:
            x = st.pop()
            if x == dst:
                return True
            for y in self.succ[x]:
                if y in avoid_blocks or (x, y) in avoid_edges:
                    continue
                if y not in seen:
                    seen.add(y)
                    st.append(y)
        return False
