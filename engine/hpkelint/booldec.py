"""Decision tables: exhaustive enumeration of the (acyclic) paths of a small function together
with the branch constraints taken and the value returned on each path.  Exact for functions whose
control flow depends only on a finite set of atoms (boolean calls such as is_empty, enum
discriminants): the same atom (same provenance term) must keep one value along a path."""
from .prov import strip_sites, pp, PathAn, unref


class Undecidable(Exception):
    pass


_KNOWN_VARIANTS = {'core::option::Option::None': 0, 'core::option::Option::Some': 1, 'core::result::Result::Ok': 0, 'core::result::Result::Err': 1}


def _known_discr(d):
    # `discriminant(x) == k` of a value built earlier on this path (is_some / is_none / is_ok / is_err, expanded)
    if d[0] == 'bin' and d[1] in ('Eq', 'Ne') and len(d) == 4:
        for x, y in ((d[2], d[3]), (d[3], d[2])):
            if y[0] == 'const' and isinstance(y[2], int) and not isinstance(y[2], bool) and x[0] == 'discr':
                k = _known_discr(x)
                if k is not None:
                    return int((k == y[2]) == (d[1] == 'Eq'))
        return None
    if d[0] == 'discr':
        x = d[1]
        if x[0] == 'try':
            x = x[1]
        if x[0] == 'agg' and x[2] in _KNOWN_VARIANTS:
            return _KNOWN_VARIANTS[x[2]]
        if x[0] == 'from_residual':
            return 1
    return None


def paths_with_constraints(a, limit=4096, with_path=False):
    """-> [(constraints, ret_term, ret_site)] (+ the block path with with_path); constraints: {atom_term: frozenset(allowed ints) | ('not', frozenset)}"""
    cfg = a.cfg
    if cfg.back_edges():
        raise Undecidable('loop in ' + a.body.key)
    out = []
    stack = [((0,), {}, None)]
    while stack:
        path, cons, last0 = stack.pop()
        bi = path[-1]
        blk = a.body.blocks[bi]
        # track the last full definition of _0 along this path
        for si, st in enumerate(blk['stmts']):
            if st['k'] == 'assign' and st['place']['l'] == 0 and not st['place']['p']:
                last0 = (bi, si)
        t = blk['term']
        if t['k'] == 'call' and t['dest']['l'] == 0 and not t['dest']['p']:
            last0 = a.term_point(bi)
        if t['k'] == 'return':
            pa = PathAn(a, path)
            rt = pa.ret_val()
            out.append((cons, rt, last0, path) if with_path else (cons, rt, last0))
            if len(out) > limit:
                raise Undecidable('too many paths')
            continue
        if t['k'] == 'switch':
            d = strip_sites(PathAn(a, path).val_op(t['discr'], a.term_point(bi)))
            vals = [v for v, _ in t['targets']]
            # a branch on a value built earlier on this very path (the Option/Result returned by an inlined helper) is decided
            kd = _known_discr(d)
            if kd is not None:
                nxt = None
                for v, tgt in t['targets']:
                    if v == kd:
                        nxt = tgt
                if nxt is None:
                    nxt = t['otherwise']
                stack.append((path + (nxt,), cons, last0))
                continue
            for v, tgt in t['targets']:
                c2 = restrict(cons, d, frozenset([v]))
                if c2 is not None and not a.body.blocks[tgt]['cleanup']:
                    stack.append((path + (tgt,), c2, last0))
            c2 = restrict(cons, d, ('not', frozenset(vals)))
            if c2 is not None:
                ot = t['otherwise']
                if a.body.blocks[ot]['term']['k'] != 'unreachable' or a.body.blocks[ot]['stmts']:
                    stack.append((path + (ot,), c2, last0))
            continue
        for y in cfg.succ[bi]:
            stack.append((path + (y,), cons, last0))
    return out


def restrict(cons, atom, allowed):
    cur = cons.get(atom)
    new = meet(cur, allowed)
    if new is None:
        return None
    c2 = dict(cons)
    c2[atom] = new
    return c2


def meet(a, b):
    """intersection of value constraints; None if empty"""
    if a is None:
        return b
    if isinstance(a, frozenset) and isinstance(b, frozenset):
        r = a & b
        return r if r else None
    if isinstance(a, frozenset):
        r = a - b[1]
        return r if r else None
    if isinstance(b, frozenset):
        r = b - a[1]
        return r if r else None
    return ('not', a[1] | b[1])


def allows(c, v):
    if c is None:
        return True
    if isinstance(c, frozenset):
        return v in c
    return v not in c[1]


_INT_W = {'u8': 8, 'i8': 8, 'u16': 16, 'i16': 16, 'u32': 32, 'i32': 32, 'u64': 64, 'i64': 64, 'usize': 64, 'isize': 64,
          'u128': 128, 'i128': 128}
# total functions bool/Choice -> u8 with value in {0, 1}
_BOOL_TO_U8 = ('subtle::Choice::unwrap_u8',)
_CONV = ('core::convert::Into::into', 'core::convert::From::from')


def _is_int_const(x):
    return x[0] == 'const' and isinstance(x[2], int) and not isinstance(x[2], bool) and x[1] in _INT_W


def _collect_atoms(x, atoms_ok, out):
    """atoms of a boolean / small-integer expression; raises if a leaf is not an accepted atom"""
    if x[0] == 'un' and x[1] == 'Not':
        return _collect_atoms(x[2], atoms_ok, out)
    if x[0] == 'const' and isinstance(x[2], bool):
        return
    if _is_int_const(x):
        return
    if atoms_ok(x):
        if x not in out:
            out.append(x)
        return
    if x[0] == 'bin' and x[1] in ('Eq', 'Ne', 'BitAnd', 'BitOr', 'BitXor', 'Lt', 'Le', 'Gt', 'Ge'):
        _collect_atoms(x[2], atoms_ok, out)
        _collect_atoms(x[3], atoms_ok, out)
        return
    if x[0] == 'call' and x[1] in _BOOL_TO_U8 and len(x[2]) == 1:
        return _collect_atoms(unref(x[2][0]), atoms_ok, out)
    if x[0] == 'cast' and x[1] == 'IntToInt' and x[2] in _INT_W:
        return _collect_atoms(x[3], atoms_ok, out)
    raise Undecidable('branch on a non-atom: ' + pp(x)[:120])


def _veval(x, val, atoms_ok):
    """bit-precise value of a term over boolean atoms: a Python bool, or (int value, width) for integers —
    `!` on a u8 is the bitwise complement (0xFE / 0xFF), not logical negation"""
    if x[0] == 'const' and isinstance(x[2], bool):
        return x[2]
    if _is_int_const(x):
        w = _INT_W[x[1]]
        return (x[2] & ((1 << w) - 1), w)
    if atoms_ok(x):
        return val[x]
    if x[0] == 'un' and x[1] == 'Not':
        v = _veval(x[2], val, atoms_ok)
        if isinstance(v, bool):
            return not v
        return ((~v[0]) & ((1 << v[1]) - 1), v[1])
    if x[0] == 'call' and x[1] in _BOOL_TO_U8:
        v = _veval(unref(x[2][0]), val, atoms_ok)
        if not isinstance(v, bool):
            raise Undecidable('unwrap_u8 of a non-boolean: ' + pp(x)[:100])
        return (1 if v else 0, 8)
    if x[0] == 'cast':
        v = _veval(x[3], val, atoms_ok)
        w = _INT_W[x[2]]
        if isinstance(v, bool):
            return (1 if v else 0, w)
        return (v[0] & ((1 << w) - 1), w)     # unsigned/truncating; sign extension is not modelled
    l, r = _veval(x[2], val, atoms_ok), _veval(x[3], val, atoms_ok)
    if isinstance(l, bool) != isinstance(r, bool):
        raise Undecidable('mixed boolean/integer operands: ' + pp(x)[:100])
    op = x[1]
    if isinstance(l, bool):
        if op not in ('Eq', 'Ne', 'BitAnd', 'BitOr', 'BitXor'):
            raise Undecidable('ordering comparison of booleans: ' + pp(x)[:100])
        return {'Eq': l == r, 'Ne': l != r, 'BitAnd': l and r, 'BitOr': l or r, 'BitXor': l != r}[op]
    (lv, lw), (rv, rw) = l, r
    if lw != rw:
        raise Undecidable('operand widths differ: ' + pp(x)[:100])
    if op in _CMPI:
        return _CMPI[op](lv, rv)
    return ({'BitAnd': lv & rv, 'BitOr': lv | rv, 'BitXor': lv ^ rv}[op], lw)


_CMPI = {'Eq': lambda x, y: x == y, 'Ne': lambda x, y: x != y, 'Lt': lambda x, y: x < y, 'Le': lambda x, y: x <= y,
         'Gt': lambda x, y: x > y, 'Ge': lambda x, y: x >= y}


def _beval(x, val, atoms_ok):
    v = _veval(x, val, atoms_ok)
    return v if isinstance(v, bool) else v[0]


def _resolve(an, t):
    """by-reference arguments of the modelled total conversions (Choice::unwrap_u8(&c)) are replaced by the value the
    referenced local holds at the call"""
    if not isinstance(t, tuple) or not t:
        return t
    if t[0] == 'call' and t[1] in _BOOL_TO_U8 and len(t[2]) == 1 and len(t) > 3 and t[2][0][0] == 'addr' and t[2][0][1][0] == 'local':
        v = an.deref_val(t[2][0], an.term_point(t[3]))
        return ('call', t[1], (_resolve(an, v),)) + tuple(t[3:])
    if t[0] in ('un', 'bin', 'cast'):
        return tuple(_resolve(an, x) if isinstance(x, tuple) else x for x in t)
    return t


def bool_table(a, atoms_ok):
    """exhaustive simulation over all valuations of the boolean atoms the function branches on.
    -> (atoms, rows) with rows = [(assignment {atom: bool} (total), ret_term, ret_site)]"""
    if a.cfg.back_edges():
        raise Undecidable('loop in ' + a.body.key)
    atoms = []
    for bi in sorted(a.cfg.reach):
        t = a.body.blocks[bi]['term']
        if t['k'] == 'switch':
            d = strip_sites(_resolve(a, a.val_op(t['discr'], a.term_point(bi))))
            if d[0] == 'phi':
                continue      # resolved path-sensitively during simulation
            _collect_atoms(d, atoms_ok, atoms)
    if len(atoms) > 10:
        raise Undecidable('too many atoms')
    rows = []
    n = len(atoms)
    for m in range(1 << n):
        val = {atoms[i]: bool((m >> i) & 1) for i in range(n)}
        path = [0]
        steps = 0
        while True:
            steps += 1
            if steps > 10000:
                raise Undecidable('simulation does not terminate')
            bi = path[-1]
            t = a.body.blocks[bi]['term']
            if t['k'] == 'return':
                pa = PathAn(a, path)
                last0 = None
                for s in a.defs.get(0, []):
                    if s[0] in pa.pos and (last0 is None or pa._before(last0, s)):
                        last0 = s
                rows.append((val, pa.ret_val(), last0))
                break
            if t['k'] == 'switch':
                pa = PathAn(a, path)
                d = strip_sites(_resolve(pa, pa.val_op(t['discr'], a.term_point(bi))))
                tmp = []
                _collect_atoms(d, atoms_ok, tmp)
                for x in tmp:
                    if x not in val:
                        raise Undecidable('atom discovered late: ' + pp(x)[:80])
                b = int(_beval(d, val, atoms_ok))
                nxt = None
                for v, tgt in t['targets']:
                    if v == b:
                        nxt = tgt
                if nxt is None:
                    nxt = t['otherwise']
                path.append(nxt)
                continue
            succ = a.cfg.succ[bi]
            if len(succ) != 1:
                raise Undecidable('no unique successor in bb%d (diverging path?)' % bi)
            path.append(succ[0])
    return atoms, rows


def variant_table(a, adt_variants, scrutinee_ok):
    """for functions that `match` on one enum value: {variant name: [ret terms]}"""
    table = {v: [] for v in adt_variants}
    for cons, rt, site in paths_with_constraints(a):
        allowed = set(range(len(adt_variants)))
        for atom, c in cons.items():
            if not (atom[0] == 'discr' and scrutinee_ok(atom[1])):
                raise Undecidable('branch on something other than the scrutinee discriminant: ' + pp(atom)[:120])
            allowed = {v for v in allowed if allows(c, v)}
        for v in allowed:
            table[adt_variants[v]].append((rt, site))
    return table


# ---------------------------------------------------------------------- length grids
_CMP = {'Eq': lambda x, y: x == y, 'Ne': lambda x, y: x != y, 'Lt': lambda x, y: x < y, 'Le': lambda x, y: x <= y,
        'Gt': lambda x, y: x > y, 'Ge': lambda x, y: x >= y}


def _len_eval(x, env):
    """evaluate a term built from lengths of slice parameters, integer constants, comparisons and boolean connectives"""
    k = x[0]
    if k == 'const' and isinstance(x[2], bool):
        return x[2]
    if k == 'const' and isinstance(x[2], int):
        return x[2]
    if k == 'len' and x[1][0] == 'param':
        return env[x[1][1]]
    if k == 'call' and x[1].endswith('::is_empty') and len(x[2]) == 1 and x[2][0][0] == 'param':
        return env[x[2][0][1]] == 0
    if k == 'call' and x[1].endswith('::len') and len(x[2]) == 1 and x[2][0][0] == 'param':
        return env[x[2][0][1]]
    if k == 'un' and x[1] == 'Not':
        v = _len_eval(x[2], env)
        if not isinstance(v, bool):
            raise Undecidable('integer complement of a length: ' + pp(x)[:100])
        return not v
    if k == 'cast' and x[1] == 'IntToInt' and x[2] in _INT_W and not x[2].startswith('i'):
        v = _len_eval(x[3], env)
        if isinstance(v, bool):
            raise Undecidable('cast of a boolean: ' + pp(x)[:100])
        return v & ((1 << _INT_W[x[2]]) - 1)          # `len as u16` keeps len mod 2^16
    if k == 'bin' and x[1] in _CMP:
        return _CMP[x[1]](_len_eval(x[2], env), _len_eval(x[3], env))
    if k == 'bin' and x[1] in ('BitAnd', 'BitOr', 'BitXor'):
        l, r = _len_eval(x[2], env), _len_eval(x[3], env)
        if isinstance(l, bool) and isinstance(r, bool):
            return {'BitAnd': l and r, 'BitOr': l or r, 'BitXor': l != r}[x[1]]
    raise Undecidable('not a length comparison: ' + pp(x)[:100])


def _cast_widths(x, out):
    if not isinstance(x, tuple) or not x:
        return
    if x[0] == 'cast' and x[1] == 'IntToInt' and x[2] in _INT_W and _INT_W[x[2]] < 64:
        out.add(_INT_W[x[2]])
    for y in x[1:]:
        if isinstance(y, tuple):
            _cast_widths(y, out)


def _thresholds(x, out):
    if not isinstance(x, tuple) or not x:
        return
    if x[0] == 'const' and isinstance(x[2], int) and not isinstance(x[2], bool):
        out.add(x[2])
    for y in x[1:]:
        if isinstance(y, tuple):
            _thresholds(y, out)


def len_thresholds(a):
    """integer constants the function's branch conditions compare against"""
    ks = set()
    for bi in sorted(a.cfg.reach):
        t = a.body.blocks[bi]['term']
        if t['k'] == 'switch':
            _thresholds(strip_sites(a.val_op(t['discr'], a.term_point(bi))), ks)
    return ks


def len_grid_table(a, params, reps=None):
    """for a function that branches only on comparisons of the lengths of its slice parameters with constants:
    exhaustive simulation over one representative length per equivalence class (or over the given lengths `reps`).
    -> (reps, rows) with rows = [({param: len}, ret_term, site)]"""
    if a.cfg.back_edges():
        raise Undecidable('loop in ' + a.body.key)
    ks = set()
    ws = set()
    for bi in sorted(a.cfg.reach):
        t = a.body.blocks[bi]['term']
        if t['k'] == 'switch':
            d = strip_sites(a.val_op(t['discr'], a.term_point(bi)))
            _thresholds(d, ks)
            _cast_widths(d, ws)
    top = (max(ks) if ks else 0) + 1
    if reps is not None:
        top, ws = 0, set()
    if top > 64:
        raise Undecidable('length thresholds too large')
    reps = list(range(0, top + 1)) if reps is None else list(reps)
    # a narrowing cast makes the verdict depend on (len, len mod 2^w): one representative per pair of classes —
    # every small class again shifted by 2^w (same residue, but a large length), and the largest residue
    for w in sorted(ws):
        if (1 << w) <= top + 1:
            raise Undecidable('narrowing cast below the comparison thresholds')
        reps += [(1 << w) - 1] + [(1 << w) + r for r in range(0, top + 1)]
    if len(ws) > 1:
        raise Undecidable('several narrowing widths')
    rows = []
    import itertools
    for combo in itertools.product(reps, repeat=len(params)):
        env = dict(zip(params, combo))
        path = [0]
        for _ in range(10000):
            bi = path[-1]
            t = a.body.blocks[bi]['term']
            if t['k'] == 'return':
                pa = PathAn(a, path)
                last0 = None
                for s in a.defs.get(0, []):
                    if s[0] in pa.pos and (last0 is None or pa._before(last0, s)):
                        last0 = s
                rows.append((env, pa.ret_val(), last0))
                break
            if t['k'] == 'switch':
                d = strip_sites(PathAn(a, path).val_op(t['discr'], a.term_point(bi)))
                v = _len_eval(d, env)
                v = int(v) if isinstance(v, bool) else v
                nxt = None
                for val, tgt in t['targets']:
                    if val == v:
                        nxt = tgt
                path.append(nxt if nxt is not None else t['otherwise'])
                continue
            succ = a.cfg.succ[bi]
            if len(succ) != 1:
                raise Undecidable('no unique successor in bb%d' % bi)
            path.append(succ[0])
        else:
            raise Undecidable('simulation does not terminate')
    return reps, rows
