"""Type-string helpers (types arrive as fully qualified strings from the driver)."""
import re

_TN = 'generic_array::typenum::'


def split_args(s):
    """top-level comma split of the inside of <...>"""
    out, depth, cur = [], 0, ''
    for ch in s:
        if ch in '<([':
            depth += 1
        elif ch in '>)]':
            depth -= 1
        if ch == ',' and depth == 0:
            out.append(cur.strip())
            cur = ''
        else:
            cur += ch
    if cur.strip():
        out.append(cur.strip())
    return out


def typenum_usize(s):
    """'generic_array::typenum::UInt<UInt<UTerm, B1>, B0>' -> 2 ; None if not a typenum unsigned"""
    s = s.strip()
    for pre in (_TN, 'typenum::', 'generic_array::typenum::uint::', 'generic_array::typenum::bit::'):
        if s.startswith(pre):
            s2 = s[len(pre):]
            break
    else:
        s2 = s
    if s2 in ('UTerm', 'B0'):
        return 0
    if s2 == 'B1':
        return 1
    m = re.match(r'^U(\d+)$', s2)
    if m:
        return int(m.group(1))
    if s2.startswith('UInt<') and s2.endswith('>'):
        parts = split_args(s2[5:-1])
        if len(parts) != 2:
            return None
        hi, lo = typenum_usize(parts[0]), typenum_usize(parts[1])
        if hi is None or lo is None:
            return None
        return 2 * hi + lo
    return None


def short_ty(s):
    """replace every typenum unsigned inside a type string by U<n> (for reports)"""
    out = ''
    i = 0
    key = _TN + 'UInt<'
    while i < len(s):
        if s.startswith(key, i):
            # find matching '>'
            d = 0
            j = i + len(key) - 1
            while j < len(s):
                if s[j] == '<':
                    d += 1
                elif s[j] == '>':
                    d -= 1
                    if d == 0:
                        break
                j += 1
            n = typenum_usize(s[i:j + 1])
            out += ('U%d' % n) if n is not None else s[i:j + 1]
            i = j + 1
        elif s.startswith(_TN + 'UTerm', i):
            out += 'U0'
            i += len(_TN + 'UTerm')
        else:
            out += s[i]
            i += 1
    return out


def generic_args(s):
    """'a::B<X, Y<Z>>' -> ['X', 'Y<Z>']"""
    i = s.find('<')
    if i < 0 or not s.endswith('>'):
        return []
    return split_args(s[i + 1:-1])


def array_len(s):
    m = re.match(r'^\[(.+); (\d+)\]$', s.strip())
    return int(m.group(2)) if m else None


def strip_ref(s):
    s = s.strip()
    if s.startswith('&mut '):
        return s[5:]
    if s.startswith('&'):
        return s[1:]
    return s
