"""Provenance terms over MIR (DESIGN Appendix A).

`An(body)` answers: what is the value of this operand at this program point, expressed
over the function's parameters, constants, calls and memory writers?  Terms are nested
tuples (hashable, comparable).  Nothing is executed; operands whose shape is outside the
tables below evaluate to ('unknown', reason) and obligations over them fail closed.

Term kinds
  ('param', i)                         parameter local i (1-based MIR local)
  ('const', ty, v)                     v: int | bool | ('bytes', hex) | ('zst',) | ('text', s)
  ('aconst', trait, name, self)        unevaluated generic associated constant
  ('fn', key)                          function item / constructor value
  ('closure', key, captures)
  ('addr', base, path, mut)            reference to a place; base ('local', l) | ('pointee', t) | ('promoted', n)
  ('load', t, path)                    value read through reference t at sub-path
  ('call', path, args, site)           result of a call (site = block index; strip with strip_sites)
  ('agg', kind, name, fields, fnames)  aggregate: kind adt/tuple/array
  ('field', name, t) ('variant', name, t) ('elem', idx, t)
  ('slice', t, lo, hi)                 sub-slice of a reference value that is not an addr
  ('cast', kind, ty, t) ('bin', op, a, b) ('un', op, a) ('discr', t) ('len', t) ('repeat', t, n)
  ('try', t) ('okval', t) ('residual', t) ('from_residual', t)
  ('mem', l, init, writers, vpath)     local l after in-place writers; writers: ((site, path, desc), ...)
  ('phi', ((site, t), ...))
  ('unknown', reason)
"""
from .cfg import CFG
from .mirjson import callee_of

VIEW_NAMES = {'deref', 'deref_mut', 'as_slice', 'as_mut_slice', 'as_ref', 'as_mut', 'borrow',
              'borrow_mut', 'as_bytes_mut_view__never'}
TRANSPARENT_WRAPPERS = {'zeroize::Zeroizing::new', 'zeroize::Zeroizing::<Z>::new'}
# callees that receive `&mut` but are pure views (never write through it)
NONWRITING = {'deref_mut', 'index_mut', 'as_mut_slice', 'as_mut', 'borrow_mut', 'iter_mut',
              'split_at_mut', 'deref', 'index'}
RANGE_ADTS = {
    'core::ops::Range': ('start', 'end'),
    'core::ops::RangeTo': (None, 'end'),
    'core::ops::RangeFrom': ('start', None),
    'core::ops::RangeFull': (None, None),
    'core::ops::RangeInclusive': ('start', 'end_incl'),
    'core::ops::RangeToInclusive': (None, 'end_incl'),
}


def strip_generics(path):
    """a::b::<T>::c::<U> -> a::b::c (angle-bracket groups removed, `<impl ...>` kept)"""
    out = []
    depth = 0
    i = 0
    n = len(path)
    while i < n:
        c = path[i]
        if c == '<':
            # keep `<impl X>` and `<T as Trait>` qualified-self groups; drop `::<...>` turbofish
            if depth == 0 and i >= 2 and path[i - 2:i] == '::' and not path.startswith('<impl', i):
                # turbofish: skip to matching '>'
                d = 0
                while i < n:
                    if path[i] == '<':
                        d += 1
                    elif path[i] == '>' and path[i - 1] != '-':
                        d -= 1
                        if d == 0:
                            break
                    i += 1
                i += 1
                # drop the preceding '::'
                if out[-2:] == [':', ':']:
                    out = out[:-2]
                continue
            depth += 1
        elif c == '>' and (i == 0 or path[i - 1] != '-'):
            depth -= 1
        out.append(c)
        i += 1
    return ''.join(out)


def is_refish(ty):
    # closures may capture references: a closure value is a potential carrier of borrows
    return '&' in ty or "'_" in ty or '*const' in ty or '*mut' in ty or 'closure@' in ty


def is_mutref(ty):
    return '&mut' in ty or '*mut' in ty


_CARRIER_RX = None


def carries_mut(ty):
    """a value of this type can be used to write through a borrow: `&mut T`, raw `*mut`, or a by-value *carrier* of a
    mutable borrow (slice::IterMut<'_, T>, ChunksMut, … and any adaptor wrapped around one)"""
    global _CARRIER_RX
    if is_mutref(ty):
        return True
    if _CARRIER_RX is None:
        import re
        _CARRIER_RX = re.compile(r'\b\w*Mut<')
    return bool(_CARRIER_RX.search(ty))


# iterator adaptors/constructors that only re-wrap a carrier, and pulls that hand out the items without running user code
# (the latter only when no closure is part of the iterator type)
ITER_REWRAP = {'rev', 'zip', 'into_iter', 'enumerate', 'skip', 'take', 'chain', 'map', 'by_ref', 'peekable', 'step_by',
               'iter', 'filter', 'take_while', 'skip_while', 'inspect', 'fuse', 'cloned', 'copied'}
ITER_PULL = {'next', 'next_back', 'nth', 'size_hint', 'len'}


class An:
    def __init__(self, body, facts=None):
        self.body = body
        self.facts = facts
        self.cfg = CFG(body)
        self.nblocks = len(body.blocks)
        self._index()
        self._rd()
        self._roots_memo = {}
        self._val_memo = {}
        self._inprog = set()
        self._writers = None

    # ------------------------------------------------------------------ indexing
    def _index(self):
        b = self.body
        self.defs = {}       # local -> [site]
        self.partial = {}    # local -> [site]  (direct partial stores  l.f = .. / l[i] = ..)
        self.deref_stores = []   # [(site, place)] stores through a deref
        for bi, blk in enumerate(b.blocks):
            if blk['cleanup']:
                continue
            for si, st in enumerate(blk['stmts']):
                if st['k'] == 'assign':
                    pl = st['place']
                    if not pl['p']:
                        self.defs.setdefault(pl['l'], []).append((bi, si))
                    elif 'deref' in pl['p']:
                        self.deref_stores.append(((bi, si), pl))
                    else:
                        self.partial.setdefault(pl['l'], []).append((bi, si))
                elif st['k'] == 'set_discr':
                    pl = st['place']
                    self.partial.setdefault(pl['l'], []).append((bi, si))
            t = blk['term']
            if t['k'] == 'call':
                pl = t['dest']
                site = (bi, len(blk['stmts']))
                if not pl['p']:
                    self.defs.setdefault(pl['l'], []).append(site)
                elif 'deref' in pl['p']:
                    self.deref_stores.append((site, pl))
                else:
                    self.partial.setdefault(pl['l'], []).append(site)

    def _rd(self):
        """reaching definitions (full definitions only) at block entry"""
        b = self.body
        n = self.nblocks
        gen = [dict() for _ in range(n)]
        for l, sites in self.defs.items():
            for (bi, si) in sites:
                cur = gen[bi].get(l)
                if cur is None or si > cur[1]:
                    gen[bi][l] = (bi, si)
        entry = {l: frozenset(['entry']) for l in range(1, b.arg_count + 1)}
        rin = [None] * n
        rin[0] = entry
        work = [0]
        while work:
            x = work.pop()
            cur = dict(rin[x])
            for l, s in gen[x].items():
                cur[l] = frozenset([s])
            for y in self.cfg.succ[x]:
                if rin[y] is None:
                    rin[y] = dict(cur)
                    work.append(y)
                else:
                    ch = False
                    for l, s in cur.items():
                        o = rin[y].get(l)
                        if o is None:
                            rin[y][l] = s
                            ch = True
                        elif not s <= o:
                            rin[y][l] = o | s
                            ch = True
                    if ch:
                        work.append(y)
        self.rin = rin

    def reaching(self, l, point):
        bi, idx = point
        best = None
        for (b2, s2) in self.defs.get(l, []):
            if b2 == bi and s2 < idx:
                if best is None or s2 > best[1]:
                    best = (b2, s2)
        if best is not None:
            return frozenset([best])
        r = self.rin[bi]
        if r is None:
            return frozenset()
        return r.get(l, frozenset())

    def term_point(self, bi):
        return (bi, len(self.body.blocks[bi]['stmts']))

    def stmt_at(self, site):
        bi, si = site
        blk = self.body.blocks[bi]
        if si < len(blk['stmts']):
            return blk['stmts'][si]
        return blk['term']

    def line_at(self, site):
        return self.stmt_at(site).get('line')

    # ------------------------------------------------------------------ phase 1: roots
    def roots_local(self, l, _seen=None):
        """set of ('local', L) / ('param', i) / ('other',) a reference-ish local may point into"""
        if l in self._roots_memo:
            return self._roots_memo[l]
        if _seen is None:
            _seen = set()
        if l in _seen:
            return set()
        _seen.add(l)
        out = set()
        ty = self.body.local_ty(l)
        if 1 <= l <= self.body.arg_count and is_refish(ty):
            out.add(('param', l))
        for site in self.defs.get(l, []):
            st = self.stmt_at(site)
            if st['k'] == 'assign':
                rv = st['rv']
                if rv['k'] == 'use' and rv['op']['k'] in ('copy', 'move') and ty.startswith('&') and self._loads_stored_ref(rv['op']['place']):
                    # `r = (*p).field` where the field is itself a reference: r points where the stored reference points
                    # (what the container *carries*), never into the container — safe Rust has no self-referential borrows
                    pp_ = rv['op']['place']['p']
                    fld = pp_[len(pp_) - 1 - pp_[::-1].index('deref') + 1]
                    direct = self._direct_pointees(rv['op']['place']['l'], set())
                    for r in (direct if direct is not None else self.roots_local(rv['op']['place']['l'], _seen)):
                        if r[0] == 'local' and is_refish(self.body.local_ty(r[1])):
                            # field-sensitive when the container is built by aggregate statements only
                            dsts = [self.stmt_at(d) for d in self.defs.get(r[1], [])]
                            if dsts and isinstance(fld.get('i'), int) and all(
                                    d.get('k') == 'assign' and d['rv'].get('k') == 'aggregate' and not d['place']['p']
                                    and fld['i'] < len(d['rv']['fields']) for d in dsts):
                                for d in dsts:
                                    out |= self._roots_op(d['rv']['fields'][fld['i']], _seen)
                            else:
                                out |= self.roots_local(r[1], _seen)
                        else:
                            out.add(r)
                    continue
                out |= self._roots_rv(rv, _seen)
            elif st['k'] == 'call':
                if is_refish(st['dest_ty']):
                    # a `&mut` result can only be derived from `&mut` arguments (safe code, no interior mutability)
                    only_mut = st['dest_ty'].startswith('&mut ')
                    for a, aty in zip(st['args'], st['arg_tys']):
                        if is_refish(aty) and (not only_mut or carries_mut(aty)):
                            out |= self._roots_op(a, _seen)
        if len(_seen) == 1:
            self._roots_memo[l] = out
        return out

    def _direct_pointees(self, l, seen):
        """the locals a pointer local points *at* (not what those carry): {('local', L)} or None when not a plain chain of
        `&x`, copies and whole reborrows"""
        if l in seen:
            return None
        seen.add(l)
        if 1 <= l <= self.body.arg_count:
            return None
        out = set()
        for site in self.defs.get(l, []):
            st = self.stmt_at(site)
            if st['k'] != 'assign' or st['place']['p']:
                return None
            rv = st['rv']
            if rv['k'] in ('ref', 'rawptr') and not rv['place']['p']:
                out.add(('local', rv['place']['l']))
            elif rv['k'] in ('ref', 'rawptr') and rv['place']['p'] == ['deref']:
                r = self._direct_pointees(rv['place']['l'], seen)
                if r is None:
                    return None
                out |= r
            elif rv['k'] == 'use' and rv['op']['k'] in ('copy', 'move') and not rv['op']['place']['p']:
                r = self._direct_pointees(rv['op']['place']['l'], seen)
                if r is None:
                    return None
                out |= r
            else:
                return None
        return out or None

    @staticmethod
    def _loads_stored_ref(pl):
        """place = (*…).f.g: a value read out of memory behind a pointer, through at least one field"""
        p = pl['p']
        if 'deref' not in p:
            return False
        last = len(p) - 1 - p[::-1].index('deref')
        tail = p[last + 1:]
        return bool(tail) and all(isinstance(e, dict) and 'f' in e for e in tail)

    def _roots_op(self, op, _seen):
        if op['k'] in ('copy', 'move'):
            pl = op['place']
            if 'deref' in pl['p'] or not pl['p']:
                return self.roots_local(pl['l'], _seen)
            # a field of a local aggregate that holds references
            return self.roots_local(pl['l'], _seen)
        return set()

    def _roots_rv(self, rv, _seen):
        k = rv['k']
        if k == 'use':
            return self._roots_op(rv['op'], _seen)
        if k in ('ref', 'rawptr'):
            pl = rv['place']
            if 'deref' not in pl['p']:
                out = {('local', pl['l'])}
                # a reference to a local that itself holds borrows (an iterator over a buffer, a `&mut` variable):
                # what is reachable through it includes what the local points into
                if is_refish(self.body.local_ty(pl['l'])):
                    out |= self.roots_local(pl['l'], _seen)
                return out
            return self.roots_local(pl['l'], _seen)
        if k == 'cast':
            return self._roots_op(rv['op'], _seen)
        if k == 'aggregate':
            out = set()
            for f in rv['fields']:
                out |= self._roots_op(f, _seen)
            return out
        return set()

    def _closure_mut_roots(self, op):
        """roots of the by-`&mut` captures of a closure value (a call that receives the closure may run it)"""
        out = set()
        if op['k'] not in ('copy', 'move') or op['place']['p']:
            return out
        for site in self.defs.get(op['place']['l'], []):
            st = self.stmt_at(site)
            if st['k'] == 'assign' and st['rv']['k'] == 'aggregate' and st['rv'].get('agg') == 'closure':
                for f in st['rv']['fields']:
                    if f['k'] in ('copy', 'move') and carries_mut(self.body.local_ty(f['place']['l'])):
                        out |= self._roots_op(f, set())
        return out

    def writer_sites(self):
        """{local: [site]} — calls handed a &mut rooted at the local (views excluded), partial
        stores, stores through references rooted at the local"""
        if self._writers is not None:
            return self._writers
        w = {}
        for l, sites in self.partial.items():
            for s in sites:
                w.setdefault(l, []).append(s)
        for site, pl in self.deref_stores:
            for r in self.roots_local(pl['l']):
                if r[0] == 'local':
                    w.setdefault(r[1], []).append(site)
        for bi, blk in enumerate(self.body.blocks):
            if blk['cleanup']:
                continue
            t = blk['term']
            if t['k'] != 'call':
                continue
            c = callee_of(t)
            name = c['name'] if c else None
            ext = not (c and ((c.get('resolved') or {}).get('local') or (c.get('local') and not c.get('trait'))))
            if name in NONWRITING and ext:
                continue
            if name in ITER_REWRAP and ext and c and c.get('crate') in ('core', 'alloc', 'std'):
                continue
            if name in ITER_PULL and ext and c and c.get('crate') in ('core', 'alloc', 'std') and not any('closure' in x for x in t['arg_tys']):
                continue
            site = self.term_point(bi)
            for a, aty in zip(t['args'], t['arg_tys']):
                if carries_mut(aty):
                    rs = self._roots_op(a, set())
                elif 'closure' in aty:
                    rs = self._closure_mut_roots(a)
                else:
                    continue
                for r in rs:
                    if r[0] == 'local':
                        w.setdefault(r[1], []).append(site)
        for l in w:
            w[l] = sorted(set(w[l]))
        self._writers = w
        return w

    # ------------------------------------------------------------------ phase 2: values
    def val_op(self, op, point):
        k = op['k']
        if k in ('copy', 'move'):
            return self.load_place(op['place'], point)
        if k == 'const':
            return self.const_term(op)
        return ('unknown', 'operand ' + k)

    def const_term(self, op):
        ty = op['ty']
        if 'fn' in op:
            f = op['fn']
            return ('fn', f.get('key') or f['path'])
        if 'closure' in op:
            return ('closure', op['closure'], ())
        if 'promoted' in op:
            # value of a promoted is a reference to its _0
            pb = self.body.promoted[op['promoted']]
            pa = An(pb, self.facts)
            rets = pa.return_terms()
            if len(rets) == 1:
                t = rets[0][1]
                # promoted bodies return &_1 ; fold to the value behind it (recursively for && constants)
                end = pa.term_point(pa.cfg.returns[0])

                def mat(t, depth=0):
                    if t[0] == 'addr' and t[1][0] == 'local' and depth < 4:
                        inner = pa.load(('local', t[1][1]), t[2], end)
                        return ('addr', ('promoted', op['promoted'], mat(inner, depth + 1)), (), False)
                    return t
                return mat(t)
            return ('unknown', 'promoted')
        if 'bytes' in op:
            return ('const', ty, ('bytes', op['bytes']))
        if 'bool' in op:
            return ('const', ty, bool(op['bool']))
        if 'int' in op:
            return ('const', ty, op['int'])
        if 'int_str' in op:
            return ('const', ty, int(op['int_str']))
        if 'tyconst' in op and str(op['tyconst']).isdigit():
            return ('const', ty, int(op['tyconst']))       # a const generic parameter instantiated by inlining
        if 'uneval' in op:
            if op.get('uneval_name') == 'USIZE' and (op.get('uneval_trait') or '').endswith('typenum::Unsigned'):
                # <N as Unsigned>::USIZE is N::to_usize(): one spelling (the one the rules know)
                st = op.get('uneval_self')
                return ('call', 'generic_array::typenum::Unsigned::to_usize', (), -1,
                        ('generic_array::typenum::Unsigned', 'to_usize', st, None, (st,), None))
            return ('aconst', op.get('uneval_trait'), op.get('uneval_name'), op.get('uneval_self'), op['uneval'])
        if op.get('zst'):
            return ('const', ty, ('zst',))
        import re as _re
        m = _re.match(r'^(\d+)(_[iu](8|16|32|64|128|size))?$', str(op.get('text', '')))
        if m:
            return ('const', ty, int(m.group(1)))     # a const generic parameter instantiated by inlining
        return ('const', ty, ('text', op.get('text', '?')))

    def place_desc(self, place, point):
        """-> (base, path) with base ('local', l) | ('pointee', term) | ('promoted', n, inner)"""
        base = ('local', place['l'])
        path = ()
        for e in place['p']:
            if e == 'deref':
                v = self.load(base, path, point)
                if v[0] == 'addr':
                    base, path = v[1], v[2]
                else:
                    base, path = ('pointee', v), ()
            elif 'f' in e:
                path = path + (('f', e['f']),)
            elif 'downcast' in e:
                path = path + (('v', e['downcast']),)
            elif 'index' in e:
                path = path + (('i', self.val_local(e['index'], point)),)
            elif 'cindex' in e:
                path = path + (('i', ('const', 'usize', e['cindex']) if not e['from_end'] else ('fromend', e['cindex'])),)
            elif 'subslice' in e:
                path = path + (('ss', e['subslice'][0], e['subslice'][1], e['from_end']),)
            else:
                path = path + (('?', str(e)),)
        return base, path

    def load_place(self, place, point):
        base, path = self.place_desc(place, point)
        return self.load(base, path, point)

    def load(self, base, path, point):
        if base[0] == 'local':
            v = self.val_local(base[1], point)
            return project(v, path)
        if base[0] == 'pointee':
            if not path:
                return ('load', base[1], ())
            return ('load', base[1], path)
        if base[0] == 'promoted':
            return project(base[2], path)
        if base[0] == 'cell':
            return project(base[1], path)
        return ('unknown', 'load base')

    def val_local(self, l, point):
        key = (l, point)
        if key in self._val_memo:
            return self._val_memo[key]
        sites = self.reaching(l, point)
        wsites = [s for s in self.writer_sites().get(l, []) if self._reaches_point(s, point)]
        gkey = ('local', l, tuple(sorted(sites, key=str)), tuple(wsites))
        if gkey in self._inprog:
            return ('rec', l)
        self._inprog.add(gkey)
        try:
            if not sites:
                base = ('uninit', l)
            elif len(sites) == 1:
                base = self.term_of_def(l, next(iter(sites)))
            else:
                base = ('phi', tuple(sorted(((s, self.term_of_def(l, s)) for s in sites), key=lambda x: str(x[0]))))
            if wsites:
                ws = []
                for s in wsites:
                    # only writers after (reachable from) the reaching definition(s)
                    ok = False
                    for d in sites:
                        if d == 'entry' or self._site_reaches(d, s):
                            ok = True
                    if not sites:
                        ok = True
                    if not ok:
                        continue
                    dom = self._writer_dominates(s, point)
                    ws.extend(self.writer_desc(l, s, dom))
                if ws:
                    base = ('mem', l, base, tuple(ws), ())
        finally:
            self._inprog.discard(gkey)
        self._val_memo[key] = base
        return base

    def _writer_dominates(self, s, point):
        return self.cfg.point_dominates(s, point) and s != point

    def _reaches_point(self, s, point):
        """writer site s can execute before point"""
        (a, i), (b, j) = s, point
        if a == b and i < j:
            return True
        # via CFG: some successor of a reaches b
        for y in self.cfg.succ[a]:
            if b in self.cfg.fwd(y):
                return True
        return False

    def _site_reaches(self, d, s):
        (a, i), (b, j) = d, s
        if a == b and i < j:
            return True
        for y in self.cfg.succ[a]:
            if b in self.cfg.fwd(y):
                return True
        return False

    def writer_desc(self, l, site, dom):
        """[(site, path, desc, dominates)] for the writer at `site` w.r.t. local l"""
        st = self.stmt_at(site)
        out = []
        if st['k'] == 'assign' or st['k'] == 'set_discr':
            base, path = self.place_desc(st['place'], site)
            if base == ('local', l):
                if st['k'] == 'assign':
                    v = self.val_rv(st['rv'], site)
                else:
                    v = ('set_discr', st['v'])
                out.append((site, path, ('store', v), dom))
            else:
                out.append((site, None, ('store?',), dom))
        elif st['k'] == 'call':
            c = callee_of(st)
            cpath = strip_generics(c['path']) if c else '?indirect'
            args = tuple(self.val_op(a, site) for a in st['args'])
            hit = False
            for i, (a, aty) in enumerate(zip(args, st['arg_tys'])):
                if not is_mutref(aty):
                    continue
                if a[0] == 'addr' and a[1] == ('local', l):
                    out.append((site, a[2], ('call', cpath, args, i, self.callee_info(st)), dom))
                    hit = True
            # call dest partial store
            if st['dest']['p']:
                base, path = self.place_desc(st['dest'], site)
                if base == ('local', l):
                    out.append((site, path, ('store', ('call', cpath, args, site[0])), dom))
                    hit = True
            if not hit:
                # phase 1 (roots) over-approximates; if every &mut argument is a known reference to something
                # else, this call does not write the local
                unknown = [x for x, aty in zip(args, st['arg_tys']) if is_mutref(aty) and not (
                    x[0] == 'addr' and x[1][0] in ('local', 'pointee', 'cell', 'promoted')) and x[0] != 'param']
                # by-value carriers of a mutable borrow (IterMut and adaptors around it) and closures with `&mut` captures:
                # phase 1 found that they may point into this local; the callee may write through them
                unknown += [x for x, aty in zip(args, st['arg_tys']) if not is_mutref(aty) and (carries_mut(aty) or 'closure' in aty)]
                if unknown:
                    out.append((site, None, ('call?', cpath, args, self.callee_info(st)), dom))
        return out

    def callee_info(self, t):
        c = callee_of(t)
        if not c:
            return None
        r = c.get('resolved')
        return (c.get('trait'), c.get('name'), c.get('self_ty') or c.get('impl_self_ty'),
                r['key'] if r and r.get('local') else None, tuple(c.get('generic_args', ())),
                r['path'] if r else None)

    def term_of_def(self, l, site):
        if site == 'entry':
            return ('param', l)
        st = self.stmt_at(site)
        if st['k'] == 'assign':
            return self.val_rv(st['rv'], site)
        if st['k'] == 'call':
            return self.val_call(st, site)
        return ('unknown', 'def kind ' + st['k'])

    def val_rv(self, rv, point):
        k = rv['k']
        if k == 'use':
            return self.val_op(rv['op'], point)
        if k in ('ref', 'rawptr'):
            base, path = self.place_desc(rv['place'], point)
            if base[0] == 'pointee' and not path:
                return base[1]          # reborrow of a reference value
            if (base[0] == 'local' and not path and not rv.get('mut') and k == 'ref'
                    and self.body.local_ty(base[1]).startswith('&') and base[1] not in self.writer_sites()):
                # `&r` where r is itself a reference-typed temporary: an immutable cell holding r's value
                v = self.val_local(base[1], point)
                if v[0] not in ('phi', 'uninit', 'rec'):
                    return ('addr', ('cell', v), (), False)
            if (base[0] == 'local' and not path and not rv.get('mut') and k == 'ref'
                    and base[1] not in self.writer_sites() and len(self.defs.get(base[1], [])) == 1):
                # `&[0u8; 32]`-style borrow of a never-written constant temporary
                v = self.val_local(base[1], point)
                if v[0] in ('repeat', 'const') or (v[0] == 'agg' and v[1] == 'array'):
                    return ('addr', ('cell', v), (), False)
            return ('addr', base, path, bool(rv.get('mut')))
        if k == 'cast':
            t = self.val_op(rv['op'], point)
            ck = rv['cast']
            if ck.startswith('PointerCoercion(Unsize') or ck in ('PtrToPtr',) or ck.startswith('PointerCoercion(MutToConstPointer'):
                return t                # &[u8;N] -> &[u8] etc.: same place
            return ('cast', ck, rv['ty'], t)
        if k == 'binop':
            return fold_bin(rv['op'], self.val_op(rv['l'], point), self.val_op(rv['r'], point))
        if k == 'unop':
            x = self.val_op(rv['x'], point)
            if rv['op'] == 'PtrMetadata':
                return ('len', x)
            return ('un', rv['op'], x)
        if k == 'discriminant':
            v = self.load_place(rv['place'], point)
            # `match r { Ok(..) => .., Err(..) => .. }` on a Result and `r?` decide on the same thing with the same numbering
            # (Ok = Continue = 0, Err = Break = 1): one spelling
            pl = rv['place']
            if v[0] != 'try' and not [e for e in pl['p'] if e != 'deref'] and \
                    self.body.local_ty(pl['l']).lstrip('&').replace('mut ', '').startswith('core::result::Result<'):
                return ('discr', ('try', v))
            return ('discr', v)
        if k == 'repeat':
            return ('repeat', self.val_op(rv['op'], point), rv['n'])
        if k == 'aggregate':
            fields = tuple(self.val_op(f, point) for f in rv['fields'])
            a = rv['agg']
            if a == 'adt':
                if rv['adt'] == 'core::result::Result' and rv['variant'] == 'Err' and len(fields) == 1 and fields[0][0] == 'errval':
                    # `Err(e) => return Err(e)` re-raises the failure like `?` does (identity conversion)
                    return ('from_residual', mk_residual(fields[0][1]))
                return ('agg', 'adt', rv['adt'] + '::' + rv['variant'], fields, tuple(rv['field_names']))
            if a == 'closure':
                return ('closure', rv['closure'], fields)
            if a == 'tuple':
                # `let (x, y) = f(); (x, y)` is f()
                if len(fields) >= 2 and all(f[0] == 'field' and f[1] == str(i) for i, f in enumerate(fields)) and \
                        all(f[2] == fields[0][2] for f in fields) and fields[0][2][0] == 'call' and \
                        self._tuple_arity(fields[0][2]) == len(fields):
                    return fields[0][2]
                return ('agg', 'tuple', 'tuple', fields, tuple(str(i) for i in range(len(fields))))
            if a == 'array':
                return ('agg', 'array', 'array', fields, tuple(str(i) for i in range(len(fields))))
            return ('agg', a, a, fields, ())
        return ('unknown', 'rvalue ' + k)

    def _tuple_arity(self, callterm):
        """arity of the tuple a call term returns (from the destination type of its call terminator), or None"""
        try:
            t = self.body.blocks[callterm[3]]['term']
            ty = t.get('dest_ty', '')
        except Exception:
            return None
        if not (ty.startswith('(') and ty.endswith(')')):
            return None
        depth = 0
        n = 1
        for ch in ty[1:-1]:
            if ch in '<([':
                depth += 1
            elif ch in '>)]':
                depth -= 1
            elif ch == ',' and depth == 0:
                n += 1
        return n

    def val_call(self, t, site):
        c = callee_of(t)
        args = tuple(self.val_op(a, site) for a in t['args'])
        if not c:
            return ('call', '?indirect:' + str(self.val_op(t['func'], site)), args, site[0])
        path = strip_generics(c['path'])
        name = c['name']
        r0 = c.get('resolved') or {}
        # a trait method that resolves to (or is) a body of the analysed crate is never assumed to be a transparent
        # view: a local `Deref`/`AsRef`/`Index` impl may do anything (its body is analysed like any other callee)
        is_local_impl = bool(c.get('local') and not c.get('trait')) or bool(r0.get('local'))
        # --- views
        if name in VIEW_NAMES and len(args) == 1 and not is_local_impl:
            return args[0]
        # by-value wrappers of a dependency whose Deref/DerefMut are the identity view (they only add a wipe on drop)
        if path in TRANSPARENT_WRAPPERS and len(args) == 1:
            return args[0]
        if name in ('index', 'index_mut') and len(args) == 2 and not is_local_impl:
            r = args[1]
            if r[0] == 'agg' and r[2].rsplit('::', 1)[0] in RANGE_ADTS:
                rk = r[2].rsplit('::', 1)[0]
                fn = dict(zip(r[4], r[3]))
                lo = fn.get('start')
                hi = fn.get('end')
                if rk == 'core::ops::RangeFull':
                    return args[0]
                if rk == 'core::ops::RangeToInclusive' and hi is not None:
                    return mk_slice(args[0], None, fold_bin('Add', hi, ('const', 'usize', 1)))       # x[..=b] is x[..b + 1]
                if rk in ('core::ops::RangeInclusive', 'core::ops::RangeToInclusive'):
                    return ('unknown', 'inclusive range slice')
                return mk_slice(args[0], lo, hi)
            if r[0] == 'call' and r[1] == 'core::ops::RangeInclusive::new' and len(r[2]) == 2:
                # x[a..=b] is x[a..b + 1] (b == usize::MAX panics in the indexing itself, a site of its own)
                return mk_slice(args[0], r[2][0], fold_bin('Add', r[2][1], ('const', 'usize', 1)))
            if r[0] == 'call' and r[1] == 'core::ops::RangeInclusive::new':
                return ('unknown', 'inclusive range slice')
            return mk_elem(args[0], r)
        if name == 'collect' and len(args) == 1 and t['dest_ty'].startswith(('std::vec::Vec<', 'alloc::vec::Vec<')):
            x = args[0]
            if x[0] == 'call' and x[1] in ('core::iter::Iterator::copied', 'core::iter::Iterator::cloned') and len(x[2]) == 1:
                y = x[2][0]
                if y[0] == 'call' and y[1].endswith('::iter') and 'slice' in y[1] and len(y[2]) == 1:
                    # s.iter().copied().collect::<Vec<_>>() is s.to_vec()
                    return ('call', 'std::slice::<impl [T]>::to_vec', (y[2][0],), site[0], self.callee_info(t))
        if path in ('core::result::Result::unwrap', 'core::result::Result::expect', 'core::option::Option::unwrap', 'core::option::Option::expect') \
                and args and args[0][0] == 'agg' and args[0][1] == 'adt' and args[0][2] in ('core::result::Result::Ok', 'core::option::Option::Some') \
                and len(args[0][3]) == 1:
            return args[0][3][0]           # unwrapping a value that was just built as Ok(v) / Some(v) is v
        if path == 'core::convert::Into::into' and len(args) == 1 and len(c.get('generic_args') or []) == 2:
            f_, t_ = c['generic_args']
            if f_ in _INT_BITS and t_ in _INT_BITS and f_[0] == 'u' and t_[0] == 'u' and _INT_BITS[t_] >= _INT_BITS[f_]:
                return ('cast', 'IntToInt', t_, args[0])       # usize::from(x: u16) is the zero-extending cast
        if path == 'core::num::<impl u8>::to_be_bytes' and len(args) == 1:
            return ('agg', 'array', 'array', (args[0],), ('0',))          # the one-byte encoding of a u8 is [x]
        if name in ('split_at_mut', 'split_at') and len(args) == 2 and 'slice' in path and not is_local_impl:
            # (&mut x[..k], &mut x[k..]): two views, so that writes through either half are writes to x at that range
            return ('agg', 'tuple', 'tuple', (mk_slice(args[0], None, args[1]), mk_slice(args[0], args[1], None)), ('0', '1'))
        if path in ('core::slice::<impl [T]>::len',) or (name == 'len' and 'slice' in path):
            return ('len', args[0])
        # --- local callees returning a reference into one of their arguments: rebase
        r = c.get('resolved')
        lkey = r['key'] if r and r.get('local') else (c.get('key') if c.get('local') else None)
        if lkey and self.facts is not None and t['dest_ty'].startswith('&') and lkey != self.body.key:
            sm = ref_summary(self.facts, lkey)
            if sm is not None:
                argmap = {i + 1: a for i, a in enumerate(args)}
                if sm[0] == 'param':
                    return argmap.get(sm[1], ('unknown', 'summary param'))
                if sm[0] == 'addr' and sm[1][0] == 'pointee' and sm[1][1][0] == 'param':
                    basearg = argmap.get(sm[1][1][1])
                    if basearg is not None:
                        rel = tuple(subst_params(e, argmap) for e in sm[2])
                        if basearg[0] == 'addr':
                            return ('addr', basearg[1], basearg[2] + rel, sm[3])
                        return ('addr', ('pointee', basearg), rel, sm[3])
        if name == 'branch' and c.get('trait') == 'core::ops::Try':
            return ('try', args[0])
        if name == 'from_residual' and c.get('trait') == 'core::ops::FromResidual':
            return ('from_residual', args[0])
        return ('call', path, args, site[0], self.callee_info(t))

    # ------------------------------------------------------------------ conveniences
    def calls(self, pred=None):
        """[(bi, term, calleeinfo)] of normal-path calls, optionally filtered by pred(callee dict)"""
        out = []
        for bi, blk in enumerate(self.body.blocks):
            if blk['cleanup'] or bi not in self.cfg.reach:
                continue
            t = blk['term']
            if t['k'] != 'call':
                continue
            c = callee_of(t)
            if pred is None or (c is not None and pred(c)):
                out.append((bi, t, c))
        return out

    def arg_val(self, bi, i):
        t = self.body.blocks[bi]['term']
        return self.val_op(t['args'][i], self.term_point(bi))

    def arg_pointee(self, bi, i):
        """the value behind reference argument i of the call terminating block bi, at call time"""
        v = self.arg_val(bi, i)
        return self.deref_val(v, self.term_point(bi))

    def deref_val(self, v, point):
        if v[0] == 'addr':
            return self.load(v[1], v[2], point)
        return ('load', v, ())

    def return_terms(self):
        """[(site, term)] — definitions of _0 that reach a Return"""
        out = []
        seen = set()
        for rb in self.cfg.returns:
            p = self.term_point(rb)
            for s in self.reaching(0, p):
                if s in seen:
                    continue
                seen.add(s)
                t = self.term_of_def(0, s)
                if t[0] == 'phi':
                    # `_0 = move r` with r built on several paths (the return value of an inlined helper): one return value
                    # per alternative, at the site where that alternative was built
                    for s2, t2 in t[1]:
                        out.append((s2 if isinstance(s2, tuple) and len(s2) == 2 else s, t2))
                elif t[0] == 'from_residual' and t[1][0] == 'residual' and t[1][1][0] == 'phi':
                    # several failures re-raised through one shared `Err(e)` join (combinator chains): one return value per
                    # failure; re-raising an `Err(v)` that was just built is that `Err(v)`, re-raising a re-raised failure is itself
                    for s2, t2 in t[1][1][1]:
                        site = s2 if isinstance(s2, tuple) and len(s2) == 2 else s
                        if t2[0] == 'from_residual' or _def_err(t2):
                            out.append((site, t2))
                        else:
                            out.append((site, ('from_residual', mk_residual(t2))))
                else:
                    out.append((s, t))
        # _0 may also be built by partial stores / be a memory local
        if not out and self.cfg.returns:
            p = self.term_point(self.cfg.returns[0])
            out.append((None, self.val_local(0, p)))
        return out

    def ret_val(self):
        """single term for the returned value (phi if several definitions reach)"""
        if not self.cfg.returns:
            return ('diverges',)
        vals = []
        for rb in self.cfg.returns:
            vals.append(self.val_local(0, self.term_point(rb)))
        if len(vals) == 1:
            return vals[0]
        return ('phi', tuple((('ret', i), v) for i, v in enumerate(vals)))


class PathAn(An):
    """the same analysis restricted to one acyclic block path (path-sensitive values)"""

    def __init__(self, base, path):
        self.body = base.body
        self.facts = base.facts
        self.cfg = base.cfg
        self.nblocks = base.nblocks
        self.defs = base.defs
        self.partial = base.partial
        self.deref_stores = base.deref_stores
        self.rin = base.rin
        self._roots_memo = base._roots_memo
        self._writers = base.writer_sites()
        self._val_memo = {}
        self._inprog = set()
        self.path = list(path)
        self.pos = {b: i for i, b in enumerate(self.path)}

    def _before(self, s, point):
        (a, i), (b, j) = s, point
        if a not in self.pos or b not in self.pos:
            return False
        if a == b:
            return i < j
        return self.pos[a] < self.pos[b]

    def reaching(self, l, point):
        best = None
        for s in self.defs.get(l, []):
            if self._before(s, point):
                if best is None or self._before(best, s):
                    best = s
        if best is not None:
            return frozenset([best])
        if 1 <= l <= self.body.arg_count:
            return frozenset(['entry'])
        return frozenset()

    def _reaches_point(self, s, point):
        return self._before(s, point)

    def _site_reaches(self, d, s):
        return self._before(d, s)

    def _writer_dominates(self, s, point):
        return self._before(s, point)

    def ret_val(self):
        last = self.path[-1]
        return self.val_local(0, self.term_point(last))


def get_an(facts, key):
    cache = facts.__dict__.setdefault('_an_cache', {})
    if key not in cache:
        b = facts.body(key)
        a = An(b, facts) if b is not None else None
        if a is not None and _prune_decided_len_tests(a, facts):
            a = An(b, facts)
        cache[key] = a
    return cache[key]


def _prune_decided_len_tests(a, facts):
    """N7 a test `x.len() == N` that is dominated by the success edge of the exact-length guard for the same x and the same N
    has one feasible outcome: the branch becomes a goto (the body is edited in place, once).  This is what makes
    `<[u8; N]>::try_from(x).unwrap()` after `enforce_equal_len(N, x.len())?` the plain copy it is."""
    body = a.body
    if body.raw.get('_len_tests_pruned') is not None:
        return False
    body.raw['_len_tests_pruned'] = []
    cands = []
    for sb in sorted(a.cfg.reach):
        blk = body.blocks[sb]
        t = blk['term']
        if blk['cleanup'] or t['k'] != 'switch' or t.get('discr_ty') != 'bool':
            continue
        d = strip_sites(a.val_op(t['discr'], a.term_point(sb)))
        neg = False
        while d[0] == 'un' and d[1] == 'Not':
            d = d[2]
            neg = not neg
        if not (d[0] == 'bin' and d[1] in ('Eq', 'Ne')):
            continue
        for x, y in ((d[2], d[3]), (d[3], d[2])):
            if x[0] == 'len' and x[1][0] == 'param' and y[0] == 'const' and isinstance(y[2], int) and not isinstance(y[2], bool):
                cands.append((sb, t, x[1], y[2], (d[1] == 'Eq') != neg))
    if not cands:
        return False
    from .rules.c13 import guard_equal_len
    from .rules.common import switch_edge
    done = False
    for sb, t, param, n, is_eq in cands:
        g = guard_equal_len(a, facts, sb, param, explicit=False)
        if g is None or g != n:
            continue
        tgt = switch_edge(t, 1) if is_eq else switch_edge(t, 0)
        body.blocks[sb]['term'] = {'k': 'goto', 'target': tgt, 'line': t.get('line'), 'syn': 'len-decided'}
        body.raw['_len_tests_pruned'].append(sb)
        done = True
    return done


def ref_summary(facts, key):
    """return term of a local function if it is a reference derived from one parameter"""
    cache = facts.__dict__.setdefault('_refsum_cache', {})
    if key in cache:
        return cache[key]
    cache[key] = None
    a = get_an(facts, key)
    if a is None or len(a.cfg.returns) != 1:
        return None
    t = a.ret_val()
    ok = None
    if t[0] == 'param':
        ok = t
    elif t[0] == 'addr' and t[1][0] == 'pointee' and t[1][1][0] == 'param':
        if not contains(t[2], lambda x: isinstance(x, tuple) and x[:1] in (('unknown',), ('mem',), ('phi',))):
            ok = t
    cache[key] = ok
    return ok


# ---------------------------------------------------------------------- term helpers
def _minuend_subtrahend(d):
    """(x, y) when d is `x - y` or the Some payload of `x.checked_sub(y)`"""
    if d[0] == 'bin' and d[1] == 'Sub':
        return d[2], d[3]
    if d[0] == 'field' and d[1] == '0' and d[2][0] == 'variant' and d[2][1] == 'Some':
        c = d[2][2]
        if c[0] == 'call' and c[1] == 'core::num::<impl usize>::checked_sub' and len(c[2]) == 2:
            return c[2][0], c[2][1]
    return None


def unref_pointee(t):
    """`&*x` and `x` name the same slice"""
    t = strip_sites(t)
    if isinstance(t, tuple) and len(t) == 4 and t[0] == 'addr' and t[1][0] == 'pointee' and not t[2]:
        return t[1][1]
    return t


def mk_slice(t, lo, hi):
    if t[0] == 'addr' and t[2] and t[2][-1][0] == 'slice' and (lo is None or t[2][-1][2] is None):
        # x[a..][..n] is x[a..a+n], x[a..b][c..] is x[a+c..b]: one spelling for a sub-slice of a sub-slice (the bounds checks of
        # the two index calls stay separate panic sites for C13; only the denoted region is composed here)
        lo0, hi0 = t[2][-1][1], t[2][-1][2]
        nlo = lo0 if lo is None else (lo if lo0 is None else fold_bin('Add', lo0, lo))
        nhi = hi0 if hi is None else (hi if lo0 is None else fold_bin('Add', lo0, hi))
        return mk_slice(('addr', t[1], t[2][:-1], t[3]), nlo, nhi)
    whole = unref_pointee(t)
    # x[a..x.len()] is x[a..]
    if hi is not None and hi[0] == 'len' and unref_pointee(hi[1]) == whole:
        hi = None
    # x[len-n .. (len-n)+n] is x[len-n ..]: (len-n)+n == x.len() whenever the subtraction did not fail
    if hi is not None and hi[0] == 'bin' and hi[1] == 'Add':
        for d, n in ((hi[2], hi[3]), (hi[3], hi[2])):
            m = _minuend_subtrahend(d)
            if m and m[0][0] == 'len' and unref_pointee(m[0][1]) == whole and strip_sites(m[1]) == strip_sites(n):
                hi = None
                break
    if t[0] == 'addr':
        return ('addr', t[1], t[2] + (('slice', lo, hi),), t[3])
    return ('addr', ('pointee', t), (('slice', lo, hi),), False)


def mk_elem(t, idx):
    if t[0] == 'addr':
        return ('addr', t[1], t[2] + (('i', idx),), t[3])
    return ('addr', ('pointee', t), (('i', idx),), False)


def _def_err(t):
    return t[0] == 'from_residual' or (t[0] == 'agg' and t[2] in ('core::result::Result::Err', 'core::option::Option::None'))


def _def_ok(t):
    return t[0] == 'agg' and t[2] in ('core::result::Result::Ok', 'core::option::Option::Some')


def mk_okval(x):
    """payload of the success variant of a Result/Option value that went through `?`: alternatives of a merge that are
    definitely failures cannot reach the Continue arm"""
    if x[0] == 'phi':
        alts = [a for a in x[1] if not _def_err(a[1])]
        if len(alts) == 1:
            return mk_okval(alts[0][1])
        if alts and len(alts) < len(x[1]):
            return ('okval', ('phi', tuple(alts)))
    if _def_ok(x) and len(x[3]) == 1:
        return x[3][0]
    return ('okval', x)


def mk_errval(x):
    """the error carried by a Result value: of a re-raised failure it is the original failure's error"""
    if x[0] == 'phi':
        alts = [a for a in x[1] if not _def_ok(a[1])]
        if len(alts) == 1:
            return mk_errval(alts[0][1])
    if x[0] == 'from_residual' and x[1][0] == 'residual':
        return mk_errval(x[1][1])
    if x[0] == 'agg' and x[2] == 'core::result::Result::Err' and len(x[3]) == 1:
        return x[3][0]
    return ('errval', x)


def mk_residual(x):
    """the failure carried out by `?`: a value that is itself the re-raised failure of an inner `?` (a helper that was
    inlined) is that inner failure — `?` converts with the identity From<E> for E"""
    if x[0] == 'phi':
        alts = [a for a in x[1] if not _def_ok(a[1])]
        if len(alts) == 1:
            return mk_residual(alts[0][1])
        if alts and len(alts) < len(x[1]):
            return ('residual', ('phi', tuple(alts)))
    if x[0] == 'from_residual' and x[1][0] == 'residual':
        return x[1]
    return ('residual', x)


_INT_BITS = {'u8': 8, 'u16': 16, 'u32': 32, 'u64': 64, 'usize': 64, 'u128': 128}


def fold_bin(op, l, r):
    """constant folding of unsigned integer arithmetic that does not overflow (`4..4 + 2` is `4..6`)"""
    if op in ('Add', 'Sub', 'Mul') and l[0] == 'const' and r[0] == 'const' and l[1] == r[1] and l[1] in _INT_BITS and \
            isinstance(l[2], int) and isinstance(r[2], int) and not isinstance(l[2], bool) and not isinstance(r[2], bool):
        v = l[2] + r[2] if op == 'Add' else (l[2] - r[2] if op == 'Sub' else l[2] * r[2])
        if 0 <= v < (1 << _INT_BITS[l[1]]):
            return ('const', l[1], v)
    return ('bin', op, l, r)


_VARIANT_DISCR = {'core::option::Option::None': 0, 'core::option::Option::Some': 1,
                  'core::result::Result::Ok': 0, 'core::result::Result::Err': 1}
_BOOL_TO_INT = ('core::convert::Into::into', 'core::convert::From::from')


def fold_const(t, ty):
    """evaluate a term that is built only from integer/boolean constants, discriminants of `Option`/`Result` values whose
    variant is known (an aggregate), comparisons, `u8::from(bool)` / `.into()` and bitwise or shift operators, to a constant of
    the integer type `ty` (the type of the place that receives it).  Anything else — in particular anything that reads a
    parameter — is returned unchanged: `u8::from(psk.is_some()) | u8::from(pk.is_some()) << 1` over known variants is a number,
    `u8::from(!psk_bytes.is_empty())` is not."""
    def ev(x):
        if not isinstance(x, tuple) or not x:
            return None
        k = x[0]
        if k == 'const' and len(x) == 3 and isinstance(x[2], (bool, int)):
            return x[2]
        if k == 'discr' and isinstance(x[1], tuple) and x[1][:2] == ('agg', 'adt') and x[1][2] in _VARIANT_DISCR:
            return _VARIANT_DISCR[x[1][2]]
        if k == 'un' and x[1] == 'Not':
            v = ev(x[2])
            return (not v) if isinstance(v, bool) else None
        if k == 'cast' and x[1] == 'IntToInt' and x[2] in _INT_BITS:
            v = ev(x[3])
            if v is None or isinstance(v, bool) or v < 0:
                return None
            return v & ((1 << _INT_BITS[x[2]]) - 1)
        if k == 'call' and x[1] in _BOOL_TO_INT and len(x[2]) == 1:
            v = ev(x[2][0])
            return int(v) if isinstance(v, bool) else None       # only bool -> integer is value-preserving for every target
        if k == 'bin':
            l, r = ev(x[2]), ev(x[3])
            if l is None or r is None:
                return None
            op = x[1]
            if op in ('Eq', 'Ne', 'Lt', 'Le', 'Gt', 'Ge'):
                if isinstance(l, bool) != isinstance(r, bool):
                    return None
                return {'Eq': l == r, 'Ne': l != r, 'Lt': l < r, 'Le': l <= r, 'Gt': l > r, 'Ge': l >= r}[op]
            if isinstance(l, bool) and isinstance(r, bool) and op in ('BitOr', 'BitAnd', 'BitXor'):
                return {'BitOr': l or r, 'BitAnd': l and r, 'BitXor': l != r}[op]
            if isinstance(l, bool) or isinstance(r, bool) or l < 0 or r < 0:
                return None
            if op == 'BitOr':
                return l | r
            if op == 'BitAnd':
                return l & r
            if op == 'BitXor':
                return l ^ r
            if op == 'Shl' and r < _INT_BITS.get(ty, 0):
                v = l << r
                return v if v < (1 << _INT_BITS[ty]) else None      # bits shifted out: leave it to the caller
            if op == 'Shr' and r < _INT_BITS.get(ty, 0):
                return l >> r
            if op == 'Add' and l + r < (1 << _INT_BITS.get(ty, 0)):
                return l + r
        return None
    if isinstance(t, tuple) and t and t[0] == 'const':
        return t
    v = ev(strip_sites(t))
    if v is None or isinstance(v, bool) or ty not in _INT_BITS or not 0 <= v < (1 << _INT_BITS[ty]):
        return t
    return ('const', ty, v)


def project(v, path):
    for e in path:
        v = project1(v, e)
    return v


def project1(v, e):
    k = e[0]
    if v[0] == 'mem':
        return ('mem', v[1], v[2], v[3], v[4] + (e,))
    if k == 'f':
        name = e[1]
        if v[0] == 'bin' and v[1].endswith('WithOverflow'):
            if name == '0':
                return fold_bin(v[1][:-len('WithOverflow')], v[2], v[3])
            return ('overflow', v[1][:-len('WithOverflow')], v[2], v[3])
        if v[0] == 'closure' and name.isdigit() and int(name) < len(v[2]):
            return v[2][int(name)]           # a captured variable of an inlined closure
        if v[0] == 'agg':
            if name in v[4]:
                return v[3][v[4].index(name)]
            if name.isdigit() and int(name) < len(v[3]):
                return v[3][int(name)]
        if v[0] == 'okval_variant':
            return mk_okval(v[1])
        if v[0] == 'residual_variant':
            return mk_residual(v[1])
        # `match r { Ok(v) => …, Err(e) => … }`: the payloads are the same values `?` would extract
        if v[0] == 'variant' and name == '0' and v[1] == 'Ok':
            return mk_okval(v[2])
        if v[0] == 'variant' and name == '0' and v[1] == 'Err':
            return mk_errval(v[2])
        if v[0] == 'load':
            return ('load', v[1], v[2] + (e,))
        return ('field', name, v)
    if k == 'v':
        if v[0] == 'try':
            if e[1] == 'Continue':
                return ('okval_variant', v[1])
            if e[1] == 'Break':
                return ('residual_variant', v[1])
        if v[0] == 'agg' and v[1] == 'adt':
            if v[2].endswith('::' + e[1]):
                return v
            return ('unknown', 'downcast of %s to %s' % (v[2], e[1]))
        if v[0] == 'load':
            return ('load', v[1], v[2] + (e,))
        if v[0] == 'phi' and e[1] in ('Some', 'Ok', 'Err', 'None'):
            # `(x as Some).0` of a value built on several paths: alternatives built as another variant cannot be the one read
            alts = [a_ for a_ in v[1] if not (a_[1][0] == 'agg' and a_[1][1] == 'adt' and
                                              a_[1][2].startswith(('core::option::Option::', 'core::result::Result::')) and not a_[1][2].endswith('::' + e[1]))]
            if len(alts) == 1 and len(alts) < len(v[1]):
                return project1(alts[0][1], e)
        return ('variant', e[1], v)
    if k == 'i':
        if v[0] == 'agg' and v[1] == 'array' and e[1][0] == 'const' and isinstance(e[1][2], int) and e[1][2] < len(v[3]):
            return v[3][e[1][2]]
        if v[0] == 'load':
            return ('load', v[1], v[2] + (e,))
        return ('elem', e[1], v)
    if k == 'slice':
        if v[0] == 'load':
            return ('load', v[1], v[2] + (e,))
        return ('slice', v, e[1], e[2])
    if v[0] == 'load':
        return ('load', v[1], v[2] + (e,))
    return ('proj', e, v)


def strip_sites(t):
    """remove call-site numbers and writer sites so that terms of different bodies compare"""
    if not isinstance(t, tuple):
        return t
    if not t:
        return t
    k = t[0]
    if k == 'call':
        return ('call', t[1], tuple(strip_sites(a) for a in t[2]))
    if k == 'mem':
        ws = tuple((strip_sites(w[1]), strip_sites(w[2])) for w in t[3])
        return ('mem', strip_sites(t[2]), ws, strip_sites(t[4]))
    if k == 'phi':
        return ('phi', tuple(sorted((strip_sites(x[1]) for x in t[1]), key=str)))
    return tuple(strip_sites(x) for x in t)


def unref(t):
    """strip references to immutable cells / promoteds: &&x -> x"""
    while isinstance(t, tuple) and t and t[0] == 'addr' and t[1][0] in ('cell', 'promoted') and not t[2]:
        t = t[1][1] if t[1][0] == 'cell' else t[1][2]
    return t


def walk(t):
    """all sub-terms (pre-order)"""
    yield t
    if isinstance(t, tuple):
        for x in t:
            if isinstance(x, tuple):
                yield from walk(x)


def contains(t, pred):
    for s in walk(t):
        if pred(s):
            return True
    return False


def subst_params(t, argmap):
    """replace ('param', i) by argmap[i] (callee summary instantiation)"""
    if not isinstance(t, tuple) or not t:
        return t
    if t[0] == 'param' and len(t) == 2 and t[1] in argmap:
        return argmap[t[1]]
    if t[0] == 'load' and isinstance(t[1], tuple) and t[1][:1] == ('param',) and t[1][1] in argmap:
        base = argmap[t[1][1]]
        path = tuple(subst_params(p, argmap) for p in t[2])
        if base[0] == 'addr':
            # cannot load without the caller's point: keep symbolic
            return ('load', base, path)
        return ('load', base, path)
    return tuple(subst_params(x, argmap) for x in t)


def bytes_of(t):
    """bytes of a constant byte-string term (through promoted refs), else None"""
    if not isinstance(t, tuple):
        return None
    if t[0] == 'const' and isinstance(t[2], tuple) and t[2][0] == 'bytes':
        return bytes.fromhex(t[2][1])
    if t[0] == 'addr' and t[1][0] == 'promoted' and not t[2]:
        return bytes_of(t[1][2])
    if t[0] == 'addr' and t[1][0] == 'cell' and not t[2]:
        return bytes_of(t[1][1])
    if t[0] == 'load' and not t[2]:
        return bytes_of(t[1])
    if t[0] == 'agg' and t[1] == 'array':
        bs = []
        for f in t[3]:
            if f[0] == 'const' and isinstance(f[2], int):
                bs.append(f[2])
            else:
                return None
        return bytes(bs)
    if t[0] == 'repeat' and t[1][0] == 'const' and isinstance(t[1][2], int) and isinstance(t[2], int):
        return bytes([t[1][2]]) * t[2]
    return None


def pp(t, depth=0):
    """compact human-readable rendering of a term"""
    from .tyutil import short_ty
    return short_ty(_pp(t, depth))


def _pp(t, depth=0):
    if not isinstance(t, tuple):
        return str(t)
    if not t:
        return '()'
    k = t[0]
    if depth > 12:
        return '…'
    d = depth + 1
    if k == 'param':
        return 'p%d' % t[1]
    if k == 'const':
        v = t[2]
        if isinstance(v, tuple):
            if v[0] == 'bytes':
                try:
                    return 'b"%s"' % bytes.fromhex(v[1]).decode('ascii')
                except Exception:
                    return 'hex:' + v[1]
            if v[0] == 'zst':
                return 'zst<%s>' % t[1]
            return str(v[1])
        return '%s_%s' % (v, t[1])
    if k == 'aconst':
        return t[4]
    if k == 'fn':
        return 'fn:' + t[1]
    if k == 'closure':
        return 'closure:%s[%s]' % (t[1], ', '.join(pp(x, d) for x in t[2]))
    if k == 'addr':
        b = t[1]
        if b[0] == 'local':
            bs = '_%d' % b[1]
        elif b[0] == 'pointee':
            bs = '*' + pp(b[1], d)
        elif b[0] == 'cell':
            bs = 'cell(%s)' % pp(b[1], d)
        else:
            bs = 'promoted(%s)' % pp(b[2], d)
        return '&%s%s%s' % ('mut ' if t[3] else '', bs, pp_path(t[2], d))
    if k == 'load':
        return '(*%s)%s' % (pp(t[1], d), pp_path(t[2], d))
    if k == 'call':
        return '%s(%s)' % (t[1], ', '.join(pp(a, d) for a in t[2]))
    if k == 'agg':
        return '%s{%s}' % (t[2], ', '.join(pp(a, d) for a in t[3]))
    if k == 'mem' and len(t) == 4:
        ws = '; '.join('%s<-%s' % (pp_path(w[0], d) if w[0] is not None else '?', pp_w(w[1], d)) for w in t[2])
        return 'mem(%s%s | %s)' % (pp(t[1], d), pp_path(t[3], d), ws)
    if k == 'mem':
        ws = '; '.join('%s<-%s' % (pp_path(w[1], d) if w[1] is not None else '?', pp_w(w[2], d)) for w in t[3])
        return 'mem(_%d%s = %s | %s)' % (t[1], pp_path(t[4], d), pp(t[2], d), ws)
    if k == 'phi':
        return 'phi(%s)' % ' | '.join(pp(x[1], d) for x in t[1])
    if k in ('field', 'variant'):
        return '%s.%s' % (pp(t[2], d), t[1])
    if k == 'bin':
        return '%s(%s, %s)' % (t[1], pp(t[2], d), pp(t[3], d))
    if k == 'len':
        return 'len(%s)' % pp(t[1], d)
    return '%s(%s)' % (k, ', '.join(pp(x, d) for x in t[1:]))


def pp_path(path, d=0):
    if path is None:
        return '.?'
    s = ''
    for e in path:
        if e[0] == 'f':
            s += '.' + str(e[1])
        elif e[0] == 'v':
            s += ' as ' + e[1]
        elif e[0] == 'i':
            s += '[%s]' % pp(e[1], d)
        elif e[0] == 'slice':
            s += '[%s..%s]' % (pp(e[1], d) if e[1] is not None else '', pp(e[2], d) if e[2] is not None else '')
        else:
            s += '<%s>' % str(e[0])
    return s


def pp_w(desc, d=0):
    if desc[0] == 'store':
        return 'store ' + pp(desc[1], d)
    if desc[0] == 'call':
        return '%s(%s)#%s' % (desc[1], ', '.join(pp(a, d) for a in desc[2]), desc[3])
    if desc[0] == 'call?':
        return '%s(%s)#?' % (desc[1], ', '.join(pp(a, d) for a in desc[2]))
    return str(desc[0])
