"""Normalisations of the fact document applied before any rule runs, so that rules do not depend on spelling choices
that cannot change behaviour.

N1 canonical names of the algorithm parameters: in every item (body, impl, ADT) the generic parameter bounded by
   aead::Aead is called `A`, the one bounded by kdf::Kdf `Kdf`, the one bounded by kem::Kem `Kem` — whatever the source
   calls them (`impl<Alg: Aead> …`, `ExporterSecret<K: Kdf>`).  Body keys are renamed consistently everywhere."""
import json
import re

CANON = {'aead::Aead': 'A', 'kdf::Kdf': 'Kdf', 'kem::Kem': 'Kem'}


def _item_map(bounds):
    """{source name: canonical name} for one item, from {param: [trait paths]}"""
    if not bounds:
        return {}
    targets = {}
    for name, trs in bounds.items():
        t = sorted({CANON[x] for x in trs if x in CANON})
        if len(t) == 1:
            targets.setdefault(t[0], []).append(name)
    m = {}
    for can, names in targets.items():
        if len(names) != 1 or names[0] == can:
            continue
        if can in bounds:          # the canonical name is taken by another parameter of this item: leave the item alone
            return {}
        m[names[0]] = can
    return m


def _rename_json(obj, m):
    if not m:
        return obj
    gb = obj.pop('generic_bounds', None) if isinstance(obj, dict) else None
    s = json.dumps(obj, separators=(',', ':'))
    if gb is not None:
        obj['generic_bounds'] = gb
    for src, dst in m.items():
        if ('"%s":' % src) in s:      # would hit a structural key of the document: do not touch this item
            return obj
        s = re.sub(r'(?<![\w:])' + re.escape(src) + r'(?![\w])', dst, s)
    out = json.loads(s)
    if gb is not None:
        out['generic_bounds'] = {m.get(k, k): v for k, v in gb.items()}
    return out


def _rename_str(x, m):
    for src, dst in m.items():
        x = re.sub(r'(?<![\w:])' + re.escape(src) + r'(?![\w])', dst, x)
    return x


def canonicalize_generics(doc):
    bodies = doc.get('bodies', [])
    by_key = {b['key']: b for b in bodies}
    keymap = {}
    renamed = 0

    def root_map(b):
        seen = 0
        while b is not None and 'generic_bounds' not in b and b.get('parent') and seen < 8:
            b = by_key.get(b['parent'])
            seen += 1
        return _item_map(b.get('generic_bounds')) if b else {}
    maps = [root_map(b) for b in bodies]
    for i, b in enumerate(bodies):
        m = maps[i]
        if m:
            old = b['key']
            nb = _rename_json(b, m)
            bodies[i] = nb
            if nb['key'] != old:
                keymap[old] = nb['key']
            renamed += 1
    for i, im in enumerate(doc.get('impls', [])):
        m = _item_map(im.get('generic_bounds'))
        if m:
            doc['impls'][i] = _rename_json(im, m)
            renamed += 1
    for i, a in enumerate(doc.get('adts', [])):
        m = _item_map(a.get('generic_bounds'))
        if m:
            doc['adts'][i] = _rename_json(a, m)
            renamed += 1
    # references to renamed bodies from other items (callee keys, closure parents, drop keys)
    if keymap:
        def fix(x):
            if isinstance(x, dict):
                for k, v in list(x.items()):
                    if isinstance(v, str):
                        if v in keymap and k in ('key', 'parent', 'closure', 'drop_key', 'path', 'path_args', 'text'):
                            x[k] = keymap[v]
                    else:
                        fix(v)
            elif isinstance(x, list):
                for v in x:
                    fix(v)
        fix(doc)
    doc.setdefault('meta', {})['canonicalized_items'] = renamed
    return doc


# ======================================================================================================================
# N2 private helper functions that did not exist on the pinned tree are transparent: a helper that was only renamed is
#    given its pinned name back (unique match on module + signature), any other new private fn is inlined into its
#    callers (MIR-level inlining on the fact document) and dropped as a body of its own.
import copy
import os

PINNED = os.path.join(os.path.dirname(os.path.dirname(os.path.dirname(os.path.abspath(__file__)))), 'fixtures', 'pinned_bodies.json')
_pinned_cache = None


def pinned_keys():
    global _pinned_cache
    if _pinned_cache is None:
        try:
            with open(PINNED) as f:
                _pinned_cache = json.load(f)
        except OSError:
            _pinned_cache = {}
    return _pinned_cache


def _module_of(key):
    k = re.sub(r'<[^<>]*>', '', key)
    k = re.sub(r'<[^<>]*>', '', k)
    return k.rsplit('::', 1)[0] if '::' in k else ''


def _is_plain_fn(b):
    return b.get('kind') in ('Fn', 'AssocFn') and not (b.get('impl_of') or {}).get('trait') and not b.get('default_of')


def _callee_key(t):
    f = t.get('func') or {}
    fn = f.get('fn') if f.get('k') == 'const' else None
    if not fn or not fn.get('local'):
        return None, None
    r = fn.get('resolved') or {}
    return (r.get('key') if r.get('local') else None) or fn.get('key'), fn


def _remap(x, lmap, bmap, pmap, inl):
    """deep copy of a callee construct with locals / block indices / promoted indices remapped"""
    if isinstance(x, list):
        return [_remap(v, lmap, bmap, pmap, inl) for v in x]
    if not isinstance(x, dict):
        return x
    out = {}
    is_place = 'l' in x and 'p' in x and isinstance(x.get('l'), int)
    for k, v in x.items():
        if is_place and k == 'l':
            out[k] = lmap(v)
        elif k == 'index' and isinstance(v, int) and len(x) == 1:
            out[k] = lmap(v)
        elif k == 'promoted' and isinstance(v, int) and x.get('k') == 'const':
            out[k] = pmap(v)
        else:
            out[k] = _remap(v, lmap, bmap, pmap, inl)
    return out


def _remap_term(t, lmap, bmap, pmap, inl, call_unwind):
    t = _remap(t, lmap, bmap, pmap, inl)
    k = t.get('k')
    if 'target' in t and isinstance(t['target'], int):
        t['target'] = bmap(t['target'])
    if k == 'switch':
        t['targets'] = [[v, bmap(b)] for v, b in t['targets']]
        t['otherwise'] = bmap(t['otherwise'])
    if 'unwind' in t:
        if isinstance(t['unwind'], int):
            t['unwind'] = bmap(t['unwind'])
        elif t['unwind'] == 'continue':
            t['unwind'] = call_unwind
    if k == 'assert' and isinstance(t.get('target'), int):
        pass
    if k == 'resume' and isinstance(call_unwind, int):
        t = {'k': 'goto', 'target': call_unwind, 'line': t.get('line')}
    return t


_TYPE_FIELDS = {'ty', 'ty_raw', 'arg_tys', 'dest_ty', 'generic_args', 'self_ty', 'impl_self_ty', 'path_args', 'text', 'uneval', 'uneval_self',
                'adt_args', 'from_ty', 'lty', 'place_ty', 'discr_ty', 'elem_ty', 'tyconst', 'opaque'}
_PROJ_RX = re.compile(r'<([\w:]+) as ([\w:]+)>::(\w+)')


def _subst_types(obj, tmap, doc=None):
    """instantiate the callee's generic parameters in every *type-valued* field (never in def paths / keys of callees,
    whose own `T`s are somebody else's); projections on the now concrete types are resolved through the impl table"""
    if not tmap:
        return obj
    rxs = [(re.compile(r'(?<![\w:])' + re.escape(src) + r'(?![\w])'), '@@TYPARAM%d@@' % i, dst) for i, (src, dst) in enumerate(tmap.items())]
    impls = (doc or {}).get('impls', [])

    def proj(m):
        ty, tr, name = m.group(1), m.group(2), m.group(3)
        for im in impls:
            if im.get('self_ty') == ty and (im.get('trait_def') == tr or (im.get('trait') or '').split('<')[0] == tr):
                t = (im.get('types') or {}).get(name)
                if t and t.get('ty'):
                    return t['ty']
        return m.group(0)

    def sub(x):
        for rx, mark, dst in rxs:
            x = rx.sub(mark, x)
        for rx, mark, dst in rxs:
            x = x.replace(mark, dst)
        for _ in range(3):
            y = _PROJ_RX.sub(proj, x)
            if y == x:
                break
            x = y
        return x

    def walk(x, typed):
        if isinstance(x, str):
            return sub(x) if typed else x
        if isinstance(x, list):
            return [walk(v, typed) for v in x]
        if isinstance(x, dict):
            return {k: walk(v, typed or k in _TYPE_FIELDS) if not (k in ('path', 'key', 'name', 'crate', 'k', 'f', 'adt', 'variant', 'op', 'cast')) else v
                    for k, v in x.items()}
        return x
    return walk(obj, False)


def inline_call(caller, bi, callee, doc=None):
    """inline the call terminating block bi of `caller` (raw body dicts); returns False if the shape is not supported"""
    blk = caller['blocks'][bi]
    t = blk['term']
    key, fn = _callee_key(t)
    n = callee['arg_count']
    if len(t['args']) != n:
        return False          # rust-call ABI (closures) is not inlined
    gens = [g for g in (callee.get('generics') or []) if not g.startswith("'")]
    gargs = [g for g in (fn.get('generic_args') or []) if not g.startswith("'")]
    tmap = {}
    if len(gens) == len(gargs):
        tmap = {g: a for g, a in zip(gens, gargs) if g != a}
    elif gens:
        return False
    body = {'locals': callee['locals'], 'blocks': callee['blocks'], 'debug': callee.get('debug', [])}
    body = _subst_types(copy.deepcopy(body), tmap, doc)
    base_l = len(caller['locals'])
    base_b = len(caller['blocks'])
    base_p = len(caller.get('promoted') or [])
    lmap = lambda l: l + base_l
    bmap = lambda b: b + base_b
    pmap = lambda p: p + base_p
    inl = callee['key']
    call_unwind = t.get('unwind', 'continue')
    for d in body['locals']:
        d = dict(d)
        d['inl'] = inl
        caller['locals'].append(d)
    for dbg in body['debug']:
        caller.setdefault('debug', []).append(_remap(dict(dbg, arg=None), lmap, bmap, pmap, inl))
    for p in (callee.get('promoted') or []):
        caller.setdefault('promoted', []).append(_subst_types(copy.deepcopy(p), tmap, doc))
    line = t.get('line')
    # pass the arguments
    for i, a in enumerate(t['args']):
        blk['stmts'].append({'k': 'assign', 'place': {'l': lmap(i + 1), 'p': []}, 'rv': {'k': 'use', 'op': a}, 'line': line, 'exp': t.get('exp', False), 'inl_arg': inl})
    target = t.get('target')
    dest = t['dest']
    for cb in body['blocks']:
        nb = {'cleanup': cb['cleanup'], 'inl': inl,
              'stmts': [_remap(s, lmap, bmap, pmap, inl) for s in cb['stmts']]}
        ct = cb['term']
        if ct['k'] == 'return':
            if target is None:
                nb['term'] = {'k': 'unreachable', 'line': ct.get('line')}
            else:
                nb['stmts'].append({'k': 'assign', 'place': dest, 'rv': {'k': 'use', 'op': {'k': 'move', 'place': {'l': lmap(0), 'p': []}}},
                                    'line': line, 'exp': t.get('exp', False), 'inl_ret': inl})
                nb['term'] = {'k': 'goto', 'target': target, 'line': ct.get('line')}
        else:
            nb['term'] = _remap_term(ct, lmap, bmap, pmap, inl, call_unwind)
        caller['blocks'].append(nb)
    blk['term'] = {'k': 'goto', 'target': base_b, 'line': line, 'inl_call': inl}
    caller.setdefault('inlined', []).append(inl)
    return True


def _calls_of(b):
    out = []
    for bi, blk in enumerate(b['blocks']):
        t = blk['term']
        if t.get('k') == 'call':
            k, fn = _callee_key(t)
            if k:
                out.append((bi, k))
    return out


def _mentions_fn_value(doc, key):
    """is the function used as a value (fn item passed around) anywhere?"""
    needle = '"key":"%s"' % key.replace('"', '\\"')
    for b in doc['bodies']:
        for blk in b['blocks']:
            for st in blk['stmts']:
                if needle in json.dumps(st, separators=(',', ':')):
                    return True
            t = blk['term']
            if t.get('k') == 'call':
                for a in t['args']:
                    if needle in json.dumps(a, separators=(',', ':')):
                        return True
    return False


def transparent_helpers(doc):
    pinned = pinned_keys()
    crate = (doc.get('meta') or {}).get('crate', 'hpke')
    known = set(pinned.get(crate, []))
    if not known:
        return doc
    bodies = doc['bodies']
    by_key = {b['key']: b for b in bodies}
    new = [b for b in bodies if b['key'] not in known and _is_plain_fn(b) and not b.get('exported') and not b.get('reachable')]
    info = {'renamed': {}, 'inlined': {}}
    if not new:
        doc['meta']['helpers'] = info
        return doc
    # (a) renames: a pinned private fn that is gone and exactly one new fn in the same module with the same signature
    missing = [k for k in known if k not in by_key and '{closure' not in k and '::promoted' not in k]
    psigs = pinned.get(crate + ':sigs', {})
    keymap = {}
    for mk in missing:
        ms = psigs.get(mk)
        if ms is None:
            continue
        cands = [b for b in new if _module_of(b['key']) == _module_of(mk) and json.dumps(b.get('sig'), sort_keys=True) == json.dumps(ms, sort_keys=True)
                 and b['key'] not in keymap]
        if len(cands) == 1:
            keymap[cands[0]['key']] = mk
    if keymap:
        full = dict(keymap)
        for b in bodies:
            for old, newk in keymap.items():
                if b['key'].startswith(old + '::{closure'):
                    full[b['key']] = newk + b['key'][len(old):]
        s = json.dumps(doc['bodies'], separators=(',', ':'))
        for old, newk in sorted(full.items(), key=lambda kv: -len(kv[0])):
            o, n_ = json.dumps(old)[1:-1], json.dumps(newk)[1:-1]
            for fld in ('key', 'parent', 'closure', 'def_path', 'path', 'path_args', 'text', 'drop_key'):
                s = s.replace('"%s":"%s"' % (fld, o), '"%s":"%s"' % (fld, n_))
        doc['bodies'] = bodies = json.loads(s)
        by_key = {b['key']: b for b in bodies}
        info['renamed'] = keymap
        new = [b for b in bodies if b['key'] not in known and _is_plain_fn(b) and not b.get('exported') and not b.get('reachable')]
    # (b) inline the remaining new private fns, leaves first
    newkeys = {b['key'] for b in new}
    # drop recursive ones
    graph = {k: {c for _, c in _calls_of(by_key[k]) if c in newkeys} for k in newkeys}

    def reaches(a, b, seen):
        for c in graph.get(a, ()):
            if c == b or (c not in seen and not seen.add(c) and reaches(c, b, seen)):
                return True
        return False
    inl = {k for k in newkeys if not reaches(k, k, set())}
    done = set()
    order = []
    while len(order) < len(inl):
        prog = False
        for k in sorted(inl):
            if k not in done and all(c in done or c not in inl for c in graph[k]):
                order.append(k)
                done.add(k)
                prog = True
        if not prog:
            break
    failed = set()
    for k in order:
        callee = by_key[k]
        for b in bodies:
            if b is callee:
                continue
            changed = True
            guard = 0
            while changed and guard < 64:
                changed = False
                guard += 1
                for bi, ck in _calls_of(b):
                    if ck == k:
                        if inline_call(b, bi, callee, doc):
                            info['inlined'].setdefault(k, []).append(b['key'])
                            changed = True
                            break
                        else:
                            failed.add(k)
                            changed = False
                            break
    # helpers that were inlined everywhere are no bodies of their own any more
    gone = set()
    for k in order:
        if k in failed:
            continue
        still = any(ck == k for b in bodies if b['key'] != k for _, ck in _calls_of(b))
        if not still and k in info['inlined'] and not _mentions_fn_value(doc, k):
            gone.add(k)
    if gone:
        doc['bodies'] = [b for b in bodies if b['key'] not in gone]
    info['dropped'] = sorted(gone)
    doc['meta']['helpers'] = info
    return doc
