"""Normalisations of the fact document applied before any rule runs, so that rules do not depend on spelling choices
that cannot change behaviour.

N1 canonical names of the algorithm parameters: in every item (body, impl, ADT) the generic parameter bounded by
   aead::Aead is called `A`, the one bounded by kdf::Kdf `Kdf`, the one bounded by kem::Kem `Kem` — whatever the source
   calls them (`impl<Alg: Aead> …`, `ExporterSecret<K: Kdf>`).  Body keys are renamed consistently everywhere."""
import json
import re

CANON = {'aead::Aead': 'A', 'kdf::Kdf': 'Kdf', 'kem::Kem': 'Kem'}


def _item_map(bounds):
    """{source name: canonical name} for one item, from {param: [trait paths]}"""
    if not bounds:
        return {}
    targets = {}
    for name, trs in bounds.items():
        t = sorted({CANON[x] for x in trs if x in CANON})
        if len(t) == 1:
            targets.setdefault(t[0], []).append(name)
    m = {}
    for can, names in targets.items():
        if len(names) != 1 or names[0] == can:
            continue
        if can in bounds:          # the canonical name is taken by another parameter of this item: leave the item alone
            return {}
        m[names[0]] = can
    return m


def _rename_json(obj, m):
    if not m:
        return obj
    gb = obj.pop('generic_bounds', None) if isinstance(obj, dict) else None
    s = json.dumps(obj, separators=(',', ':'))
    if gb is not None:
        obj['generic_bounds'] = gb
    for src, dst in m.items():
        if ('"%s":' % src) in s:      # would hit a structural key of the document: do not touch this item
            return obj
        s = re.sub(r'(?<![\w:])' + re.escape(src) + r'(?![\w])', dst, s)
    out = json.loads(s)
    if gb is not None:
        out['generic_bounds'] = {m.get(k, k): v for k, v in gb.items()}
    return out


def _rename_str(x, m):
    for src, dst in m.items():
        x = re.sub(r'(?<![\w:])' + re.escape(src) + r'(?![\w])', dst, x)
    return x


_LIFETIME_RX = re.compile(r"'(?!static\b)(?!_\b)[A-Za-z_][A-Za-z0-9_]*\b(?!')")


def _anonymise_lifetimes(doc):
    """named lifetimes carry no behaviour: `impl<'a, Kem> OpModeR<'a, Kem>` and `impl<Kem> OpModeR<'_, Kem>` are one item"""
    out = {}
    for k in ('bodies', 'impls', 'adts', 'api', 'traits', 'consts', 'statics'):
        if k in doc:
            s = json.dumps(doc[k], separators=(',', ':'))
            s2 = _LIFETIME_RX.sub("'_", s)
            doc[k] = json.loads(s2) if s2 != s else doc[k]
    return doc


def canonicalize_generics(doc):
    doc = _anonymise_lifetimes(doc)
    bodies = doc.get('bodies', [])
    by_key = {b['key']: b for b in bodies}
    keymap = {}
    renamed = 0

    def root_map(b):
        seen = 0
        while b is not None and 'generic_bounds' not in b and b.get('parent') and seen < 8:
            b = by_key.get(b['parent'])
            seen += 1
        return _item_map(b.get('generic_bounds')) if b else {}
    maps = [root_map(b) for b in bodies]
    for i, b in enumerate(bodies):
        m = maps[i]
        if m:
            old = b['key']
            nb = _rename_json(b, m)
            bodies[i] = nb
            if nb['key'] != old:
                keymap[old] = nb['key']
            renamed += 1
    for i, im in enumerate(doc.get('impls', [])):
        m = _item_map(im.get('generic_bounds'))
        if m:
            doc['impls'][i] = _rename_json(im, m)
            renamed += 1
    for i, a in enumerate(doc.get('adts', [])):
        m = _item_map(a.get('generic_bounds'))
        if m:
            doc['adts'][i] = _rename_json(a, m)
            renamed += 1
    # references to renamed bodies from other items (callee keys, closure parents, drop keys)
    if keymap:
        def fix(x):
            if isinstance(x, dict):
                for k, v in list(x.items()):
                    if isinstance(v, str):
                        if v in keymap and k in ('key', 'parent', 'closure', 'drop_key', 'path', 'path_args', 'text'):
                            x[k] = keymap[v]
                    else:
                        fix(v)
            elif isinstance(x, list):
                for v in x:
                    fix(v)
        fix(doc)
    doc.setdefault('meta', {})['canonicalized_items'] = renamed
    return doc


# ======================================================================================================================
# N2 private helper functions that did not exist on the pinned tree are transparent: a helper that was only renamed is
#    given its pinned name back (unique match on module + signature), any other new private fn is inlined into its
#    callers (MIR-level inlining on the fact document) and dropped as a body of its own.
import copy
import os

PINNED = os.path.join(os.path.dirname(os.path.dirname(os.path.dirname(os.path.abspath(__file__)))), 'fixtures', 'pinned_bodies.json')
_pinned_cache = None


def pinned_keys():
    global _pinned_cache
    if _pinned_cache is None:
        try:
            with open(PINNED) as f:
                _pinned_cache = json.load(f)
        except OSError:
            _pinned_cache = {}
    return _pinned_cache


def _module_of(key):
    k = re.sub(r'<[^<>]*>', '', key)
    k = re.sub(r'<[^<>]*>', '', k)
    return k.rsplit('::', 1)[0] if '::' in k else ''


def _is_plain_fn(b):
    return b.get('kind') in ('Fn', 'AssocFn') and not (b.get('impl_of') or {}).get('trait') and not b.get('default_of')


def _callee_key(t):
    f = t.get('func') or {}
    fn = f.get('fn') if f.get('k') == 'const' else None
    if not fn or not fn.get('local'):
        return None, None
    r = fn.get('resolved') or {}
    return (r.get('key') if r.get('local') else None) or fn.get('key'), fn


def _remap(x, lmap, bmap, pmap, inl):
    """deep copy of a callee construct with locals / block indices / promoted indices remapped"""
    if isinstance(x, list):
        return [_remap(v, lmap, bmap, pmap, inl) for v in x]
    if not isinstance(x, dict):
        return x
    out = {}
    is_place = 'l' in x and 'p' in x and isinstance(x.get('l'), int)
    for k, v in x.items():
        if is_place and k == 'l':
            out[k] = lmap(v)
        elif k == 'index' and isinstance(v, int) and len(x) == 1:
            out[k] = lmap(v)
        elif k == 'promoted' and isinstance(v, int) and x.get('k') == 'const':
            out[k] = pmap(v)
        else:
            out[k] = _remap(v, lmap, bmap, pmap, inl)
    return out


def _remap_term(t, lmap, bmap, pmap, inl, call_unwind):
    t = _remap(t, lmap, bmap, pmap, inl)
    k = t.get('k')
    if 'target' in t and isinstance(t['target'], int):
        t['target'] = bmap(t['target'])
    if k == 'switch':
        t['targets'] = [[v, bmap(b)] for v, b in t['targets']]
        t['otherwise'] = bmap(t['otherwise'])
    if 'unwind' in t:
        if isinstance(t['unwind'], int):
            t['unwind'] = bmap(t['unwind'])
        elif t['unwind'] == 'continue':
            t['unwind'] = call_unwind
    if k == 'assert' and isinstance(t.get('target'), int):
        pass
    if k == 'resume' and isinstance(call_unwind, int):
        t = {'k': 'goto', 'target': call_unwind, 'line': t.get('line')}
    return t


_TYPE_FIELDS = {'ty', 'ty_raw', 'arg_tys', 'dest_ty', 'generic_args', 'self_ty', 'impl_self_ty', 'path_args', 'text', 'uneval', 'uneval_self',
                'adt_args', 'from_ty', 'lty', 'place_ty', 'discr_ty', 'elem_ty', 'tyconst', 'opaque'}
_PROJ_RX = re.compile(r'<([\w:]+) as ([\w:]+)>::(\w+)')


def _subst_types(obj, tmap, doc=None):
    """instantiate the callee's generic parameters in every *type-valued* field (never in def paths / keys of callees,
    whose own `T`s are somebody else's); projections on the now concrete types are resolved through the impl table"""
    if not tmap:
        return obj
    rxs = [(re.compile(r'(?<![\w:])' + re.escape(src) + r'(?![\w])'), '@@TYPARAM%d@@' % i, dst) for i, (src, dst) in enumerate(tmap.items())]
    impls = (doc or {}).get('impls', [])

    def proj(m):
        ty, tr, name = m.group(1), m.group(2), m.group(3)
        for im in impls:
            if im.get('self_ty') == ty and (im.get('trait_def') == tr or (im.get('trait') or '').split('<')[0] == tr):
                t = (im.get('types') or {}).get(name)
                if t and t.get('ty'):
                    return t['ty']
        return m.group(0)

    def sub(x):
        for rx, mark, dst in rxs:
            x = rx.sub(mark, x)
        for rx, mark, dst in rxs:
            x = x.replace(mark, dst)
        for _ in range(3):
            y = _PROJ_RX.sub(proj, x)
            if y == x:
                break
            x = y
        return x

    def walk(x, typed):
        if isinstance(x, str):
            return sub(x) if typed else x
        if isinstance(x, list):
            return [walk(v, typed) for v in x]
        if isinstance(x, dict):
            out = {k: walk(v, typed or k in _TYPE_FIELDS) if not (k in ('path', 'key', 'name', 'crate', 'k', 'f', 'adt', 'variant', 'op', 'cast') and isinstance(v, str)) else v
                   for k, v in x.items()}
            if out.get('k') == 'repeat' and isinstance(out.get('n'), str):
                # `[x; N]` with N a const generic parameter of the inlined callee
                nn = sub(out['n'])
                mm = re.match(r'^(\d+)(_usize)?$', nn.strip())
                out['n'] = int(mm.group(1)) if mm else nn
            return out
        return x
    return walk(obj, False)


def inline_call(caller, bi, callee, doc=None):
    """inline the call terminating block bi of `caller` (raw body dicts); returns False if the shape is not supported"""
    blk = caller['blocks'][bi]
    t = blk['term']
    key, fn = _callee_key(t)
    n = callee['arg_count']
    if len(t['args']) != n:
        return False          # rust-call ABI (closures) is not inlined
    gens = [g for g in (callee.get('generics') or []) if not g.startswith("'")]
    gargs = [g for g in (fn.get('generic_args') or []) if not g.startswith("'")]
    tmap = {}
    if fn.get('subst_map'):
        tmap = dict(fn['subst_map'])          # a closure inlined into an instantiated copy of its parent
    elif len(gens) == len(gargs):
        tmap = {g: a for g, a in zip(gens, gargs) if g != a}
    elif gens:
        return False
    body = {'locals': callee['locals'], 'blocks': callee['blocks'], 'debug': callee.get('debug', [])}
    body = _subst_types(copy.deepcopy(body), tmap, doc)
    if tmap:
        # closures built inside the inlined body inherit its generic parameters: remember what they stand for here
        for cb_ in body['blocks']:
            for st_ in cb_['stmts']:
                if st_.get('k') == 'assign' and st_['rv'].get('k') == 'aggregate' and st_['rv'].get('agg') == 'closure':
                    m_ = dict(st_['rv'].get('parent_substs') or {})
                    m_.update(tmap)
                    st_['rv']['parent_substs'] = m_
    base_l = len(caller['locals'])
    base_b = len(caller['blocks'])
    base_p = len(caller.get('promoted') or [])
    lmap = lambda l: l + base_l
    bmap = lambda b: b + base_b
    pmap = lambda p: p + base_p
    inl = callee['key']
    call_unwind = t.get('unwind', 'continue')
    for d in body['locals']:
        d = dict(d)
        d['inl'] = inl
        caller['locals'].append(d)
    for dbg in body['debug']:
        caller.setdefault('debug', []).append(_remap(dict(dbg, arg=None), lmap, bmap, pmap, inl))
    for p in (callee.get('promoted') or []):
        caller.setdefault('promoted', []).append(_subst_types(copy.deepcopy(p), tmap, doc))
    line = t.get('line')
    # pass the arguments
    for i, a in enumerate(t['args']):
        blk['stmts'].append({'k': 'assign', 'place': {'l': lmap(i + 1), 'p': []}, 'rv': {'k': 'use', 'op': a}, 'line': line, 'exp': t.get('exp', False), 'inl_arg': inl})
    target = t.get('target')
    dest = t['dest']
    for cb in body['blocks']:
        nb = {'cleanup': cb['cleanup'], 'inl': inl,
              'stmts': [_remap(s, lmap, bmap, pmap, inl) for s in cb['stmts']]}
        ct = cb['term']
        if ct['k'] == 'return':
            if target is None:
                nb['term'] = {'k': 'unreachable', 'line': ct.get('line')}
            else:
                nb['stmts'].append({'k': 'assign', 'place': dest, 'rv': {'k': 'use', 'op': {'k': 'move', 'place': {'l': lmap(0), 'p': []}}},
                                    'line': line, 'exp': t.get('exp', False), 'inl_ret': inl})
                nb['term'] = {'k': 'goto', 'target': target, 'line': ct.get('line')}
        else:
            nb['term'] = _remap_term(ct, lmap, bmap, pmap, inl, call_unwind)
        caller['blocks'].append(nb)
    blk['term'] = {'k': 'goto', 'target': base_b, 'line': line, 'inl_call': inl}
    caller.setdefault('inlined', []).append(inl)
    return True


def _calls_of(b):
    out = []
    for bi, blk in enumerate(b['blocks']):
        t = blk['term']
        if t.get('k') == 'call':
            k, fn = _callee_key(t)
            if k:
                out.append((bi, k))
    return out


def _mentions_fn_value(doc, key):
    """is the function used as a value (fn item passed around) anywhere?"""
    needle = '"key":"%s"' % key.replace('"', '\\"')
    for b in doc['bodies']:
        for blk in b['blocks']:
            for st in blk['stmts']:
                if needle in json.dumps(st, separators=(',', ':')):
                    return True
            t = blk['term']
            if t.get('k') == 'call':
                for a in t['args']:
                    if needle in json.dumps(a, separators=(',', ':')):
                        return True
    return False


def transparent_helpers(doc):
    pinned = pinned_keys()
    crate = (doc.get('meta') or {}).get('crate', 'hpke')
    known = set(pinned.get(crate, []))
    if not known:
        return doc
    bodies = doc['bodies']
    by_key = {b['key']: b for b in bodies}
    new = [b for b in bodies if b['key'] not in known and _is_plain_fn(b) and not b.get('exported') and not b.get('reachable')]
    info = {'renamed': {}, 'inlined': {}}
    if not new:
        doc['meta']['helpers'] = info
        return doc
    # (a) renames: a pinned private fn that is gone and exactly one new fn in the same module with the same signature
    missing = [k for k in known if k not in by_key and '{closure' not in k and '::promoted' not in k]
    psigs = pinned.get(crate + ':sigs', {})
    keymap = {}
    for mk in missing:
        ms = psigs.get(mk)
        if ms is None:
            continue
        same_sig = [b for b in new if json.dumps(b.get('sig'), sort_keys=True) == json.dumps(ms, sort_keys=True) and b['key'] not in keymap]
        cands = [b for b in same_sig if _module_of(b['key']) == _module_of(mk)]
        if len(cands) != 1:
            # moved to another module under the same name
            cands = [b for b in same_sig if b['key'].rsplit('::', 1)[-1] == mk.rsplit('::', 1)[-1]]
        if len(cands) == 1:
            keymap[cands[0]['key']] = mk
    if keymap:
        full = dict(keymap)
        for b in bodies:
            for old, newk in keymap.items():
                if b['key'].startswith(old + '::{closure'):
                    full[b['key']] = newk + b['key'][len(old):]
        s = json.dumps(doc['bodies'], separators=(',', ':'))
        for old, newk in sorted(full.items(), key=lambda kv: -len(kv[0])):
            o, n_ = json.dumps(old)[1:-1], json.dumps(newk)[1:-1]
            for fld in ('key', 'parent', 'closure', 'def_path', 'path', 'path_args', 'text', 'drop_key'):
                s = s.replace('"%s":"%s"' % (fld, o), '"%s":"%s"' % (fld, n_))
        doc['bodies'] = bodies = json.loads(s)
        # the callee descriptors of renamed functions also carry the name and the printed path
        back = {v: k for k, v in keymap.items()}

        def fixnames(x):
            if isinstance(x, list):
                for v in x:
                    fixnames(v)
            elif isinstance(x, dict):
                fn = x.get('fn')
                if isinstance(fn, dict) and fn.get('key') in back and fn.get('name'):
                    cur, want = fn['name'], fn['key'].rsplit('::', 1)[-1]
                    if cur != want:
                        for fld in ('path', 'path_args'):
                            if isinstance(fn.get(fld), str) and fn[fld].endswith('::' + cur):
                                fn[fld] = fn[fld][:-len(cur)] + want
                        fn['name'] = want
                        r = fn.get('resolved')
                        if isinstance(r, dict) and isinstance(r.get('path'), str) and r['path'].endswith('::' + cur):
                            r['path'] = r['path'][:-len(cur)] + want
                        if isinstance(x.get('text'), str) and x['text'].endswith('::' + cur):
                            x['text'] = x['text'][:-len(cur)] + want
                for v in x.values():
                    fixnames(v)
        fixnames(bodies)
        by_key = {b['key']: b for b in bodies}
        info['renamed'] = keymap
        new = [b for b in bodies if b['key'] not in known and _is_plain_fn(b) and not b.get('exported') and not b.get('reachable')]
    # (b) inline the remaining new private fns, leaves first
    newkeys = {b['key'] for b in new}
    # drop recursive ones
    graph = {k: {c for _, c in _calls_of(by_key[k]) if c in newkeys} for k in newkeys}

    def reaches(a, b, seen):
        for c in graph.get(a, ()):
            if c == b or (c not in seen and not seen.add(c) and reaches(c, b, seen)):
                return True
        return False
    inl = {k for k in newkeys if not reaches(k, k, set())}
    done = set()
    order = []
    while len(order) < len(inl):
        prog = False
        for k in sorted(inl):
            if k not in done and all(c in done or c not in inl for c in graph[k]):
                order.append(k)
                done.add(k)
                prog = True
        if not prog:
            break
    failed = set()
    for k in order:
        callee = by_key[k]
        for b in bodies:
            if b is callee:
                continue
            changed = True
            guard = 0
            while changed and guard < 64:
                changed = False
                guard += 1
                for bi, ck in _calls_of(b):
                    if ck == k:
                        if inline_call(b, bi, callee, doc):
                            info['inlined'].setdefault(k, []).append(b['key'])
                            changed = True
                            break
                        else:
                            failed.add(k)
                            changed = False
                            break
    # helpers that were inlined everywhere are no bodies of their own any more
    gone = set()
    for k in order:
        if k in failed:
            continue
        still = any(ck == k for b in bodies if b['key'] != k for _, ck in _calls_of(b))
        # inlined everywhere: not a body of its own (a helper that is never called stays: it is dead code the rules still look at)
        if not still and k in info['inlined'] and not _mentions_fn_value(doc, k):
            gone.add(k)
    if gone:
        doc['bodies'] = [b for b in bodies if b['key'] not in gone]
    info['dropped'] = sorted(gone)
    doc['meta']['helpers'] = info
    return doc


# ======================================================================================================================
# N4 one spelling per library operation: `U::from(x)` and `x.into()` are the same conversion (Into is the blanket impl
#    over From), `GenericArray::from_slice(s)` is defined as `s.into()`, `Vec::from(s)` / `s.to_owned()` of a slice are
#    `s.to_vec()`.
def _into_desc(t_from, t_to, old):
    d = dict(old)
    d.update({'path': 'core::convert::Into::into', 'key': 'core::convert::Into::into', 'name': 'into', 'crate': 'core', 'local': False,
              'trait': 'core::convert::Into', 'self_ty': t_from, 'generic_args': [t_from, t_to], 'def_kind': 'AssocFn',
              'path_args': '<%s as core::convert::Into<%s>>::into' % (t_from, t_to), 'orig_path': old.get('path')})
    d.pop('impl_self_ty', None)
    return d


def _to_vec_desc(elem, old):
    return {'path': 'std::slice::<impl [T]>::to_vec', 'path_args': 'std::slice::<impl [%s]>::to_vec' % elem, 'key': '[T]::to_vec', 'crate': 'alloc',
            'local': False, 'name': 'to_vec', 'generic_args': [elem], 'def_kind': 'AssocFn', 'impl_self_ty': '[T]', 'orig_path': old.get('path'),
            'resolved': {'path': 'std::slice::<impl [T]>::to_vec', 'key': '[T]::to_vec', 'local': False, 'crate': 'alloc', 'kind': 'Discriminant(0)', 'desc': 'item'}}


def canonical_apis(doc):
    n = 0
    for b in doc.get('bodies', []):
        for blk in b['blocks']:
            t = blk['term']
            if t.get('k') == 'call' and len(t.get('args', [])) == 2:
                f2 = (t.get('func') or {}).get('fn') or {}
                # dst.clone_from_slice(src) on byte slices is dst.copy_from_slice(src): same length panic, same bytes
                if f2.get('path') == 'core::slice::<impl [T]>::clone_from_slice' and (f2.get('generic_args') or [None])[0] == 'u8' and not f2.get('local'):
                    for k_ in ('path', 'key', 'path_args', 'name'):
                        if isinstance(f2.get(k_), str):
                            f2[k_] = f2[k_].replace('clone_from_slice', 'copy_from_slice')
                    r2 = f2.get('resolved') or {}
                    for k_ in ('path', 'key'):
                        if isinstance(r2.get(k_), str):
                            r2[k_] = r2[k_].replace('clone_from_slice', 'copy_from_slice')
                    n += 1
            if t.get('k') != 'call' or len(t.get('args', [])) != 1:
                continue
            f = t.get('func') or {}
            fn = f.get('fn') if f.get('k') == 'const' else None
            if not fn or fn.get('local'):
                continue
            r = fn.get('resolved') or {}
            src, dst = t['arg_tys'][0], t['dest_ty']
            if r.get('local'):
                # a conversion implemented in this crate keeps its resolved body; only the spelling is unified
                if fn['path'] == 'core::convert::From::from':
                    f['fn'] = _into_desc(src, dst, fn)
                    n += 1
                continue
            new = None
            if fn['path'] == 'core::convert::From::from':
                if dst.startswith(('std::vec::Vec<', 'alloc::vec::Vec<')) and src.startswith('&[') and src.endswith(']'):
                    new = _to_vec_desc(src[2:-1], fn)
                else:
                    new = _into_desc(src, dst, fn)
            elif fn['path'] in ('generic_array::GenericArray::<T, N>::from_slice', 'generic_array::GenericArray::<T, N>::from_mut_slice'):
                new = _into_desc(src, dst, fn)
            elif fn['path'] in ('std::borrow::ToOwned::to_owned', 'alloc::borrow::ToOwned::to_owned') and src.startswith('&[') and dst.startswith(('std::vec::Vec<', 'alloc::vec::Vec<')):
                new = _to_vec_desc(src[2:-1], fn)
            if new is not None:
                f['fn'] = new
                n += 1
    doc.setdefault('meta', {})['canonical_api_calls'] = n
    return doc


# ======================================================================================================================
# N3 `r.map(f)` / `r.and_then(f)` on Result and Option are the `match` they abbreviate: the call is replaced by a branch
#    on the discriminant with `f` applied (constructor: aggregate; closure literal / local fn: body inlined) on the
#    success arm and the failure re-wrapped unchanged on the other.  Control flow hidden inside the library combinator
#    becomes visible to every CFG-based rule (dominance, error identity, pass-through).
_COMBINATORS = {
    'core::result::Result::<T, E>::map': ('result', 'map'),
    'core::result::Result::<T, E>::and_then': ('result', 'and_then'),
    'core::option::Option::<T>::map': ('option', 'map'),
    'core::option::Option::<T>::and_then': ('option', 'and_then'),
    'core::result::Result::<T, E>::map_err': ('result', 'map_err'),
    'core::option::Option::<T>::ok_or': ('option', 'ok_or'),
    'core::result::Result::<T, E>::or': ('result', 'or'),
}
_UNARY_COMBINATORS = {'core::result::Result::<T, E>::ok': 'ok'}


def _agg(adt, variant, vidx, fnames, fields, args=None):
    return {'k': 'aggregate', 'agg': 'adt', 'adt': adt, 'adt_args': args or [], 'variant': variant, 'variant_idx': vidx,
            'field_names': fnames, 'fields': fields}


def _split_top(s):
    """top-level comma split of the inside of `Name<...>`"""
    depth = 0
    out, cur = [], ''
    for ch in s:
        if ch in '<([':
            depth += 1
        elif ch in '>)]':
            depth -= 1
        if ch == ',' and depth == 0:
            out.append(cur.strip())
            cur = ''
        else:
            cur += ch
    if cur.strip():
        out.append(cur.strip())
    return out


def _ty_args(ty):
    i = ty.find('<')
    return _split_top(ty[i + 1:-1]) if i >= 0 and ty.endswith('>') else []


def _applied(b, by_key, fop, _depth=0):
    """what a function-valued operand denotes: ('ctor', fn desc) | ('fn', operand) | ('closure', key, env operand) | None"""
    if fop.get('k') == 'const' and fop.get('fn'):
        ffn = fop['fn']
        if (ffn.get('def_kind') or '').startswith('Ctor('):
            return ('ctor', ffn)
        if ffn.get('local') and ffn.get('key') in by_key and ffn.get('def_kind') in ('Fn', 'AssocFn') and not ffn.get('trait'):
            return ('fn', fop)
        # an inherent function of another crate passed as a value (`.map(u16::to_be_bytes)`): applied as an ordinary call
        if not ffn.get('local') and ffn.get('def_kind') in ('Fn', 'AssocFn') and not ffn.get('trait'):
            return ('extfn', fop)
        return None
    if fop.get('k') == 'const' and fop.get('closure') in by_key:
        return ('closure', fop['closure'], fop)
    if fop.get('k') == 'move' and not fop['place']['p']:
        cl = fop['place']['l']
        defs = [st for bb in b['blocks'] for st in bb['stmts'] if st['k'] == 'assign' and st['place'] == {'l': cl, 'p': []}]
        if len(defs) == 1 and defs[0]['rv']['k'] == 'aggregate' and defs[0]['rv'].get('agg') == 'closure' and defs[0]['rv']['closure'] in by_key:
            return ('closure', defs[0]['rv']['closure'], fop)
        # `f()` on a closure held in a local: Fn::call(&f, ..) / FnMut::call_mut(&mut f, ..) — a reference to the closure value
        if len(defs) == 1 and defs[0]['rv']['k'] == 'ref' and not defs[0]['rv']['place']['p'] and _depth < 4:
            tl = defs[0]['rv']['place']['l']
            tdefs = [st for bb in b['blocks'] for st in bb['stmts'] if st['k'] == 'assign' and st['place'] == {'l': tl, 'p': []}]
            if len(tdefs) == 1 and tdefs[0]['rv']['k'] == 'aggregate' and tdefs[0]['rv'].get('agg') == 'closure' and tdefs[0]['rv']['closure'] in by_key:
                return ('closure', tdefs[0]['rv']['closure'], fop)
        # the closure value handed on through a plain move (parameter of an inlined helper)
        if len(defs) == 1 and defs[0]['rv']['k'] == 'use' and defs[0]['rv']['op'].get('k') == 'move' and not defs[0]['rv']['op']['place']['p'] and _depth < 4:
            r = _applied(b, by_key, defs[0]['rv']['op'], _depth + 1)
            if r is not None and r[0] == 'closure':
                return ('closure', r[1], fop)
    return None


def expand_combinators(doc):
    bodies = doc['bodies']
    by_key = {b['key']: b for b in bodies}
    crate = (doc.get('meta') or {}).get('crate', 'hpke')
    count = 0
    for b in bodies:
        guard = 0
        again = True
        while again and guard < 64:
            again = False
            guard += 1
            for bi, blk in enumerate(b['blocks']):
                t = blk['term']
                if t.get('k') != 'call' or blk.get('cleanup'):
                    continue
                f = t.get('func') or {}
                fn = f.get('fn') if f.get('k') == 'const' else None
                if not fn or fn.get('path') not in _COMBINATORS or len(t['args']) != 2 or t.get('target') is None:
                    continue
                kind, comb = _COMBINATORS[fn['path']]
                x, fop = t['args']
                if x.get('k') != 'move' or x['place']['p'] or t['dest']['p']:
                    continue
                xl = x['place']['l']
                xty, dty = t['arg_tys'][0], t['dest_ty']
                xa, da = _ty_args(xty), _ty_args(dty)
                if kind == 'result' and len(xa) != 2:
                    continue
                if kind == 'option' and len(xa) != 1:
                    continue
                out_is_result = dty.startswith('core::result::Result<')
                if (out_is_result and len(da) != 2) or (not out_is_result and len(da) != 1):
                    continue
                app = None
                if comb not in ('ok_or', 'or'):
                    app = _applied(b, by_key, fop)
                    if app is None:
                        continue
                line = t.get('line')
                L = b['locals']

                def new_local(ty):
                    L.append({'ty': ty, 'ty_raw': ty, 'name': None, 'mut': True, 'synthetic': True})
                    return len(L) - 1

                def mv(l):
                    return {'k': 'move', 'place': {'l': l, 'p': []}}

                def asg(place, rv):
                    return {'k': 'assign', 'place': place, 'rv': rv, 'line': line, 'exp': False, 'syn': comb}
                in_adt = 'core::result::Result' if kind == 'result' else 'core::option::Option'
                out_adt = 'core::result::Result' if out_is_result else 'core::option::Option'
                okv, okidx = ('Ok', 0) if kind == 'result' else ('Some', 1)
                out_ok = ('Ok', 0) if out_is_result else ('Some', 1)
                target = t['target']
                d_l = new_local('isize')
                blocks = b['blocks']
                base = len(blocks)
                # block numbers: succ arm, succ wrap, fail arm, fail wrap
                sa, sw, fa, fw = base, base + 1, base + 2, base + 3
                blk['stmts'].append(asg({'l': d_l, 'p': []}, {'k': 'discriminant', 'place': {'l': xl, 'p': []}}))
                blk['term'] = {'k': 'switch', 'discr': mv(d_l), 'discr_ty': 'isize', 'targets': [[okidx, sa]], 'otherwise': fa,
                               'line': line, 'exp': False, 'syn': comb}

                def apply_block(arg_l, arg_ty, res_l, res_ty, nxt):
                    """a block that computes res_l = F(arg_l) and continues at nxt"""
                    stmts = []
                    if app[0] == 'ctor':
                        ffn = app[1]
                        cpath = ffn.get('ctor_of') or ffn['path']
                        if 'Variant' in ffn['def_kind']:
                            aadt, variant = cpath.rsplit('::', 1)
                            vidx = {'None': 0, 'Some': 1, 'Ok': 0, 'Err': 1}.get(variant, 0)
                        else:
                            aadt, variant, vidx = cpath, cpath.rsplit('::', 1)[-1], 0
                        stmts.append(asg({'l': res_l, 'p': []}, _agg(aadt, variant, vidx, ['0'], [mv(arg_l)], ffn.get('generic_args'))))
                        return {'cleanup': False, 'stmts': stmts, 'term': {'k': 'goto', 'target': nxt, 'line': line}, 'syn': comb}, None
                    if app[0] == 'extfn':
                        func, args, atys, ck = app[1], [mv(arg_l)], [arg_ty], None
                    elif app[0] == 'fn':
                        func, args, atys, ck = app[1], [mv(arg_l)], [arg_ty], app[1]['fn']['key']
                    else:
                        ck = app[1]
                        cb = by_key[ck]
                        env_ty = cb['locals'][1]['ty'] if len(cb['locals']) > 1 else ''
                        envop = app[2]
                        if env_ty.startswith('&') and envop.get('k') == 'move':
                            e_l = new_local(env_ty)
                            stmts.append(asg({'l': e_l, 'p': []}, {'k': 'ref', 'mut': env_ty.startswith('&mut'), 'fake': False, 'place': envop['place']}))
                            envop = mv(e_l)
                        func = {'k': 'const', 'ty': 'closure', 'text': ck,
                                'fn': {'path': ck, 'path_args': ck, 'key': ck, 'crate': crate, 'local': True, 'name': ck.rsplit('::', 1)[-1],
                                       'generic_args': [], 'def_kind': 'Closure',
                                       'resolved': {'path': ck, 'key': ck, 'local': True, 'crate': crate, 'kind': 'closure', 'desc': 'item'}}}
                        args, atys = [envop, mv(arg_l)], [env_ty, arg_ty]
                    term = {'k': 'call', 'func': func, 'args': args, 'arg_tys': atys, 'dest': {'l': res_l, 'p': []}, 'dest_ty': res_ty,
                            'target': nxt, 'unwind': t.get('unwind', 'continue'), 'source': 'Normal', 'line': line, 'fn_line': line, 'exp': False, 'syn': comb}
                    return {'cleanup': False, 'stmts': stmts, 'term': term, 'syn': comb}, ck
                # ---- success arm
                succ_ty = xa[0]
                v_l = new_local(succ_ty)
                payload = {'l': xl, 'p': [{'downcast': okv, 'v': okidx}, {'f': '0', 'i': 0, 'ty': succ_ty, 'adt': in_adt}]}
                take = asg({'l': v_l, 'p': []}, {'k': 'use', 'op': {'k': 'move', 'place': payload}})
                inline_at = []
                if comb in ('map', 'and_then'):
                    res_ty = da[0] if comb == 'map' else dty
                    r_l = new_local(res_ty)
                    ab, ck = apply_block(v_l, succ_ty, r_l, res_ty, sw)
                    ab['stmts'].insert(0, take)
                    blocks.append(ab)
                    if ck:
                        inline_at.append((sa, ck))
                    wrv = _agg(out_adt, out_ok[0], out_ok[1], ['0'], [mv(r_l)], da) if comb == 'map' else {'k': 'use', 'op': mv(r_l)}
                    blocks.append({'cleanup': False, 'stmts': [asg(t['dest'], wrv)], 'term': {'k': 'goto', 'target': target, 'line': line}, 'syn': comb})
                else:   # map_err / ok_or: the success payload is re-wrapped unchanged
                    blocks.append({'cleanup': False, 'stmts': [take, asg(t['dest'], _agg(out_adt, out_ok[0], out_ok[1], ['0'], [mv(v_l)], da))],
                                   'term': {'k': 'goto', 'target': target, 'line': line}, 'syn': comb})
                    blocks.append({'cleanup': False, 'stmts': [], 'term': {'k': 'goto', 'target': target, 'line': line}, 'syn': comb})
                # ---- failure arm
                if comb == 'map_err':
                    e_l = new_local(xa[1])
                    epl = {'l': xl, 'p': [{'downcast': 'Err', 'v': 1}, {'f': '0', 'i': 0, 'ty': xa[1], 'adt': in_adt}]}
                    r2 = new_local(da[1])
                    ab, ck = apply_block(e_l, xa[1], r2, da[1], fw)
                    ab['stmts'].insert(0, asg({'l': e_l, 'p': []}, {'k': 'use', 'op': {'k': 'move', 'place': epl}}))
                    blocks.append(ab)
                    if ck:
                        inline_at.append((fa, ck))
                    blocks.append({'cleanup': False, 'stmts': [asg(t['dest'], _agg(out_adt, 'Err', 1, ['0'], [mv(r2)], da))],
                                   'term': {'k': 'goto', 'target': target, 'line': line}, 'syn': comb})
                elif comb == 'or':
                    # x.or(y): the failure of x is discarded, y is the result
                    blocks.append({'cleanup': False, 'stmts': [asg(t['dest'], {'k': 'use', 'op': fop})],
                                   'term': {'k': 'goto', 'target': target, 'line': line}, 'syn': comb})
                    blocks.append({'cleanup': False, 'stmts': [], 'term': {'k': 'goto', 'target': target, 'line': line}, 'syn': comb})
                elif comb == 'ok_or':
                    blocks.append({'cleanup': False, 'stmts': [asg(t['dest'], _agg(out_adt, 'Err', 1, ['0'], [fop], da))],
                                   'term': {'k': 'goto', 'target': target, 'line': line}, 'syn': comb})
                    blocks.append({'cleanup': False, 'stmts': [], 'term': {'k': 'goto', 'target': target, 'line': line}, 'syn': comb})
                elif kind == 'result':
                    e_l = new_local(xa[1])
                    epl = {'l': xl, 'p': [{'downcast': 'Err', 'v': 1}, {'f': '0', 'i': 0, 'ty': xa[1], 'adt': in_adt}]}
                    blocks.append({'cleanup': False, 'stmts': [asg({'l': e_l, 'p': []}, {'k': 'use', 'op': {'k': 'move', 'place': epl}}),
                                                               asg(t['dest'], _agg(out_adt, 'Err', 1, ['0'], [mv(e_l)], da))],
                                   'term': {'k': 'goto', 'target': target, 'line': line}, 'syn': comb})
                    blocks.append({'cleanup': False, 'stmts': [], 'term': {'k': 'goto', 'target': target, 'line': line}, 'syn': comb})
                else:
                    blocks.append({'cleanup': False, 'stmts': [asg(t['dest'], _agg(out_adt, 'None', 0, [], [], da))],
                                   'term': {'k': 'goto', 'target': target, 'line': line}, 'syn': comb})
                    blocks.append({'cleanup': False, 'stmts': [], 'term': {'k': 'goto', 'target': target, 'line': line}, 'syn': comb})
                count += 1
                for at, ck in inline_at:
                    callee = by_key.get(ck)
                    if callee is not None and callee is not b:
                        inline_call(b, at, callee, doc)
                again = True
                break
    doc.setdefault('meta', {})['expanded_combinators'] = count
    return doc


# N3a a narrowing integer `U::try_from(x)` (unsigned) is `if x > U::MAX { Err(..) } else { Ok(x as U) }`
_UMAX = {'u8': 2 ** 8 - 1, 'u16': 2 ** 16 - 1, 'u32': 2 ** 32 - 1, 'u64': 2 ** 64 - 1, 'usize': 2 ** 64 - 1}


def expand_int_try_from(doc):
    n = 0
    for b in doc['bodies']:
        blocks = b['blocks']
        L = b['locals']
        for blk in list(blocks):
            t = blk['term']
            if t.get('k') != 'call' or blk.get('cleanup') or t.get('target') is None or len(t.get('args', [])) != 1 or t['dest']['p']:
                continue
            fn = (t.get('func') or {}).get('fn') or {}
            if fn.get('path') != 'core::convert::TryFrom::try_from':
                continue
            ga = fn.get('generic_args') or []
            if len(ga) != 2 or ga[0] not in _UMAX or ga[1] not in _UMAX or _UMAX[ga[0]] >= _UMAX[ga[1]]:
                continue
            U, T = ga
            x = t['args'][0]
            if x.get('k') not in ('move', 'copy'):
                continue
            line = t.get('line')
            da = _ty_args(t['dest_ty'])
            L.append({'ty': 'bool', 'ty_raw': 'bool', 'name': None, 'mut': True, 'synthetic': True})
            cl = len(L) - 1
            L.append({'ty': U, 'ty_raw': U, 'name': None, 'mut': True, 'synthetic': True})
            vl = len(L) - 1
            base = len(blocks)
            xc = {'k': 'copy', 'place': x['place']}
            mx = {'k': 'const', 'ty': T, 'text': '%d_%s' % (_UMAX[U], T), 'int': _UMAX[U]}
            blk['stmts'].append({'k': 'assign', 'place': {'l': cl, 'p': []}, 'rv': {'k': 'binop', 'op': 'Gt', 'l': xc, 'r': mx, 'lty': T}, 'line': line, 'exp': False, 'syn': 'try_from'})
            blk['term'] = {'k': 'switch', 'discr': {'k': 'move', 'place': {'l': cl, 'p': []}}, 'discr_ty': 'bool', 'targets': [[0, base]], 'otherwise': base + 1,
                           'line': line, 'exp': False, 'syn': 'try_from'}
            blocks.append({'cleanup': False, 'syn': 'try_from', 'stmts': [
                {'k': 'assign', 'place': {'l': vl, 'p': []}, 'rv': {'k': 'cast', 'cast': 'IntToInt', 'op': xc, 'ty': U, 'from_ty': T}, 'line': line, 'exp': False, 'syn': 'try_from'},
                {'k': 'assign', 'place': t['dest'], 'rv': _agg('core::result::Result', 'Ok', 0, ['0'], [{'k': 'move', 'place': {'l': vl, 'p': []}}], da), 'line': line, 'exp': False, 'syn': 'try_from'}],
                'term': {'k': 'goto', 'target': t['target'], 'line': line}})
            L.append({'ty': 'core::num::TryFromIntError', 'ty_raw': 'core::num::TryFromIntError', 'name': None, 'mut': True, 'synthetic': True})
            el = len(L) - 1
            blocks.append({'cleanup': False, 'syn': 'try_from', 'stmts': [
                {'k': 'assign', 'place': {'l': el, 'p': []}, 'rv': _agg('core::num::TryFromIntError', 'TryFromIntError', 0, ['0'], [{'k': 'const', 'ty': '()', 'text': '()', 'zst': True}]), 'line': line, 'exp': False, 'syn': 'try_from'},
                {'k': 'assign', 'place': t['dest'], 'rv': _agg('core::result::Result', 'Err', 1, ['0'], [{'k': 'move', 'place': {'l': el, 'p': []}}], da), 'line': line, 'exp': False, 'syn': 'try_from'}],
                'term': {'k': 'goto', 'target': t['target'], 'line': line}})
            n += 1
    doc.setdefault('meta', {})['expanded_try_from'] = n
    return doc


# ======================================================================================================================
# N3b `x?` is the match it abbreviates: branch on the discriminant of x itself, the Continue payload is x's Ok/Some
#     payload, the Break arm returns Err(e)/None directly (only when `?` converts the error with the identity).
def eliminate_try(doc):
    n = 0
    for b in doc['bodies']:
        blocks = b['blocks']
        L = b['locals']
        for ti, T in enumerate(blocks):
            t = T['term']
            if t.get('k') != 'call' or T.get('cleanup'):
                continue
            fn = (t.get('func') or {}).get('fn') or {}
            if fn.get('trait') != 'core::ops::Try' or fn.get('name') != 'branch' or len(t['args']) != 1 or t.get('target') is None:
                continue
            x = t['args'][0]
            if x.get('k') != 'move' or x['place']['p'] or t['dest']['p']:
                continue
            xl, tl = x['place']['l'], t['dest']['l']
            xty = t['arg_tys'][0]
            is_res = xty.startswith('core::result::Result<')
            is_opt = xty.startswith('core::option::Option<')
            if not (is_res or is_opt):
                continue
            xa = _ty_args(xty)
            T2 = blocks[t['target']]
            if len(T2['stmts']) != 1 or T2['stmts'][0].get('k') != 'assign' or T2['stmts'][0]['rv'].get('k') != 'discriminant' or \
                    T2['stmts'][0]['rv']['place'] != {'l': tl, 'p': []} or T2['term'].get('k') != 'switch':
                continue
            sw = T2['term']
            tg = dict((v, bb) for v, bb in sw['targets'])
            if 0 not in tg or 1 not in tg:
                continue
            C, Bi = tg[0], tg[1]
            B = blocks[Bi]
            bt = B['term']
            bfn = (bt.get('func') or {}).get('fn') or {} if bt.get('k') == 'call' else {}
            if bfn.get('trait') != 'core::ops::FromResidual' or bfn.get('name') != 'from_residual' or bt.get('target') is None:
                continue
            ga = bfn.get('generic_args') or []
            if len(ga) != 2:
                continue
            out_ty, res_ty = ga
            oa, ra = _ty_args(out_ty), _ty_args(res_ty)
            if is_res:
                if not (out_ty.startswith('core::result::Result<') and len(oa) == 2 and len(ra) == 2 and len(xa) == 2 and oa[1] == ra[1] == xa[1]):
                    continue          # a converting `?` (From<E> for F) stays a `?`
            else:
                if not out_ty.startswith('core::option::Option<'):
                    continue
            # B must only shuffle the residual into the from_residual call
            okB = all(st.get('k') == 'assign' and st['rv'].get('k') == 'use' for st in B['stmts'])
            if not okB:
                continue
            line = t.get('line')
            adt = 'core::result::Result' if is_res else 'core::option::Option'
            okv, okidx = ('Ok', 0) if is_res else ('Some', 1)
            # 1. the Continue payload is x's success payload, everywhere
            cont_prefix_ok = False

            def rew(o):
                nonlocal cont_prefix_ok
                if isinstance(o, list):
                    for v in o:
                        rew(v)
                elif isinstance(o, dict):
                    if o.get('l') == tl and isinstance(o.get('p'), list) and len(o['p']) >= 2 and isinstance(o['p'][0], dict) and o['p'][0].get('downcast') == 'Continue':
                        f0 = o['p'][1]
                        o['l'] = xl
                        o['p'] = [{'downcast': okv, 'v': okidx}, {'f': '0', 'i': 0, 'ty': f0.get('ty'), 'adt': adt}] + o['p'][2:]
                        cont_prefix_ok = True
                    for v in o.values():
                        rew(v)
            for blk in blocks:
                rew(blk['stmts'])
                rew(blk['term'])
            # 2. the Break arm returns the failure directly
            dest = bt['dest']
            if is_res:
                L.append({'ty': xa[1], 'ty_raw': xa[1], 'name': None, 'mut': True, 'synthetic': True})
                el = len(L) - 1
                epl = {'l': xl, 'p': [{'downcast': 'Err', 'v': 1}, {'f': '0', 'i': 0, 'ty': xa[1], 'adt': adt}]}
                B['stmts'] = [{'k': 'assign', 'place': {'l': el, 'p': []}, 'rv': {'k': 'use', 'op': {'k': 'move', 'place': epl}}, 'line': bt.get('line'), 'exp': True, 'syn': '?'},
                              {'k': 'assign', 'place': dest, 'rv': _agg(adt, 'Err', 1, ['0'], [{'k': 'move', 'place': {'l': el, 'p': []}}], oa), 'line': bt.get('line'), 'exp': True, 'syn': '?'}]
            else:
                B['stmts'] = [{'k': 'assign', 'place': dest, 'rv': _agg(adt, 'None', 0, [], [], oa), 'line': bt.get('line'), 'exp': True, 'syn': '?'}]
            B['term'] = {'k': 'goto', 'target': bt['target'], 'line': bt.get('line'), 'syn': '?'}
            # 3. branch on x itself
            L.append({'ty': 'isize', 'ty_raw': 'isize', 'name': None, 'mut': True, 'synthetic': True})
            dl = len(L) - 1
            T['stmts'].append({'k': 'assign', 'place': {'l': dl, 'p': []}, 'rv': {'k': 'discriminant', 'place': {'l': xl, 'p': []}}, 'line': line, 'exp': True, 'syn': '?'})
            if is_res:
                targets, other = [[0, C], [1, Bi]], sw['otherwise']
            else:
                targets, other = [[1, C]], Bi
            T['term'] = {'k': 'switch', 'discr': {'k': 'move', 'place': {'l': dl, 'p': []}}, 'discr_ty': 'isize', 'targets': targets, 'otherwise': other,
                         'line': line, 'exp': True, 'syn': '?'}
            n += 1
    doc.setdefault('meta', {})['eliminated_try'] = n
    return doc


# N3c jump threading: a block that has just built `x = Ok(..)/Err(..)/Some(..)/None` and jumps to a block that only
#     branches on the discriminant of x goes to the known arm directly (no artificial merge of success and failure paths).
def _mentions_local(x, l):
    if isinstance(x, dict):
        if 'l' in x and 'p' in x and x['l'] == l:
            return True
        return any(_mentions_local(v, l) for v in x.values())
    if isinstance(x, list):
        return any(_mentions_local(v, l) for v in x)
    return False


def thread_known_discriminants(doc):
    n = 0
    for b in doc['bodies']:
        blocks = b['blocks']
        changed = True
        guard = 0
        while changed and guard < 16:
            changed = False
            guard += 1
            for P in blocks:
                pt = P['term']
                if pt.get('k') != 'goto' or not P['stmts'] or P.get('cleanup'):
                    continue
                # the value built last in P (possibly moved on within P)
                last = P['stmts'][-1]
                if last.get('k') != 'assign' or last['place']['p']:
                    continue
                cur = last['place']['l']
                pos = len(P['stmts']) - 1
                src = last
                hops2 = 0
                while src['rv'].get('k') == 'use' and src['rv']['op'].get('k') in ('move', 'copy') and not src['rv']['op']['place']['p'] and hops2 < 4:
                    yl = src['rv']['op']['place']['l']
                    prev = None
                    for j2 in range(pos - 1, -1, -1):
                        st = P['stmts'][j2]
                        if st.get('k') == 'assign' and st['place'].get('l') == yl:
                            prev = (j2, st) if not st['place']['p'] else None
                            break
                    if prev is None:
                        break
                    pos, src = prev
                    hops2 += 1
                if src['rv'].get('k') != 'aggregate' or src['rv'].get('agg') != 'adt':
                    continue
                vidx = src['rv'].get('variant_idx')
                # follow the jump: blocks that only move the value on, then a block that branches on its discriminant
                carried = []
                ti = pt['target']
                T = None
                for _ in range(8):
                    blk = blocks[ti]
                    if blk is P or blk.get('cleanup'):
                        break
                    st_ = blk['stmts']
                    if blk['term'].get('k') == 'goto' and all(x.get('k') == 'assign' for x in st_) and len(st_) <= 6:
                        # a block that is only passed through: its statements are duplicated into this path (any plain
                        # assignments — drop-flag updates, discriminant reads of other values — as long as the value that is
                        # followed is only moved on, never read or overwritten otherwise)
                        moved = False
                        okblk = True
                        for x in st_:
                            rv_ = x['rv']
                            op = rv_.get('op') if rv_.get('k') == 'use' else None
                            if op is not None and op.get('k') in ('move', 'copy') and not op['place']['p'] and op['place']['l'] == cur and not x['place']['p']:
                                cur = x['place']['l']
                                moved = True
                            elif _mentions_local(x, cur):
                                okblk = False
                                break
                        if not okblk or (st_ and not moved):
                            break
                        carried.extend(st_)
                        ti = blk['term']['target']
                        continue
                    if blk['term'].get('k') == 'switch' and st_ and len(st_) <= 16:
                        ds = st_[-1]
                        pre = st_[:-1]
                        if ds.get('k') == 'assign' and ds['rv'].get('k') == 'discriminant' and not ds['rv']['place']['p'] and ds['rv']['place']['l'] == cur and \
                                blk['term']['discr'].get('place') == ds['place'] and \
                                not any(x.get('k') != 'assign' or x['place']['l'] == cur for x in pre):
                            T = (blk, pre)
                    break
                if T is None:
                    continue
                blk, pre = T
                tgt = None
                for v, bb in blk['term']['targets']:
                    if v == vidx:
                        tgt = bb
                if tgt is None:
                    tgt = blk['term']['otherwise']
                P['stmts'].extend(copy.deepcopy(carried))
                P['stmts'].extend(copy.deepcopy(pre))
                P['term'] = {'k': 'goto', 'target': tgt, 'line': pt.get('line'), 'syn': 'thread'}
                n += 1
                changed = True
    doc.setdefault('meta', {})['threaded_jumps'] = n
    return doc


# ======================================================================================================================
# N3d `it.for_each(|x| body)` is `for x in it { body }`: the call is replaced by the loop (header: `it.next()`, branch on
#     Some/None, closure body inlined, back edge), so that the body's effects are visible at MIR level like those of a `for`.
def expand_for_each(doc):
    bodies = doc['bodies']
    by_key = {b['key']: b for b in bodies}
    crate = (doc.get('meta') or {}).get('crate', 'hpke')
    n = 0
    for b in bodies:
        blocks = b['blocks']
        L = b['locals']
        for bi in range(len(blocks)):
            blk = blocks[bi]
            t = blk['term']
            if t.get('k') != 'call' or blk.get('cleanup') or t.get('target') is None or len(t.get('args', [])) != 2:
                continue
            fn = (t.get('func') or {}).get('fn') or {}
            if fn.get('path') != 'core::iter::Iterator::for_each' or fn.get('local'):
                continue
            itop, fop = t['args']
            if itop.get('k') != 'move' or itop['place']['p']:
                continue
            app = _applied(b, by_key, fop)
            if app is None or app[0] != 'closure':
                continue
            ck = app[1]
            cb = by_key[ck]
            if cb['arg_count'] != 2:
                continue
            item_ty = cb['locals'][2]['ty']
            env_ty = cb['locals'][1]['ty']
            it_ty = t['arg_tys'][0]
            line = t.get('line')
            il = itop['place']['l']

            def new_local(ty):
                L.append({'ty': ty, 'ty_raw': ty, 'name': None, 'mut': True, 'synthetic': True})
                return len(L) - 1

            def mv(l):
                return {'k': 'move', 'place': {'l': l, 'p': []}}

            def asg(place, rv):
                return {'k': 'assign', 'place': place, 'rv': rv, 'line': line, 'exp': False, 'syn': 'for_each'}
            ref_l = new_local('&mut ' + it_ty)
            nx_l = new_local('core::option::Option<%s>' % item_ty)
            d_l = new_local('isize')
            x_l = new_local(item_ty)
            u_l = new_local('()')
            base = len(blocks)
            H, S, B, X = base, base + 1, base + 2, base + 3
            blk['term'] = {'k': 'goto', 'target': H, 'line': line, 'syn': 'for_each'}
            nfn = {'path': 'core::iter::Iterator::next', 'path_args': '<%s as core::iter::Iterator>::next' % it_ty, 'key': 'core::iter::Iterator::next',
                   'crate': 'core', 'local': False, 'name': 'next', 'generic_args': [it_ty], 'def_kind': 'AssocFn', 'trait': 'core::iter::Iterator', 'self_ty': it_ty,
                   'resolved': {'path': 'core::iter::Iterator::next', 'key': 'core::iter::Iterator::next', 'local': False, 'crate': 'core', 'kind': 'item', 'desc': 'item'}}
            blocks.append({'cleanup': False, 'syn': 'for_each',
                           'stmts': [asg({'l': ref_l, 'p': []}, {'k': 'ref', 'mut': True, 'fake': False, 'place': {'l': il, 'p': []}})],
                           'term': {'k': 'call', 'func': {'k': 'const', 'ty': 'fn', 'text': nfn['path_args'], 'fn': nfn}, 'args': [mv(ref_l)], 'arg_tys': ['&mut ' + it_ty],
                                    'dest': {'l': nx_l, 'p': []}, 'dest_ty': 'core::option::Option<%s>' % item_ty, 'target': S, 'unwind': t.get('unwind', 'continue'),
                                    'source': 'Normal', 'line': line, 'fn_line': line, 'exp': False, 'syn': 'for_each'}})
            blocks.append({'cleanup': False, 'syn': 'for_each',
                           'stmts': [asg({'l': d_l, 'p': []}, {'k': 'discriminant', 'place': {'l': nx_l, 'p': []}})],
                           'term': {'k': 'switch', 'discr': mv(d_l), 'discr_ty': 'isize', 'targets': [[1, B]], 'otherwise': X, 'line': line, 'exp': False, 'syn': 'for_each'}})
            envop = app[2]
            bst = [asg({'l': x_l, 'p': []}, {'k': 'use', 'op': {'k': 'move', 'place': {'l': nx_l, 'p': [{'downcast': 'Some', 'v': 1}, {'f': '0', 'i': 0, 'ty': item_ty, 'adt': 'core::option::Option'}]}}})]
            if env_ty.startswith('&') and envop.get('k') == 'move':
                e_l = new_local(env_ty)
                bst.append(asg({'l': e_l, 'p': []}, {'k': 'ref', 'mut': env_ty.startswith('&mut'), 'fake': False, 'place': envop['place']}))
                envop = mv(e_l)
            elif envop.get('k') == 'move':
                envop = {'k': 'copy', 'place': envop['place']}       # the closure value is used once per iteration
            cfn = {'path': ck, 'path_args': ck, 'key': ck, 'crate': crate, 'local': True, 'name': ck.rsplit('::', 1)[-1], 'generic_args': [], 'def_kind': 'Closure',
                   'resolved': {'path': ck, 'key': ck, 'local': True, 'crate': crate, 'kind': 'closure', 'desc': 'item'}}
            blocks.append({'cleanup': False, 'syn': 'for_each', 'stmts': bst,
                           'term': {'k': 'call', 'func': {'k': 'const', 'ty': 'closure', 'text': ck, 'fn': cfn}, 'args': [envop, mv(x_l)], 'arg_tys': [env_ty, item_ty],
                                    'dest': {'l': u_l, 'p': []}, 'dest_ty': '()', 'target': H, 'unwind': t.get('unwind', 'continue'), 'source': 'Normal',
                                    'line': line, 'fn_line': line, 'exp': False, 'syn': 'for_each'}})
            blocks.append({'cleanup': False, 'syn': 'for_each', 'stmts': [asg(t['dest'], {'k': 'use', 'op': {'k': 'const', 'ty': '()', 'text': '()', 'zst': True}})],
                           'term': {'k': 'goto', 'target': t['target'], 'line': line}})
            inline_call(b, B, cb, doc)
            n += 1
    doc.setdefault('meta', {})['expanded_for_each'] = n
    return doc



# ======================================================================================================================
# N5 private struct fields keep their pinned names: a struct of the pinned tree whose fields have the same types (each type
#    once, or the same sequence of types) but other names had its private fields renamed — rules address fields by name.

def _param_of(b, op, depth=0):
    """the parameter an operand is a plain copy of (through temporaries), or None"""
    if op.get('k') not in ('copy', 'move') or op['place']['p'] or depth > 4:
        return None
    l = op['place']['l']
    if 1 <= l <= b['arg_count']:
        return l
    defs = [st for blk in b['blocks'] for st in blk['stmts'] if st.get('k') == 'assign' and st['place'] == {'l': l, 'p': []}]
    if len(defs) == 1 and defs[0]['rv'].get('k') == 'use':
        return _param_of(b, defs[0]['rv']['op'], depth + 1)
    if len(defs) == 1 and defs[0]['rv'].get('k') == 'ref' and defs[0]['rv']['place']['p'] == ['deref']:
        # a whole reborrow `&*p` of a reference parameter
        return _param_of(b, {'k': 'copy', 'place': {'l': defs[0]['rv']['place']['l'], 'p': []}}, depth + 1)
    return None


def pinned_field_names(doc):
    pinned = pinned_keys()
    crate = (doc.get('meta') or {}).get('crate', 'hpke')
    padts = pinned.get(crate + ':adts') or {}
    if not padts:
        return doc
    ren = {}
    for a in doc.get('adts', []):
        pf = padts.get(a['path'])
        if pf is None or a.get('kind') != 'Struct' or len(a['variants']) != 1:
            continue
        cur = a['variants'][0]['fields']
        if len(cur) != len(pf) or [f['name'] for f in cur] == [x[0] for x in pf]:
            continue
        m = {}
        ctys = [f['ty'] for f in cur]
        ptys = [x[1] for x in pf]
        if ctys == ptys:
            m = {f['name']: x[0] for f, x in zip(cur, pf)}
        elif sorted(ctys) == sorted(ptys) and len(set(ctys)) == len(ctys):
            byty = {x[1]: x[0] for x in pf}
            m = {f['name']: byty[f['ty']] for f in cur}
        # fields of equal types: what the pinned constructor stores from which parameter decides which field is which
        pc = (pinned.get(crate + ':ctors') or {}).get(a['path'])
        if pc and len(set(ctys)) < len(ctys):
            cb = next((b for b in doc['bodies'] if b['key'] == pc['key']), None)
            curmap = None
            if cb is not None:
                for blk in cb['blocks']:
                    for st in blk['stmts']:
                        rv = st.get('rv') or {}
                        if st.get('k') == 'assign' and rv.get('k') == 'aggregate' and rv.get('agg') == 'adt' and rv.get('adt') == a['path']:
                            mm = {}
                            for name, f in zip(rv.get('field_names') or [], rv.get('fields') or []):
                                pi = _param_of(cb, f)
                                if pi is not None:
                                    mm[name] = pi
                            if len(mm) == len(rv.get('field_names') or []):
                                curmap = mm
            if curmap and sorted(curmap.values()) == sorted(pc['map'].values()) and len(set(curmap.values())) == len(curmap):
                byparam = {v: k for k, v in pc['map'].items()}
                m = {c: byparam[pi] for c, pi in curmap.items()}
        # only private fields may be renamed silently (a public field is API)
        pvis = {x[0]: x[2] for x in pf}
        m = {c: p_ for c, p_ in m.items() if c != p_ and (pvis.get(p_) or '') != 'public'}
        if m and len(set(m.values())) == len(m):
            ren[a['path']] = m
            for f in cur:
                f['name'] = m.get(f['name'], f['name'])
    if not ren:
        return doc

    def walk(x):
        if isinstance(x, list):
            for v in x:
                walk(v)
        elif isinstance(x, dict):
            if 'f' in x and x.get('adt') in ren and x['f'] in ren[x['adt']]:
                x['f'] = ren[x['adt']][x['f']]
            if x.get('k') == 'aggregate' and x.get('agg') == 'adt' and x.get('adt') in ren and isinstance(x.get('field_names'), list):
                x['field_names'] = [ren[x['adt']].get(n, n) for n in x['field_names']]
            for v in x.values():
                walk(v)
    walk(doc['bodies'])
    doc.setdefault('meta', {})['renamed_fields'] = ren
    return doc



# N3e `r.ok()` is `match r { Ok(v) => Some(v), Err(_) => None }`
def expand_result_ok(doc):
    n = 0
    for b in doc['bodies']:
        blocks = b['blocks']
        L = b['locals']
        for blk in list(blocks):
            t = blk['term']
            if t.get('k') != 'call' or blk.get('cleanup') or t.get('target') is None or len(t.get('args', [])) != 1 or t['dest']['p']:
                continue
            fn = (t.get('func') or {}).get('fn') or {}
            if fn.get('path') not in _UNARY_COMBINATORS:
                continue
            x = t['args'][0]
            if x.get('k') != 'move' or x['place']['p']:
                continue
            xa = _ty_args(t['arg_tys'][0])
            da = _ty_args(t['dest_ty'])
            if len(xa) != 2 or len(da) != 1:
                continue
            xl = x['place']['l']
            line = t.get('line')
            L.append({'ty': 'isize', 'ty_raw': 'isize', 'name': None, 'mut': True, 'synthetic': True})
            dl = len(L) - 1
            L.append({'ty': xa[0], 'ty_raw': xa[0], 'name': None, 'mut': True, 'synthetic': True})
            vl = len(L) - 1
            base = len(blocks)
            blk['stmts'].append({'k': 'assign', 'place': {'l': dl, 'p': []}, 'rv': {'k': 'discriminant', 'place': {'l': xl, 'p': []}}, 'line': line, 'exp': False, 'syn': 'ok'})
            blk['term'] = {'k': 'switch', 'discr': {'k': 'move', 'place': {'l': dl, 'p': []}}, 'discr_ty': 'isize', 'targets': [[0, base]], 'otherwise': base + 1,
                           'line': line, 'exp': False, 'syn': 'ok'}
            payload = {'l': xl, 'p': [{'downcast': 'Ok', 'v': 0}, {'f': '0', 'i': 0, 'ty': xa[0], 'adt': 'core::result::Result'}]}
            blocks.append({'cleanup': False, 'syn': 'ok', 'stmts': [
                {'k': 'assign', 'place': {'l': vl, 'p': []}, 'rv': {'k': 'use', 'op': {'k': 'move', 'place': payload}}, 'line': line, 'exp': False, 'syn': 'ok'},
                {'k': 'assign', 'place': t['dest'], 'rv': _agg('core::option::Option', 'Some', 1, ['0'], [{'k': 'move', 'place': {'l': vl, 'p': []}}], da), 'line': line, 'exp': False, 'syn': 'ok'}],
                'term': {'k': 'goto', 'target': t['target'], 'line': line}})
            blocks.append({'cleanup': False, 'syn': 'ok', 'stmts': [
                {'k': 'assign', 'place': t['dest'], 'rv': _agg('core::option::Option', 'None', 0, [], [], da), 'line': line, 'exp': False, 'syn': 'ok'}],
                'term': {'k': 'goto', 'target': t['target'], 'line': line}})
            n += 1
    doc.setdefault('meta', {})['expanded_result_ok'] = n
    return doc


# N3f `it.find_map(f)` is the loop `loop { match it.next() { Some(x) => if let Some(r) = f(x) { break Some(r) }, None => break None } }`
def expand_find_map(doc):
    bodies = doc['bodies']
    by_key = {b['key']: b for b in bodies}
    crate = (doc.get('meta') or {}).get('crate', 'hpke')
    n = 0
    for b in bodies:
        blocks = b['blocks']
        L = b['locals']
        for bi in range(len(blocks)):
            blk = blocks[bi]
            t = blk['term']
            if t.get('k') != 'call' or blk.get('cleanup') or t.get('target') is None or len(t.get('args', [])) != 2 or t['dest']['p']:
                continue
            fn = (t.get('func') or {}).get('fn') or {}
            if fn.get('path') != 'core::iter::Iterator::find_map' or fn.get('local'):
                continue
            itop, fop = t['args']
            # find_map takes `&mut self`: the operand is a reference to the iterator local
            app = _applied(b, by_key, fop)
            if app is None or app[0] != 'closure':
                continue
            ck = app[1]
            cb = by_key[ck]
            if cb['arg_count'] != 2:
                continue
            item_ty = cb['locals'][2]['ty']
            env_ty = cb['locals'][1]['ty']
            ref_ty = t['arg_tys'][0]
            if not ref_ty.startswith('&mut '):
                continue
            it_ty = ref_ty[len('&mut '):]
            res_ty = t['dest_ty']
            line = t.get('line')

            def new_local(ty):
                L.append({'ty': ty, 'ty_raw': ty, 'name': None, 'mut': True, 'synthetic': True})
                return len(L) - 1

            def mv(l):
                return {'k': 'move', 'place': {'l': l, 'p': []}}

            def asg(place, rv):
                return {'k': 'assign', 'place': place, 'rv': rv, 'line': line, 'exp': False, 'syn': 'find_map'}
            if itop.get('k') != 'move' or itop['place']['p']:
                continue
            rl = itop['place']['l']          # the &mut iterator reference
            nx_l = new_local('core::option::Option<%s>' % item_ty)
            d_l = new_local('isize')
            x_l = new_local(item_ty)
            r_l = new_local(res_ty)
            d2_l = new_local('isize')
            rr_l = new_local(ref_ty)
            base = len(blocks)
            H, S, B, C, X = base, base + 1, base + 2, base + 3, base + 4
            blk['term'] = {'k': 'goto', 'target': H, 'line': line, 'syn': 'find_map'}
            nfn = {'path': 'core::iter::Iterator::next', 'path_args': '<%s as core::iter::Iterator>::next' % it_ty, 'key': 'core::iter::Iterator::next',
                   'crate': 'core', 'local': False, 'name': 'next', 'generic_args': [it_ty], 'def_kind': 'AssocFn', 'trait': 'core::iter::Iterator', 'self_ty': it_ty,
                   'resolved': {'path': 'core::iter::Iterator::next', 'key': 'core::iter::Iterator::next', 'local': False, 'crate': 'core', 'kind': 'item', 'desc': 'item'}}
            blocks.append({'cleanup': False, 'syn': 'find_map',
                           'stmts': [asg({'l': rr_l, 'p': []}, {'k': 'ref', 'mut': True, 'fake': False, 'place': {'l': rl, 'p': ['deref']}})],
                           'term': {'k': 'call', 'func': {'k': 'const', 'ty': 'fn', 'text': nfn['path_args'], 'fn': nfn}, 'args': [mv(rr_l)], 'arg_tys': [ref_ty],
                                    'dest': {'l': nx_l, 'p': []}, 'dest_ty': 'core::option::Option<%s>' % item_ty, 'target': S, 'unwind': t.get('unwind', 'continue'),
                                    'source': 'Normal', 'line': line, 'fn_line': line, 'exp': False, 'syn': 'find_map'}})
            blocks.append({'cleanup': False, 'syn': 'find_map', 'stmts': [asg({'l': d_l, 'p': []}, {'k': 'discriminant', 'place': {'l': nx_l, 'p': []}})],
                           'term': {'k': 'switch', 'discr': mv(d_l), 'discr_ty': 'isize', 'targets': [[1, B]], 'otherwise': X, 'line': line, 'exp': False, 'syn': 'find_map'}})
            envop = app[2]
            bst = [asg({'l': x_l, 'p': []}, {'k': 'use', 'op': {'k': 'move', 'place': {'l': nx_l, 'p': [{'downcast': 'Some', 'v': 1}, {'f': '0', 'i': 0, 'ty': item_ty, 'adt': 'core::option::Option'}]}}})]
            if env_ty.startswith('&') and envop.get('k') == 'move':
                e_l = new_local(env_ty)
                bst.append(asg({'l': e_l, 'p': []}, {'k': 'ref', 'mut': env_ty.startswith('&mut'), 'fake': False, 'place': envop['place']}))
                envop = mv(e_l)
            elif envop.get('k') == 'move':
                envop = {'k': 'copy', 'place': envop['place']}
            cfn = {'path': ck, 'path_args': ck, 'key': ck, 'crate': crate, 'local': True, 'name': ck.rsplit('::', 1)[-1], 'generic_args': [], 'def_kind': 'Closure',
                   'resolved': {'path': ck, 'key': ck, 'local': True, 'crate': crate, 'kind': 'closure', 'desc': 'item'}}
            blocks.append({'cleanup': False, 'syn': 'find_map', 'stmts': bst,
                           'term': {'k': 'call', 'func': {'k': 'const', 'ty': 'closure', 'text': ck, 'fn': cfn}, 'args': [envop, mv(x_l)], 'arg_tys': [env_ty, item_ty],
                                    'dest': {'l': r_l, 'p': []}, 'dest_ty': res_ty, 'target': C, 'unwind': t.get('unwind', 'continue'), 'source': 'Normal',
                                    'line': line, 'fn_line': line, 'exp': False, 'syn': 'find_map'}})
            # C: Some(r) => result, None => next iteration
            blocks.append({'cleanup': False, 'syn': 'find_map', 'stmts': [asg({'l': d2_l, 'p': []}, {'k': 'discriminant', 'place': {'l': r_l, 'p': []}})],
                           'term': {'k': 'switch', 'discr': mv(d2_l), 'discr_ty': 'isize', 'targets': [[0, H]], 'otherwise': base + 5, 'line': line, 'exp': False, 'syn': 'find_map'}})
            blocks.append({'cleanup': False, 'syn': 'find_map', 'stmts': [asg(t['dest'], _agg('core::option::Option', 'None', 0, [], [], _ty_args(res_ty)))],
                           'term': {'k': 'goto', 'target': t['target'], 'line': line}})
            blocks.append({'cleanup': False, 'syn': 'find_map', 'stmts': [asg(t['dest'], {'k': 'use', 'op': mv(r_l)})],
                           'term': {'k': 'goto', 'target': t['target'], 'line': line}})
            inline_call(b, B, cb, doc)
            n += 1
    doc.setdefault('meta', {})['expanded_find_map'] = n
    return doc



# ======================================================================================================================
# N5b a private type that moved to another module keeps its pinned path: a pinned struct that is gone and exactly one new
#     struct of the same name with the same field types is the same type (paths inside every type string and key follow).
def pinned_adt_paths(doc):
    pinned = pinned_keys()
    crate = (doc.get('meta') or {}).get('crate', 'hpke')
    padts = pinned.get(crate + ':adts') or {}
    if not padts:
        return doc
    cur = {a['path']: a for a in doc.get('adts', [])}
    missing = [p_ for p_ in padts if p_ not in cur]
    # exported types are API: their path is not normalised away
    new = [a for a in doc.get('adts', []) if a['path'] not in padts and a.get('kind') == 'Struct' and len(a.get('variants', [])) == 1 and not a.get('exported')]
    ren = {}
    for mp in missing:
        want = [x[1] for x in padts[mp]]
        name = mp.rsplit('::', 1)[-1]
        cands = [a for a in new if a['path'].rsplit('::', 1)[-1] == name and a['path'] not in ren]
        if len(cands) != 1:
            continue
        a = cands[0]
        # field types may mention the type's own (new) path or other moved types: compare modulo the candidate rename
        got = [f['ty'].replace(a['path'], mp) for f in a['variants'][0]['fields']]
        if got == want:
            ren[a['path']] = mp
    if not ren:
        return doc
    out = {}
    for k in ('bodies', 'impls', 'adts', 'api', 'traits', 'consts', 'statics', 'derived', 'unsafe_sites'):
        if k in doc:
            s = json.dumps(doc[k], separators=(',', ':'))
            for old, newp in sorted(ren.items(), key=lambda kv: -len(kv[0])):
                s = re.sub(r'(?<![\w:])' + re.escape(old) + r'(?![\w])', newp, s)
            doc[k] = json.loads(s)
    doc.setdefault('meta', {})['moved_types'] = ren
    return doc



# N3g `f(args)` through the Fn* traits on a closure literal (a closure handed to an inlined helper) is the closure body
def expand_closure_calls(doc):
    bodies = doc['bodies']
    by_key = {b['key']: b for b in bodies}
    crate = (doc.get('meta') or {}).get('crate', 'hpke')
    n = 0
    for b in bodies:
        blocks = b['blocks']
        for bi in range(len(blocks)):
            blk = blocks[bi]
            t = blk['term']
            if t.get('k') != 'call' or blk.get('cleanup') or t.get('target') is None or len(t.get('args', [])) != 2:
                continue
            fn = (t.get('func') or {}).get('fn') or {}
            if fn.get('trait') not in ('core::ops::FnOnce', 'core::ops::FnMut', 'core::ops::Fn') or fn.get('name') not in ('call_once', 'call_mut', 'call'):
                continue
            fop, tup = t['args']
            app = _applied(b, by_key, fop)
            if app is not None and app[0] == 'extfn':
                app = None
            if app is None:
                # a trait method item handed in as a value (`Self::derive_keypair`): follow plain moves to the constant
                cur, hops = fop, 0
                while cur.get('k') in ('move', 'copy') and not cur['place']['p'] and hops < 6:
                    d_ = _single_def(b, cur['place']['l'])
                    if d_ is None or d_[0] != 'stmt' or d_[2]['rv'].get('k') != 'use':
                        break
                    cur = d_[2]['rv']['op']
                    hops += 1
                if cur.get('k') == 'const' and cur.get('fn') and cur['fn'].get('def_kind') in ('Fn', 'AssocFn') and tup.get('k') == 'move' and not tup['place']['p']:
                    tty = t['arg_tys'][1]
                    if tty.startswith('(') and tty.endswith(')'):
                        parts = [x for x in _split_top(tty[1:-1]) if x.strip()]
                        args = [{'k': 'move', 'place': {'l': tup['place']['l'], 'p': [{'f': str(i), 'i': i, 'ty': ty, 'adt': None}]}} for i, ty in enumerate(parts)]
                        blk['term'] = dict(t, func=cur, args=args, arg_tys=parts, syn='call')
                        n += 1
                    continue
            if app is not None and app[0] == 'fn' and tup.get('k') == 'move' and not tup['place']['p']:
                # `f(args)` where f is a function item handed in as a value (`helper(rng, Self::derive_keypair)`): a direct call
                tty = t['arg_tys'][1]
                if tty.startswith('(') and tty.endswith(')'):
                    parts = [x for x in _split_top(tty[1:-1]) if x.strip()]
                    ffn = app[1]['fn']
                    callee = by_key.get((ffn.get('resolved') or {}).get('key') or ffn.get('key'))
                    if callee is not None and callee['arg_count'] == len(parts):
                        args = [{'k': 'move', 'place': {'l': tup['place']['l'], 'p': [{'f': str(i), 'i': i, 'ty': ty, 'adt': None}]}} for i, ty in enumerate(parts)]
                        blk['term'] = dict(t, func=app[1], args=args, arg_tys=parts, syn='call')
                        n += 1
                continue
            if app is None or app[0] != 'closure':
                continue
            ck = app[1]
            cb = by_key[ck]
            tty = t['arg_tys'][1]
            if not (tty.startswith('(') and tty.endswith(')')) or tup.get('k') != 'move' or tup['place']['p']:
                continue
            parts = [x for x in _split_top(tty[1:-1]) if x.strip()]
            if len(parts) != cb['arg_count'] - 1:
                continue
            env_ty = cb['locals'][1]['ty'] if len(cb['locals']) > 1 else ''
            envop = app[2]
            line = t.get('line')
            if env_ty.startswith('&') and envop.get('k') == 'move' and not t['arg_tys'][0].startswith('&'):
                b['locals'].append({'ty': env_ty, 'ty_raw': env_ty, 'name': None, 'mut': True, 'synthetic': True})
                e_l = len(b['locals']) - 1
                blk['stmts'].append({'k': 'assign', 'place': {'l': e_l, 'p': []}, 'rv': {'k': 'ref', 'mut': env_ty.startswith('&mut'), 'fake': False, 'place': envop['place']},
                                     'line': line, 'exp': False, 'syn': 'call'})
                envop = {'k': 'move', 'place': {'l': e_l, 'p': []}}
            args = [envop] + [{'k': 'move', 'place': {'l': tup['place']['l'], 'p': [{'f': str(i), 'i': i, 'ty': ty, 'adt': None}]}} for i, ty in enumerate(parts)]
            cfn = {'path': ck, 'path_args': ck, 'key': ck, 'crate': crate, 'local': True, 'name': ck.rsplit('::', 1)[-1], 'generic_args': [], 'def_kind': 'Closure',
                   'resolved': {'path': ck, 'key': ck, 'local': True, 'crate': crate, 'kind': 'closure', 'desc': 'item'}}
            ps = [st_['rv'].get('parent_substs') for bb_ in blocks for st_ in bb_['stmts']
                  if st_.get('k') == 'assign' and st_['rv'].get('k') == 'aggregate' and st_['rv'].get('agg') == 'closure' and st_['rv'].get('closure') == ck]
            if len(ps) == 1 and ps[0]:
                cfn['subst_map'] = ps[0]
            blk['term'] = dict(t, func={'k': 'const', 'ty': 'closure', 'text': ck, 'fn': cfn}, args=args, arg_tys=[env_ty] + parts, syn='call')
            inline_call(b, bi, cb, doc)
            n += 1
    doc.setdefault('meta', {})['expanded_closure_calls'] = n
    return doc



# N3h `<[T; N]>::try_from(slice)` is `if slice.len() == N { Ok(copy of it) } else { Err(TryFromSliceError) }`
def expand_array_try_from(doc):
    n = 0
    for b in doc['bodies']:
        blocks = b['blocks']
        L = b['locals']
        for blk in list(blocks):
            t = blk['term']
            if t.get('k') != 'call' or blk.get('cleanup') or t.get('target') is None or len(t.get('args', [])) != 1 or t['dest']['p']:
                continue
            fn = (t.get('func') or {}).get('fn') or {}
            if fn.get('path') != 'core::convert::TryFrom::try_from':
                continue
            ga = fn.get('generic_args') or []
            m = re.match(r'^\[(\w+); (\d+)\]$', ga[0]) if len(ga) == 2 else None
            if not m or ga[1] not in ('&[%s]' % m.group(1), '&mut [%s]' % m.group(1)):
                continue
            elem, N = m.group(1), int(m.group(2))
            x = t['args'][0]
            if x.get('k') not in ('move', 'copy') or x['place']['p']:
                continue
            line = t.get('line')
            da = _ty_args(t['dest_ty'])
            arr_ty = ga[0]

            def new_local(ty):
                L.append({'ty': ty, 'ty_raw': ty, 'name': None, 'mut': True, 'synthetic': True})
                return len(L) - 1

            def mv(l):
                return {'k': 'move', 'place': {'l': l, 'p': []}}

            def asg(place, rv):
                return {'k': 'assign', 'place': place, 'rv': rv, 'line': line, 'exp': False, 'syn': 'try_from'}
            ln_l, c_l, a_l, r_l, u_l, e_l = new_local('usize'), new_local('bool'), new_local(arr_ty), new_local('&mut [%s]' % elem), new_local('()'), new_local('core::array::TryFromSliceError')
            base = len(blocks)
            xc = {'k': 'copy', 'place': x['place']}
            blk['stmts'].append(asg({'l': ln_l, 'p': []}, {'k': 'unop', 'op': 'PtrMetadata', 'x': xc}))
            blk['stmts'].append(asg({'l': c_l, 'p': []}, {'k': 'binop', 'op': 'Eq', 'l': mv(ln_l), 'r': {'k': 'const', 'ty': 'usize', 'text': '%d_usize' % N, 'int': N}, 'lty': 'usize'}))
            blk['term'] = {'k': 'switch', 'discr': mv(c_l), 'discr_ty': 'bool', 'targets': [[0, base + 2]], 'otherwise': base, 'line': line, 'exp': False, 'syn': 'try_from'}
            cfn = {'path': 'core::slice::<impl [T]>::copy_from_slice', 'path_args': 'core::slice::<impl [%s]>::copy_from_slice' % elem, 'key': '[T]::copy_from_slice', 'crate': 'core',
                   'local': False, 'name': 'copy_from_slice', 'generic_args': [elem], 'def_kind': 'AssocFn', 'impl_self_ty': '[T]',
                   'resolved': {'path': 'core::slice::<impl [T]>::copy_from_slice', 'key': '[T]::copy_from_slice', 'local': False, 'crate': 'core', 'kind': 'item', 'desc': 'item'}}
            blocks.append({'cleanup': False, 'syn': 'try_from', 'stmts': [
                asg({'l': a_l, 'p': []}, {'k': 'repeat', 'op': {'k': 'const', 'ty': elem, 'text': '0_%s' % elem, 'int': 0}, 'n': N}),
                asg({'l': r_l, 'p': []}, {'k': 'cast', 'cast': 'PointerCoercion(Unsize, Implicit)', 'op': {'k': 'move', 'place': {'l': new_local('&mut ' + arr_ty), 'p': []}}, 'ty': '&mut [%s]' % elem, 'from_ty': '&mut ' + arr_ty})],
                'term': {'k': 'call', 'func': {'k': 'const', 'ty': 'fn', 'text': cfn['path_args'], 'fn': cfn}, 'args': [mv(r_l), xc], 'arg_tys': ['&mut [%s]' % elem, '&[%s]' % elem],
                         'dest': {'l': u_l, 'p': []}, 'dest_ty': '()', 'target': base + 1, 'unwind': t.get('unwind', 'continue'), 'source': 'Normal', 'line': line, 'fn_line': line,
                         'exp': False, 'syn': 'try_from'}})
            # the reference to the array (inserted before the cast)
            refl = len(L) - 1
            blocks[base]['stmts'].insert(1, asg({'l': refl, 'p': []}, {'k': 'ref', 'mut': True, 'fake': False, 'place': {'l': a_l, 'p': []}}))
            blocks.append({'cleanup': False, 'syn': 'try_from', 'stmts': [asg(t['dest'], _agg('core::result::Result', 'Ok', 0, ['0'], [mv(a_l)], da))],
                           'term': {'k': 'goto', 'target': t['target'], 'line': line}})
            blocks.append({'cleanup': False, 'syn': 'try_from', 'stmts': [
                asg({'l': e_l, 'p': []}, _agg('core::array::TryFromSliceError', 'TryFromSliceError', 0, ['0'], [{'k': 'const', 'ty': '()', 'text': '()', 'zst': True}])),
                asg(t['dest'], _agg('core::result::Result', 'Err', 1, ['0'], [mv(e_l)], da))],
                'term': {'k': 'goto', 'target': t['target'], 'line': line}})
            n += 1
    doc.setdefault('meta', {})['expanded_array_try_from'] = n
    return doc



# N6 a *new* closure (not a body of the pinned tree) whose every use was expanded in place is dead code: the closure value is
#    still built, but nothing can call it — it is never handed to a call, stored, or returned.  Its body is no body of its
#    own any more (its statements live on, inlined, in the parent, where the rules look at them).
def drop_dead_closures(doc):
    crate = (doc.get('meta') or {}).get('crate', 'hpke')
    pinned = set(pinned_keys().get(crate, []))
    if not pinned:
        return doc
    bodies = doc['bodies']
    by_key = {b['key']: b for b in bodies}
    built = {}     # closure key -> live?
    for b in bodies:
        for pb in [b] + list(b.get('promoted') or []):
            blocks = pb['blocks']
            for blk in blocks:
                for st in blk['stmts']:
                    if st.get('k') == 'assign' and st['rv'].get('k') == 'aggregate' and st['rv'].get('agg') == 'closure':
                        k = st['rv'].get('closure')
                        live = bool(st['place']['p']) or _closure_escapes(pb, st['place']['l'])
                        built[k] = built.get(k, False) or live
    # closure values that appear as constants (zero-capture closures passed by name)
    txt_live = set()
    for b in bodies:
        for blk in b['blocks']:
            t = blk['term']
            for x in (t.get('args') or []) + [st.get('rv', {}).get('op') for st in blk['stmts'] if st.get('k') == 'assign'] + \
                    [f for st in blk['stmts'] if st.get('k') == 'assign' and st['rv'].get('k') == 'aggregate' for f in st['rv']['fields']]:
                if isinstance(x, dict) and x.get('k') == 'const' and 'closure' in x:
                    txt_live.add(x['closure'])
    gone, dead = set(), set()
    for k, live in built.items():
        if live or k in txt_live or k not in by_key:
            continue
        # a key of the pinned tree stays a body (the body sets of the feature subsets are compared by key); it is only
        # marked: nothing can run it, its statements are looked at where they were inlined
        (dead if k in pinned else gone).add(k)
    # nested closures of a dropped closure go with it
    for b in bodies:
        if any(b['key'].startswith(g + '::') for g in gone) and b['key'] not in pinned:
            gone.add(b['key'])
    if gone:
        doc['bodies'] = [b for b in bodies if b['key'] not in gone]
    doc.setdefault('meta', {})['closures_dropped'] = sorted(gone)
    doc['meta']['closures_dead'] = sorted(dead)
    return doc


def _closure_escapes(b, l0):
    """does the closure value in local l0 (or a pointer to it) reach a call argument, another aggregate, a return or a store?"""
    alias = {l0}
    changed = True
    while changed:
        changed = False
        for blk in b['blocks']:
            for st in blk['stmts']:
                if st.get('k') != 'assign' or st['place']['p'] or st['place']['l'] in alias:
                    continue
                rv = st['rv']
                src = None
                if rv.get('k') == 'use' and rv['op'].get('k') in ('copy', 'move'):
                    src = rv['op']['place']
                elif rv.get('k') in ('ref', 'rawptr'):
                    src = rv['place']
                elif rv.get('k') == 'cast' and rv['op'].get('k') in ('copy', 'move'):
                    src = rv['op']['place']
                if src is not None and src['l'] in alias and all(e == 'deref' for e in src['p']):
                    alias.add(st['place']['l'])
                    changed = True

    def whole(op):
        return isinstance(op, dict) and op.get('k') in ('copy', 'move') and op['place']['l'] in alias and all(e == 'deref' for e in op['place']['p'])
    if 0 in alias:
        return True
    for blk in b['blocks']:
        for st in blk['stmts']:
            if st.get('k') != 'assign':
                continue
            rv = st['rv']
            if rv.get('k') == 'aggregate' and any(whole(f) for f in rv['fields']):
                return True
            if st['place']['p'] and rv.get('k') == 'use' and whole(rv['op']):
                return True            # stored into a field / through a pointer
        t = blk['term']
        if t.get('k') == 'call' and (any(whole(x) for x in t.get('args', [])) or whole(t.get('func'))):
            return True
    return False



# N3i `core::array::from_fn::<T, N, F>(f)` is `[f(0), f(1), …, f(N-1)]` (calls in index order), for small constant N
def expand_array_from_fn(doc):
    n = 0
    for b in doc['bodies']:
        blocks = b['blocks']
        L = b['locals']
        for blk in list(blocks):
            t = blk['term']
            if t.get('k') != 'call' or blk.get('cleanup') or t.get('target') is None or len(t.get('args', [])) != 1 or t['dest']['p']:
                continue
            fn = (t.get('func') or {}).get('fn') or {}
            ga = fn.get('generic_args') or []
            if fn.get('path') != 'core::array::from_fn' or len(ga) != 3 or not str(ga[1]).isdigit() or not (0 < int(ga[1]) <= 16):
                continue
            f = t['args'][0]
            if f.get('k') != 'move' or f['place']['p'] or 'closure@' not in t['arg_tys'][0]:
                continue
            N, elem, cty = int(ga[1]), ga[0], t['arg_tys'][0]
            line = t.get('line')

            def new_local(ty):
                L.append({'ty': ty, 'ty_raw': ty, 'name': None, 'mut': True, 'synthetic': True})
                return len(L) - 1

            def mv(l):
                return {'k': 'move', 'place': {'l': l, 'p': []}}

            def asg(l, rv):
                return {'k': 'assign', 'place': {'l': l, 'p': []}, 'rv': rv, 'line': line, 'exp': False, 'syn': 'from_fn'}
            elems = [new_local(elem) for _ in range(N)]
            first = len(blocks)
            cfn = {'path': 'core::ops::FnMut::call_mut', 'path_args': '<%s as core::ops::FnMut<(usize,)>>::call_mut' % cty, 'key': 'core::ops::FnMut::call_mut',
                   'crate': 'core', 'local': False, 'name': 'call_mut', 'trait': 'core::ops::FnMut', 'self_ty': cty, 'generic_args': [cty, '(usize,)'], 'def_kind': 'AssocFn',
                   'resolved': {'path': 'core::ops::FnMut::call_mut', 'key': 'core::ops::FnMut::call_mut', 'local': False, 'crate': 'core', 'kind': 'closure', 'desc': 'closure'}}
            for k in range(N):
                r_l, i_l, t_l = new_local('&mut ' + cty), new_local('usize'), new_local('(usize,)')
                blocks.append({'cleanup': False, 'syn': 'from_fn', 'stmts': [
                    asg(r_l, {'k': 'ref', 'mut': True, 'fake': False, 'place': {'l': f['place']['l'], 'p': []}}),
                    asg(i_l, {'k': 'use', 'op': {'k': 'const', 'ty': 'usize', 'text': '%d_usize' % k, 'int': k}}),
                    asg(t_l, {'k': 'aggregate', 'agg': 'tuple', 'fields': [mv(i_l)]})],
                    'term': {'k': 'call', 'func': {'k': 'const', 'ty': 'fn', 'text': cfn['path_args'], 'fn': dict(cfn)}, 'args': [mv(r_l), mv(t_l)],
                             'arg_tys': ['&mut ' + cty, '(usize,)'], 'dest': {'l': elems[k], 'p': []}, 'dest_ty': elem, 'target': first + k + 1,
                             'unwind': t.get('unwind', 'continue'), 'source': 'Normal', 'line': line, 'fn_line': line, 'exp': False, 'syn': 'from_fn'}})
            blocks.append({'cleanup': False, 'syn': 'from_fn', 'stmts': [
                {'k': 'assign', 'place': t['dest'], 'rv': {'k': 'aggregate', 'agg': 'array', 'fields': [mv(e) for e in elems]}, 'line': line, 'exp': False, 'syn': 'from_fn'}],
                'term': {'k': 'goto', 'target': t['target'], 'line': line}})
            blk['term'] = {'k': 'goto', 'target': first, 'line': line, 'syn': 'from_fn'}
            n += 1
    doc.setdefault('meta', {})['expanded_array_from_fn'] = n
    return doc



# N3j a `for x in <slice over an array of k elements, k small and known>` loop is its k iterations in sequence: the loop blocks are
#     cloned once per element with `next()` replaced by `Some(&arr[i])`, and once more with `None` (which leaves the loop).  Locals
#     are shared between the copies exactly as they are between the iterations of the loop.  This is what turns a helper that
#     loops over `&[a, b, c]` (inlined into its caller, where the literal is visible) back into straight-line code.
_UNROLL_MAX = 8


def _succ_of(t):
    k = t.get('k')
    if k == 'goto':
        return [t['target']]
    if k == 'switch':
        return [b for _, b in t['targets']] + [t['otherwise']]
    if k in ('call', 'drop', 'assert'):
        out = [t['target']] if t.get('target') is not None else []
        u = t.get('unwind')
        if isinstance(u, int):
            out.append(u)
        return out
    return []


def _retarget(t, m):
    t = copy.deepcopy(t)
    k = t.get('k')
    if k == 'goto':
        t['target'] = m(t['target'])
    elif k == 'switch':
        t['targets'] = [[v, m(b)] for v, b in t['targets']]
        t['otherwise'] = m(t['otherwise'])
    elif k in ('call', 'drop', 'assert'):
        if t.get('target') is not None:
            t['target'] = m(t['target'])
    return t


def _single_def(b, l):
    ds = []
    for bi, blk in enumerate(b['blocks']):
        for st in blk['stmts']:
            if st.get('k') == 'assign' and st['place'] == {'l': l, 'p': []}:
                ds.append(('stmt', bi, st))
        t = blk['term']
        if t.get('k') == 'call' and t.get('dest') == {'l': l, 'p': []}:
            ds.append(('call', bi, t))
    return ds[0] if len(ds) == 1 else None


def _array_len_of_ref(b, op, depth=0):
    """number of elements of the array a slice/array reference operand points to, following moves, reborrows and unsizing"""
    if depth > 8 or op.get('k') not in ('copy', 'move') or op['place']['p']:
        return None
    l = op['place']['l']
    ty = b['locals'][l]['ty']
    m = re.match(r'^&(?:mut )?\[.*; (\d+)\]$', ty)
    if m:
        return int(m.group(1))
    d = _single_def(b, l)
    if d is None or d[0] != 'stmt':
        return None
    rv = d[2]['rv']
    if rv['k'] == 'use':
        return _array_len_of_ref(b, rv['op'], depth + 1)
    if rv['k'] == 'cast' and str(rv.get('cast', '')).startswith('PointerCoercion(Unsize'):
        return _array_len_of_ref(b, rv['op'], depth + 1)
    if rv['k'] == 'ref' and rv['place']['p'] == ['deref']:
        return _array_len_of_ref(b, {'k': 'copy', 'place': {'l': rv['place']['l'], 'p': []}}, depth + 1)
    if rv['k'] == 'ref' and not rv['place']['p']:
        m = re.match(r'^\[.*; (\d+)\]$', b['locals'][rv['place']['l']]['ty'])
        return int(m.group(1)) if m else None
    return None


def unroll_literal_loops(doc):
    n = 0
    for b in doc['bodies']:
        guard = 0
        while guard < 8:
            guard += 1
            if not _unroll_one(b):
                break
            n += 1
    doc.setdefault('meta', {})['unrolled_loops'] = n
    return doc


def _unroll_one(b):
    blocks = b['blocks']
    L = b['locals']
    for H, hb in enumerate(blocks):
        t = hb['term']
        if hb.get('cleanup') or hb.get('unrolled') or t.get('k') != 'call' or t.get('target') is None or len(t.get('args', [])) != 1 or t['dest']['p']:
            continue
        fn = (t.get('func') or {}).get('fn') or {}
        if fn.get('path') != 'core::iter::Iterator::next' or not str(t['arg_tys'][0]).startswith('&mut core::slice::Iter<'):
            continue
        # the iterator local behind the `&mut` argument
        op = t['args'][0]
        it = None
        for _ in range(6):
            if op.get('k') not in ('copy', 'move') or op['place']['p']:
                break
            d = _single_def(b, op['place']['l'])
            if d is None or d[0] != 'stmt' or d[2]['rv']['k'] != 'ref':
                break
            pl = d[2]['rv']['place']
            if not pl['p']:
                it = pl['l']
                break
            if pl['p'] != ['deref']:
                break
            op = {'k': 'copy', 'place': {'l': pl['l'], 'p': []}}
        if it is None:
            continue
        # iter = [move] into_iter(S) / iter(S)
        src = None
        cur = it
        for _ in range(4):
            d = _single_def(b, cur)
            if d is None:
                break
            if d[0] == 'stmt' and d[2]['rv']['k'] == 'use' and d[2]['rv']['op'].get('k') in ('copy', 'move') and not d[2]['rv']['op']['place']['p']:
                cur = d[2]['rv']['op']['place']['l']
                continue
            if d[0] == 'call':
                f2 = (d[2].get('func') or {}).get('fn') or {}
                if (f2.get('path') == 'core::iter::IntoIterator::into_iter' or (f2.get('name') == 'iter' and 'slice' in str(f2.get('path')))) and len(d[2]['args']) == 1:
                    src = d[2]['args'][0]
            break
        if src is None or src.get('k') not in ('copy', 'move') or src['place']['p']:
            continue
        k = _array_len_of_ref(b, src)
        if k is None or not (0 < k <= _UNROLL_MAX):
            continue
        sty = L[src['place']['l']]['ty']
        if not sty.startswith('&') or sty.startswith('&mut'):
            continue
        # the loop: H -> S1 (switch on the discriminant of next's result: 0 -> exit, 1 -> body) ... -> H
        S1 = t['target']
        st1 = blocks[S1]['term']
        if st1.get('k') != 'switch' or S1 == H:
            continue
        tg = dict((v, bb) for v, bb in st1['targets'])
        if 0 not in tg or (1 not in tg and st1.get('otherwise') is None):
            continue
        body_entry = tg.get(1, st1['otherwise'])
        exit_b = tg[0]
        # natural loop: blocks reachable from the body entry without passing H, that reach H
        fwd = set()
        stack = [body_entry]
        while stack:
            x = stack.pop()
            if x in fwd or x == H:
                continue
            fwd.add(x)
            stack.extend(_succ_of(blocks[x]['term']))
        pred = {}
        for i, blk in enumerate(blocks):
            for y in _succ_of(blk['term']):
                pred.setdefault(y, set()).add(i)
        back = set()
        stack = [H]
        while stack:
            x = stack.pop()
            for p_ in pred.get(x, ()):
                if p_ in fwd and p_ not in back:
                    back.add(p_)
                    stack.append(p_)
        loop = back | {H, S1}
        if exit_b in loop or any(blocks[x].get('cleanup') for x in loop):
            continue
        # single entry: nothing outside the loop jumps into it except to H
        if any(p_ not in loop for x in loop if x != H for p_ in pred.get(x, ())):
            continue
        if not any(p_ in loop for p_ in pred.get(H, ())):
            continue
        order = sorted(loop)
        line = t.get('line')
        elem_ty = None
        m = re.match(r"^&mut core::slice::Iter<'_, (.*)>$", str(t['arg_tys'][0]))
        if m:
            elem_ty = m.group(1)
        if elem_ty is None:
            continue
        da = _ty_args(t['dest_ty'])
        base = len(blocks)
        idx = {x: j for j, x in enumerate(order)}
        per = len(order)

        def mapper(i):
            def m_(x):
                if x == H:
                    return base + (i + 1) * per + idx[H]
                if x in idx:
                    return base + i * per + idx[x]
                return x
            return m_
        for i in range(k + 1):
            for x in order:
                ob = blocks[x]
                nb = {'cleanup': ob.get('cleanup', False), 'stmts': copy.deepcopy(ob['stmts']), 'unrolled': True, 'syn': 'unroll'}
                if 'inl' in ob:
                    nb['inl'] = ob['inl']
                if x == H:
                    if i < k:
                        L.append({'ty': '&' + elem_ty, 'ty_raw': '&' + elem_ty, 'name': None, 'mut': True, 'synthetic': True})
                        e_l = len(L) - 1
                        nb['stmts'].append({'k': 'assign', 'place': {'l': e_l, 'p': []}, 'rv': {'k': 'ref', 'mut': False, 'fake': False,
                                            'place': {'l': src['place']['l'], 'p': ['deref', {'cindex': i, 'from_end': False, 'min_len': i + 1}]}},
                                            'line': line, 'exp': False, 'syn': 'unroll'})
                        nb['stmts'].append({'k': 'assign', 'place': t['dest'], 'rv': _agg('core::option::Option', 'Some', 1, ['0'], [{'k': 'move', 'place': {'l': e_l, 'p': []}}], da),
                                            'line': line, 'exp': False, 'syn': 'unroll'})
                    else:
                        nb['stmts'].append({'k': 'assign', 'place': t['dest'], 'rv': _agg('core::option::Option', 'None', 0, [], [], da), 'line': line, 'exp': False, 'syn': 'unroll'})
                    nb['term'] = {'k': 'goto', 'target': base + i * per + idx[S1], 'line': line, 'syn': 'unroll'}
                elif i == k and x != S1:
                    # after the last element only H and the branch block run; the rest of this copy is unreachable
                    nb['term'] = {'k': 'unreachable', 'line': line}
                    nb['stmts'] = []
                else:
                    nb['term'] = _retarget(ob['term'], mapper(i))
                blocks.append(nb)
        hb['term'] = {'k': 'goto', 'target': base + idx[H], 'line': line, 'syn': 'unroll'}
        hb['unrolled'] = True
        return True
    return False



# N2b a method of the pinned tree that is now a *default method* of its (crate-private) trait: for every impl of the trait that
#     does not override it, the impl's own copy is materialised — the default body with Self := the impl's type — and calls to
#     new required methods of the same trait on Self are resolved to that impl and inlined.  Each role gets back the body the
#     pinned tree had for it (`<OpModeR as OpMode>::get_psk_bytes`), built from what the code now says.
def materialize_default_methods(doc):
    crate = (doc.get('meta') or {}).get('crate', 'hpke')
    pinned = set(pinned_keys().get(crate, []))
    info = []
    if not pinned:
        doc.setdefault('meta', {})['materialized_defaults'] = info
        return doc
    bodies = doc['bodies']
    by_key = {b['key']: b for b in bodies}
    defaults = [b for b in bodies if b.get('default_of') and b['key'] not in pinned]
    for im in doc.get('impls', []):
        if im.get('trait_crate') != crate or not im.get('trait'):
            continue
        have = {f['name'] for f in (im.get('fns') or [])}
        sib = [by_key[f['key']] for f in (im.get('fns') or []) if f['key'] in by_key]
        for D in defaults:
            df = D['default_of']
            if df.get('trait') != im.get('trait_def') or df['name'] in have:
                continue
            K = '<%s as %s>::%s' % (im['self_ty'], im['trait'], df['name'])
            if K not in pinned or K in by_key:
                continue
            nb = copy.deepcopy(D)
            nb['key'] = K
            nb['impl_of'] = {'self_ty': im['self_ty'], 'trait': im['trait'], 'name': df['name']}
            nb['default_of'] = None
            nb['materialized'] = D['key']
            if sib:
                nb['generics'] = list(sib[0].get('generics') or [])
                if sib[0].get('generic_bounds') is not None:
                    nb['generic_bounds'] = copy.deepcopy(sib[0]['generic_bounds'])
            sub = _subst_types({'locals': nb['locals'], 'blocks': nb['blocks'], 'sig': nb.get('sig')}, {'Self': im['self_ty']}, doc)
            nb['locals'], nb['blocks'] = sub['locals'], sub['blocks']
            if nb.get('sig') is not None:
                nb['sig'] = sub['sig']
            bodies.append(nb)
            by_key[K] = nb
            # calls on Self to other methods of the same trait: this impl's methods
            guard = 0
            again = True
            while again and guard < 16:
                again = False
                guard += 1
                for bi, blk in enumerate(nb['blocks']):
                    t = blk['term']
                    fn = (t.get('func') or {}).get('fn') if t.get('k') == 'call' else None
                    if not fn or fn.get('trait') != im.get('trait_def') or fn.get('self_ty') != im['self_ty']:
                        continue
                    tk = '<%s as %s>::%s' % (im['self_ty'], im['trait'], fn['name'])
                    if tk not in by_key or tk == K:
                        continue
                    fn['resolved'] = {'path': tk, 'key': tk, 'local': True, 'crate': crate, 'kind': 'item', 'desc': 'item'}
                    fn['local'] = True
                    # same impl, same generic parameters: nothing to instantiate
                    fn['subst_map'] = {'Self': im['self_ty']}
                    if tk not in pinned and inline_call(nb, bi, by_key[tk], doc):
                        again = True
                        break
                if again:
                    continue
                # small inherent accessors of the impl's own type called on self (`self.get_pk_sender_id().is_some()`): inlined
                # into this synthetic body only, so that it is a function of the variant like the body it replaces
                for bi, blk in enumerate(nb['blocks']):
                    t = blk['term']
                    if t.get('k') != 'call' or blk.get('cleanup'):
                        continue
                    k2, fn2 = _callee_key(t)
                    cal = by_key.get(k2) if k2 else None
                    if cal is None or cal is nb or fn2.get('trait') or len(cal['blocks']) > 16 or cal.get('default_of'):
                        continue
                    if (cal.get('impl_of') or {}).get('self_ty') != im['self_ty'] or (cal.get('impl_of') or {}).get('trait'):
                        continue
                    if any((bb['term'].get('k') == 'call' and _callee_key(bb['term'])[0]) for bb in cal['blocks']):
                        continue          # leaf accessors only
                    fn2['subst_map'] = {'Self': im['self_ty']}
                    if inline_call(nb, bi, cal, doc):
                        again = True
                        break
            info.append(K)
    doc.setdefault('meta', {})['materialized_defaults'] = info
    return doc



# N2c a private function of the pinned tree that has become generic over its *return type* — `fn f<R: From<X>, …>(…) -> R` ending
#     in `R::from(x)` — is the pinned `fn f<…>(…) -> X` followed, at each (monomorphic) call site, by the conversion into that
#     site's R.  The trailing conversion is hoisted out of the callee and re-attached after every call.
def hoist_return_conversion(doc):
    crate = (doc.get('meta') or {}).get('crate', 'hpke')
    pinned = set(pinned_keys().get(crate, []))
    done = []
    bodies = doc['bodies']
    for f in bodies:
        if f['key'] not in pinned or f.get('exported') or f.get('kind') not in ('Fn', 'AssocFn'):
            continue
        gens = [g for g in (f.get('generics') or []) if not g.startswith("'")]
        rty = f['locals'][0]['ty']
        if rty not in gens or 'core::convert::From' not in ((f.get('generic_bounds') or {}).get(rty) or []):
            continue
        P = rty
        # exactly one definition of _0: the call `<P as From<X>>::from(v)`, whose target returns
        sites = []
        for bi, blk in enumerate(f['blocks']):
            if blk.get('cleanup'):
                continue
            for st in blk['stmts']:
                if st.get('k') == 'assign' and st['place']['l'] == 0:
                    sites.append(('stmt', bi))
            t = blk['term']
            if t.get('k') == 'call' and t.get('dest', {}).get('l') == 0:
                sites.append(('call', bi))
        if len(sites) != 1 or sites[0][0] != 'call':
            continue
        cbi = sites[0][1]
        t = f['blocks'][cbi]['term']
        fn = (t.get('func') or {}).get('fn') or {}
        ga = fn.get('generic_args') or []
        if fn.get('path') != 'core::convert::From::from' or fn.get('self_ty') != P or len(ga) != 2 or ga[0] != P or len(t['args']) != 1 or t['dest']['p'] or t.get('target') is None:
            continue
        X = ga[1]
        rx = re.compile(r'(?<![\w:])' + re.escape(P) + r'(?![\w])')
        if rx.search(X):
            continue
        # P occurs nowhere else in the body
        others = [l for i, l in enumerate(f['locals']) if i != 0 and rx.search(l['ty'])]
        if others:
            continue
        pidx = gens.index(P)
        # every call of f is direct and names all generic arguments
        calls = []
        okc = True
        for b in bodies:
            for bi, blk in enumerate(b['blocks']):
                ct = blk['term']
                if ct.get('k') != 'call':
                    continue
                k2, fn2 = _callee_key(ct)
                if k2 != f['key']:
                    continue
                g2 = [g for g in (fn2.get('generic_args') or []) if not g.startswith("'")]
                if len(g2) != len(gens) or ct['dest']['p'] or ct.get('target') is None:
                    okc = False
                calls.append((b, bi, g2))
        if not okc or not calls or _mentions_fn_value(doc, f['key']):
            continue
        # --- the callee returns X
        f['locals'][0] = dict(f['locals'][0], ty=X, ty_raw=X)
        blk = f['blocks'][cbi]
        blk['stmts'].append({'k': 'assign', 'place': {'l': 0, 'p': []}, 'rv': {'k': 'use', 'op': t['args'][0]}, 'line': t.get('line'), 'exp': False, 'syn': 'hoist'})
        blk['term'] = {'k': 'goto', 'target': t['target'], 'line': t.get('line'), 'syn': 'hoist'}
        f['generics'] = [g for g in (f.get('generics') or []) if g != P]
        if f.get('generic_bounds'):
            f['generic_bounds'] = {k: v for k, v in f['generic_bounds'].items() if k != P}
        if f.get('sig'):
            f['sig'] = dict(f['sig'], output=X)
        # --- every call site converts
        for b, bi, g2 in calls:
            cblk = b['blocks'][bi]
            ct = cblk['term']
            fn2 = ct['func']['fn']
            T = g2[pidx]
            tmap = {g: a for g, a in zip(gens, g2) if g != P and g != a}
            Xc = _subst_types({'ty': X}, tmap, doc)['ty'] if tmap else X
            b['locals'].append({'ty': Xc, 'ty_raw': Xc, 'name': None, 'mut': True, 'synthetic': True})
            tmp = len(b['locals']) - 1
            lifetimes = [g for g in (fn2.get('generic_args') or []) if g.startswith("'")]
            rest = [g for i, g in enumerate(g2) if i != pidx]
            fn2['generic_args'] = lifetimes + rest
            fn2['path_args'] = '%s::<%s>' % (fn2['path'], ', '.join(lifetimes + rest)) if (lifetimes + rest) else fn2['path']
            dest, target = ct['dest'], ct['target']
            ct['dest'] = {'l': tmp, 'p': []}
            ct['dest_ty'] = Xc
            nb_i = len(b['blocks'])
            ct['target'] = nb_i
            pa = '<%s as core::convert::From<%s>>::from' % (T, Xc)
            impl = [im for im in doc.get('impls', []) if im.get('trait_def') == 'core::convert::From' and im.get('self_ty') == T and im.get('trait') == 'core::convert::From<%s>' % Xc]
            rk = impl[0]['fns'][0]['key'] if impl and impl[0].get('fns') else None
            cfn = {'path': 'core::convert::From::from', 'path_args': pa, 'key': 'core::convert::From::from', 'crate': 'core', 'local': False, 'name': 'from',
                   'generic_args': [T, Xc], 'def_kind': 'AssocFn', 'trait': 'core::convert::From', 'self_ty': T,
                   'resolved': ({'path': rk, 'key': rk, 'local': True, 'crate': crate, 'kind': 'item', 'desc': 'item'} if rk else None)}
            b['blocks'].append({'cleanup': False, 'syn': 'hoist', 'stmts': [],
                                'term': {'k': 'call', 'func': {'k': 'const', 'ty': 'fn', 'text': pa, 'fn': cfn}, 'args': [{'k': 'move', 'place': {'l': tmp, 'p': []}}],
                                         'arg_tys': [Xc], 'dest': dest, 'dest_ty': T, 'target': target, 'unwind': ct.get('unwind', 'continue'), 'source': 'Normal',
                                         'line': ct.get('line'), 'fn_line': ct.get('line'), 'exp': False, 'syn': 'hoist'}})
        done.append(f['key'])
    doc.setdefault('meta', {})['hoisted_return_conversions'] = done
    return doc



# N3k small Option/Result combinators that take a *value*, and the variant tests:
#     x.map_or(d, f) = x.map(f).unwrap_or(d);  x.unwrap_or(d) = match x { Some(v)/Ok(v) => v, _ => d };
#     x.is_some() / is_none() / is_ok() / is_err() = discriminant(x) == k
def expand_value_combinators(doc):
    n = 0
    for b in doc['bodies']:
        blocks = b['blocks']
        L = b['locals']

        def new_local(ty):
            L.append({'ty': ty, 'ty_raw': ty, 'name': None, 'mut': True, 'synthetic': True})
            return len(L) - 1
        i = 0
        while i < len(blocks):
            blk = blocks[i]
            i += 1
            t = blk['term']
            if t.get('k') != 'call' or blk.get('cleanup') or t.get('target') is None or t['dest']['p']:
                continue
            fn = (t.get('func') or {}).get('fn') or {}
            path = fn.get('path')
            line = t.get('line')

            def asg(place, rv, syn):
                return {'k': 'assign', 'place': place, 'rv': rv, 'line': line, 'exp': False, 'syn': syn}
            if path in ('core::option::Option::<T>::map_or', 'core::result::Result::<T, E>::map_or') and len(t['args']) == 3:
                x, d, f = t['args']
                is_opt = path.startswith('core::option')
                xa = _ty_args(t['arg_tys'][0])
                u = t['dest_ty']
                mid_ty = ('core::option::Option<%s>' % u) if is_opt else ('core::result::Result<%s, %s>' % (u, xa[1] if len(xa) == 2 else '?'))
                mid = new_local(mid_ty)
                mfn = dict(fn)
                mname = 'core::option::Option::<T>::map' if is_opt else 'core::result::Result::<T, E>::map'
                mfn.update({'path': mname, 'key': mname, 'name': 'map', 'path_args': mname})
                ufn = dict(fn)
                uname = 'core::option::Option::<T>::unwrap_or' if is_opt else 'core::result::Result::<T, E>::unwrap_or'
                ufn.update({'path': uname, 'key': uname, 'name': 'unwrap_or', 'path_args': uname, 'generic_args': [u] + ([xa[1]] if not is_opt and len(xa) == 2 else [])})
                nb = len(blocks)
                blocks.append({'cleanup': False, 'syn': 'map_or', 'stmts': [],
                               'term': dict(t, func={'k': 'const', 'ty': 'fn', 'text': uname, 'fn': ufn}, args=[{'k': 'move', 'place': {'l': mid, 'p': []}}, d],
                                            arg_tys=[mid_ty, t['arg_tys'][1]], syn='map_or')})
                blk['term'] = dict(t, func={'k': 'const', 'ty': 'fn', 'text': mname, 'fn': mfn}, args=[x, f], arg_tys=[t['arg_tys'][0], t['arg_tys'][2]],
                                   dest={'l': mid, 'p': []}, dest_ty=mid_ty, target=nb, syn='map_or')
                n += 1
                continue
            if path in ('core::option::Option::<T>::unwrap_or', 'core::result::Result::<T, E>::unwrap_or') and len(t['args']) == 2:
                x, d = t['args']
                if x.get('k') != 'move' or x['place']['p']:
                    continue
                is_opt = path.startswith('core::option')
                xl = x['place']['l']
                okv, okidx, adt = ('Some', 1, 'core::option::Option') if is_opt else ('Ok', 0, 'core::result::Result')
                dl = new_local('isize')
                base = len(blocks)
                blk['stmts'].append(asg({'l': dl, 'p': []}, {'k': 'discriminant', 'place': {'l': xl, 'p': []}}, 'unwrap_or'))
                blk['term'] = {'k': 'switch', 'discr': {'k': 'move', 'place': {'l': dl, 'p': []}}, 'discr_ty': 'isize', 'targets': [[okidx, base]], 'otherwise': base + 1,
                               'line': line, 'exp': False, 'syn': 'unwrap_or'}
                payload = {'l': xl, 'p': [{'downcast': okv, 'v': okidx}, {'f': '0', 'i': 0, 'ty': t['dest_ty'], 'adt': adt}]}
                blocks.append({'cleanup': False, 'syn': 'unwrap_or', 'stmts': [asg(t['dest'], {'k': 'use', 'op': {'k': 'move', 'place': payload}}, 'unwrap_or')],
                               'term': {'k': 'goto', 'target': t['target'], 'line': line}})
                blocks.append({'cleanup': False, 'syn': 'unwrap_or', 'stmts': [asg(t['dest'], {'k': 'use', 'op': d}, 'unwrap_or')],
                               'term': {'k': 'goto', 'target': t['target'], 'line': line}})
                n += 1
                continue
            tests = {'core::option::Option::<T>::is_some': 1, 'core::option::Option::<T>::is_none': 0,
                     'core::result::Result::<T, E>::is_ok': 0, 'core::result::Result::<T, E>::is_err': 1}
            if path in tests and len(t['args']) == 1 and path.startswith('core::option'):
                x = t['args'][0]
                if x.get('k') not in ('move', 'copy') or x['place']['p']:
                    continue
                dl = new_local('isize')
                blk['stmts'].append(asg({'l': dl, 'p': []}, {'k': 'discriminant', 'place': {'l': x['place']['l'], 'p': ['deref']}}, 'is_some'))
                blk['stmts'].append(asg(t['dest'], {'k': 'binop', 'op': 'Eq', 'l': {'k': 'move', 'place': {'l': dl, 'p': []}},
                                                    'r': {'k': 'const', 'ty': 'isize', 'text': '%d_isize' % tests[path], 'int': tests[path]}, 'lty': 'isize'}, 'is_some'))
                blk['term'] = {'k': 'goto', 'target': t['target'], 'line': line, 'syn': 'is_some'}
                n += 1
    doc.setdefault('meta', {})['expanded_value_combinators'] = n
    return doc



# N3l `cond.then(f)` is `if cond { Some(f()) } else { None }`
def expand_bool_then(doc):
    n = 0
    for b in doc['bodies']:
        blocks = b['blocks']
        L = b['locals']
        for blk in list(blocks):
            t = blk['term']
            if t.get('k') != 'call' or blk.get('cleanup') or t.get('target') is None or len(t.get('args', [])) != 2 or t['dest']['p']:
                continue
            fn = (t.get('func') or {}).get('fn') or {}
            if fn.get('path') != 'core::bool::<impl bool>::then' or 'closure@' not in str(t['arg_tys'][1]):
                continue
            c, f = t['args']
            if f.get('k') != 'move' or f['place']['p']:
                continue
            da = _ty_args(t['dest_ty'])
            if len(da) != 1:
                continue
            line = t.get('line')
            cty = t['arg_tys'][1]

            def new_local(ty):
                L.append({'ty': ty, 'ty_raw': ty, 'name': None, 'mut': True, 'synthetic': True})
                return len(L) - 1
            r_l, u_l = new_local(da[0]), new_local('()')
            base = len(blocks)
            cfn = {'path': 'core::ops::FnOnce::call_once', 'path_args': '<%s as core::ops::FnOnce<()>>::call_once' % cty, 'key': 'core::ops::FnOnce::call_once',
                   'crate': 'core', 'local': False, 'name': 'call_once', 'trait': 'core::ops::FnOnce', 'self_ty': cty, 'generic_args': [cty, '()'], 'def_kind': 'AssocFn',
                   'resolved': None}
            blk['term'] = {'k': 'switch', 'discr': c, 'discr_ty': 'bool', 'targets': [[0, base + 2]], 'otherwise': base, 'line': line, 'exp': False, 'syn': 'then'}
            blocks.append({'cleanup': False, 'syn': 'then', 'stmts': [
                {'k': 'assign', 'place': {'l': u_l, 'p': []}, 'rv': {'k': 'aggregate', 'agg': 'tuple', 'fields': []}, 'line': line, 'exp': False, 'syn': 'then'}],
                'term': {'k': 'call', 'func': {'k': 'const', 'ty': 'fn', 'text': cfn['path_args'], 'fn': cfn}, 'args': [f, {'k': 'move', 'place': {'l': u_l, 'p': []}}],
                         'arg_tys': [cty, '()'], 'dest': {'l': r_l, 'p': []}, 'dest_ty': da[0], 'target': base + 1, 'unwind': t.get('unwind', 'continue'),
                         'source': 'Normal', 'line': line, 'fn_line': line, 'exp': False, 'syn': 'then'}})
            blocks.append({'cleanup': False, 'syn': 'then', 'stmts': [
                {'k': 'assign', 'place': t['dest'], 'rv': _agg('core::option::Option', 'Some', 1, ['0'], [{'k': 'move', 'place': {'l': r_l, 'p': []}}], da), 'line': line, 'exp': False, 'syn': 'then'}],
                'term': {'k': 'goto', 'target': t['target'], 'line': line}})
            blocks.append({'cleanup': False, 'syn': 'then', 'stmts': [
                {'k': 'assign', 'place': t['dest'], 'rv': _agg('core::option::Option', 'None', 0, [], [], da), 'line': line, 'exp': False, 'syn': 'then'}],
                'term': {'k': 'goto', 'target': t['target'], 'line': line}})
            n += 1
    doc.setdefault('meta', {})['expanded_bool_then'] = n
    return doc
