// Demonstration of finding F1 (C05): appended inside `mod test { mod x25519_tests { .. } }` of src/aead.rs.
// On the pinned tree the last assertion fails with
//   left: Some(OpenError)  right: Some(MessageLimitReached)
// and passes after the `fix:` commit.
#[test]
fn verif_f1_short_ciphertext_after_exhaustion() {
    type Kem = crate::kem::X25519HkdfSha256;
    type Kdf = HkdfSha256;
    type A = ChaCha20Poly1305;
    let big_seq = { let mut seq = <Seq as Default>::default(); seq.0 = u64::MAX; seq };
    let (mut sender_ctx, mut receiver_ctx) = gen_ctx_simple_pair::<A, Kdf, Kem>();
    sender_ctx.0.seq = big_seq.clone();
    receiver_ctx.0.seq = big_seq.clone();
    let msg = b"draxx them sklounst";
    let aad = b"you have to have the kebapi";
    let ct = sender_ctx.seal(msg, aad).expect("seal() failed");
    let pt = receiver_ctx.open(&ct, aad).expect("open() failed");
    assert_eq!(&pt, msg);
    // the receiver is now exhausted: every call must answer MessageLimitReached
    assert_eq!(receiver_ctx.open(&[0u8; 32], aad).err(), Some(HpkeError::MessageLimitReached));
    let tag = AeadTag::<A>::default();
    assert_eq!(receiver_ctx.open_in_place_detached(&mut [], aad, &tag).err(), Some(HpkeError::MessageLimitReached));
    assert_eq!(receiver_ctx.open(&[0u8; 5], aad).err(), Some(HpkeError::MessageLimitReached));
}
