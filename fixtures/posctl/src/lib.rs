//! Positive controls: deliberately bad constructs on which the zero-count rules of the checker
//! MUST fire.  Never linked into anything; analysed by the same driver as the real crate.
#![allow(dead_code, unused)]

pub mod aead {
    pub struct Seq(pub u64);
    /// same path as the real context type: `aead::AeadCtx`
    pub struct AeadCtx {
        pub overflowed: bool,
        pub seq: Seq,
        pub base_nonce: [u8; 12],
    }
    /// R04.6 control: a function outside the seal/open bodies re-arms an exhausted context
    pub fn rearm(ctx: &mut AeadCtx) {
        ctx.overflowed = false;
        ctx.seq = Seq(0);
    }
    /// R04.6 control: a `&mut` to a context field escapes
    pub fn leak_seq(ctx: &mut AeadCtx) -> &mut Seq {
        &mut ctx.seq
    }
    /// R04.6 control: public constructor with a non-zero counter and a set latch
    pub fn build() -> AeadCtx {
        AeadCtx { overflowed: true, seq: Seq(7), base_nonce: [0; 12] }
    }
}

pub mod hidden_state {
    use core::cell::Cell;
    use core::sync::atomic::{AtomicU64, Ordering};
    /// R18.1 controls
    pub static mut COUNTER: u64 = 0;
    pub static ATOMIC: AtomicU64 = AtomicU64::new(0);
    pub static TABLE: [u8; 4] = [1, 2, 3, 4];
    std::thread_local! { pub static TL: Cell<u32> = Cell::new(0); }
    pub struct WithCell { pub c: Cell<u64> }
    pub struct WithRc { pub r: std::rc::Rc<u8> }
    pub fn bump() -> u64 { ATOMIC.fetch_add(1, Ordering::SeqCst) }
    pub fn raw(p: *const u8) -> u8 { unsafe { *p } }
    pub unsafe fn ufn() {}
    pub struct S; unsafe impl Send for S {}
    pub fn clock() -> std::time::Instant { std::time::Instant::now() }
    pub fn env() -> Option<String> { std::env::var("X").ok() }
    /// R18.6 controls: values derived from an address (ASLR / stack depth / thread dependent)
    pub fn addr_cast(x: &u8) -> usize { x as *const u8 as usize }
    pub fn addr_method(x: &[u8]) -> usize { x.as_ptr().addr() }
    pub fn addr_fmt(x: &u8) -> String { format!("{:p}", x) }
}

pub mod leaks {
    pub struct Secret(pub [u8; 32]);
    impl Drop for Secret { fn drop(&mut self) { self.0[0] = 0; } }
    /// R16 controls
    pub fn forget_it(s: Secret) { core::mem::forget(s) }
    pub fn manual(s: Secret) -> core::mem::ManuallyDrop<Secret> { core::mem::ManuallyDrop::new(s) }
}
