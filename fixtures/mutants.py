"""Seeded property-breaking variants of rozbb/rust-hpke (self-test of the checker).

Each entry: name, edits [(file, old, new)] (old must occur exactly once), expect [(property, rule)],
and a note saying what it needs to manifest at run time.  All of them compile; `./selftest --tests`
shows which ones the repository's own test-suite misses."""

AEAD = 'src/aead.rs'
UTIL = 'src/util.rs'
SETUP = 'src/setup.rs'
KDF = 'src/kdf.rs'
DHKEM = 'src/kem/dhkem.rs'
NIST = 'src/dhkex/ecdh_nistp.rs'
import os as _os
BP = _os.path.join(_os.path.dirname(_os.path.abspath(__file__)), 'benign_patches') + '/'
X25519 = 'src/dhkex/x25519.rs'
OPMODE = 'src/op_mode.rs'
SINGLE = 'src/single_shot.rs'
KEM = 'src/kem.rs'
LIB = 'src/lib.rs'

SEAL_MATCH = """            // Try to increment the sequence counter. If it fails, this was our last encryption.
            match increment_seq(&self.0.seq) {
                Some(new_seq) => self.0.seq = new_seq,
                None => self.0.overflowed = true,
            }
"""
OPEN_MATCH = """            // our last decryption.
            match increment_seq(&self.0.seq) {
                Some(new_seq) => self.0.seq = new_seq,
                None => self.0.overflowed = true,
            }
"""

MUTANTS = [
    # ------------------------------------------------------------------ C04
    dict(name='c04-le-counter', expect=[('C04', 'R02.3')],
         note='interop only: sender and receiver agree with each other',
         edits=[(UTIL, """    buf[0] = ((n & 0xff00000000000000) >> 56) as u8;
    buf[1] = ((n & 0x00ff000000000000) >> 48) as u8;""", """    buf[1] = ((n & 0xff00000000000000) >> 56) as u8;
    buf[0] = ((n & 0x00ff000000000000) >> 48) as u8;""")]),
    dict(name='c04-counter-at-front', expect=[('C04', 'R04.1')],
         note='nonce differs from RFC; self-consistent',
         edits=[(AEAD, "write_u64_be(&mut seq_buf.0[nonce_size - seq_size..], seq.0);",
                 "write_u64_be(&mut seq_buf.0[..seq_size], seq.0);")]),
    dict(name='c04-counter-truncated-u32', expect=[('C04', 'R04.1')],
         note='nonce reuse after 2^32 messages',
         edits=[(AEAD, "write_u64_be(&mut seq_buf.0[nonce_size - seq_size..], seq.0);",
                 "write_u64_be(&mut seq_buf.0[nonce_size - seq_size..], seq.0 as u32 as u64);")]),
    dict(name='c04-wrapping-add', expect=[('C04', 'R04.5')],
         note='wraps to nonce 0 after 2^64 messages',
         edits=[(AEAD, "seq.0.checked_add(1).map(Seq)", "Some(Seq(seq.0.wrapping_add(1)))")]),
    dict(name='c04-step-two', expect=[('C04', 'R04.5')],
         note='skips every other nonce; limit reached at 2^63',
         edits=[(AEAD, "seq.0.checked_add(1).map(Seq)", "seq.0.checked_add(2).map(Seq)")]),
    dict(name='c04-increment-before-encrypt', expect=[('C04', 'R04.4')],
         note='a SealError leaves the counter advanced; first nonce is base^1',
         edits=[(AEAD, """            let nonce = mix_nonce::<A>(&self.0.base_nonce, &self.0.seq);
            let tag = self""", """            let nonce = mix_nonce::<A>(&self.0.base_nonce, &self.0.seq);
            if let Some(s) = increment_seq(&self.0.seq) { self.0.seq = s; }
            let tag = self""")]),
    dict(name='c04-rearm-on-refusal', expect=[('C04', 'R04.6')],
         note='needs 2^64 seals, then one refusal, then seal again: nonce reuse',
         edits=[(AEAD, """            // If the sequence counter overflowed, we've been used for far too long. Shut down.
            Err(HpkeError::MessageLimitReached)""", """            // If the sequence counter overflowed, we've been used for far too long. Shut down.
            self.0.overflowed = false;
            Err(HpkeError::MessageLimitReached)""")]),
    dict(name='c04-no-latch', expect=[('C04', 'R04.4')],
         note='after the last nonce the context keeps sealing under nonce 2^64-1 forever',
         edits=[(AEAD, SEAL_MATCH, """            match increment_seq(&self.0.seq) {
                Some(new_seq) => self.0.seq = new_seq,
                None => {}
            }
""")]),
    dict(name='c04-overflow-check-after-encrypt', expect=[('C04', 'R04.3')],
         note='exhausted context encrypts the caller buffer before refusing',
         edits=[(AEAD, """        if self.0.overflowed {
            // If the sequence counter overflowed, we've been used for far too long. Shut down.
            Err(HpkeError::MessageLimitReached)
        } else {
            // Compute the nonce and do the encryption in place
            let nonce = mix_nonce::<A>(&self.0.base_nonce, &self.0.seq);
            let tag = self
                .0
                .encryptor
                .encrypt_in_place_detached(&nonce.0, aad, plaintext)
                .map_err(|_| HpkeError::SealError)?;
""", """        let nonce = mix_nonce::<A>(&self.0.base_nonce, &self.0.seq);
        let tag = self
            .0
            .encryptor
            .encrypt_in_place_detached(&nonce.0, aad, plaintext)
            .map_err(|_| HpkeError::SealError)?;
        if self.0.overflowed {
            // If the sequence counter overflowed, we've been used for far too long. Shut down.
            Err(HpkeError::MessageLimitReached)
        } else {
""")]),
    dict(name='c04-nonce-ignores-seq', expect=[('C04', 'R04.2')],
         note='every message under the base nonce',
         edits=[(AEAD, """            let nonce = mix_nonce::<A>(&self.0.base_nonce, &self.0.seq);
            let tag = self""", """            let nonce = mix_nonce::<A>(&self.0.base_nonce, &Seq(0));
            let tag = self""")]),
    dict(name='c04-seal-swallows-error', expect=[('C04', 'R04.7')],
         note='allocating seal maps MessageLimitReached to SealError',
         edits=[(AEAD, "let tag = self.seal_in_place_detached(&mut buf[..plaintext.len()], aad)?;",
                 "let tag = self.seal_in_place_detached(&mut buf[..plaintext.len()], aad).map_err(|_| HpkeError::SealError)?;")]),
    dict(name='c04-ctor-seq-one', expect=[('C04', 'R04.6')],
         note='first message uses nonce base^1 on both sides; interop only',
         edits=[(AEAD, "seq: <Seq as Default>::default(),", "seq: Seq(1),")]),
    # ------------------------------------------------------------------ C05
    dict(name='c05-f1-returns', expect=[('C05', 'R05.4')],
         note='the repaired defect F1 re-introduced: needs an exhausted receiver and a ciphertext shorter than a tag',
         edits=[(AEAD, """        // An exhausted context refuses every call, including ones with a malformed ciphertext
        if self.0.overflowed {
            return Err(HpkeError::MessageLimitReached);
        }

""", "")]),
    dict(name='c05-increment-before-tagcheck', expect=[('C05', 'R05.1')],
         note='a forged message desynchronises the receiver (DoS); needs a failing open followed by a valid one',
         edits=[(AEAD, """            if decrypt_res.is_err() {
                // Opening failed due to a bad tag
                return Err(HpkeError::OpenError);
            }

            // Opening was a success. Try to increment the sequence counter. If it fails, this was
            // our last decryption.
            match increment_seq(&self.0.seq) {
                Some(new_seq) => self.0.seq = new_seq,
                None => self.0.overflowed = true,
            }
""", """            match increment_seq(&self.0.seq) {
                Some(new_seq) => self.0.seq = new_seq,
                None => self.0.overflowed = true,
            }
            if decrypt_res.is_err() {
                // Opening failed due to a bad tag
                return Err(HpkeError::OpenError);
            }
""")]),
    dict(name='c05-advance-on-failure-too', expect=[('C05', 'R05.1')],
         note='needs a failing open followed by a valid one',
         edits=[(AEAD, """                // Opening failed due to a bad tag
                return Err(HpkeError::OpenError);""", """                // Opening failed due to a bad tag
                if let Some(s) = increment_seq(&self.0.seq) { self.0.seq = s; }
                return Err(HpkeError::OpenError);""")]),
    dict(name='c05-no-advance-on-success', expect=[('C05', 'R05.2')],
         note='receiver accepts message 0 forever (replay); second message fails',
         edits=[(AEAD, OPEN_MATCH, """            // our last decryption.
""")]),
    dict(name='c05-verdict-ignored', expect=[('C05', 'R05.3')],
         note='every forged ciphertext is accepted',
         edits=[(AEAD, """            if decrypt_res.is_err() {
                // Opening failed due to a bad tag
                return Err(HpkeError::OpenError);
            }
""", """            let _ = decrypt_res;
""")]),
    dict(name='c05-unchecked-sub', expect=[('C05', 'R05.5')],
         note='panics (debug) or wraps (release) on ciphertexts shorter than a tag',
         edits=[(AEAD, """        let msg_len = ciphertext
            .len()
            .checked_sub(tag_len)
            .ok_or(HpkeError::OpenError)?;""", """        let msg_len = ciphertext.len() - tag_len;""")]),
    dict(name='c05-short-input-wrong-error', expect=[('C05', 'R05.5')],
         note='short ciphertext yields ValidationError instead of OpenError',
         edits=[(AEAD, """            .checked_sub(tag_len)
            .ok_or(HpkeError::OpenError)?;""", """            .checked_sub(tag_len)
            .ok_or(HpkeError::ValidationError)?;""")]),
    dict(name='c05-open-remaps-error', expect=[('C05', 'R05.6')],
         note='allocating open reports OpenError for an exhausted context reached through the in-place path',
         edits=[(AEAD, "self.open_in_place_detached(&mut buf, aad, &tag)?;",
                 "self.open_in_place_detached(&mut buf, aad, &tag).map_err(|_| HpkeError::OpenError)?;")]),
    dict(name='c05-reset-seq-on-refusal', expect=[('C05', 'R05.1')],
         note='needs 2^64 opens then one refused call',
         edits=[(AEAD, """            // If the sequence counter overflowed, we've been used for too long. Shut down.
            Err(HpkeError::MessageLimitReached)""", """            // If the sequence counter overflowed, we've been used for too long. Shut down.
            self.0.seq = Seq(0);
            Err(HpkeError::MessageLimitReached)""")]),
    dict(name='c05-inplace-no-overflow-check', expect=[('C05', 'R05.4')],
         note='exhausted receiver keeps opening under nonce 2^64-1',
         edits=[(AEAD, """        if self.0.overflowed {
            // If the sequence counter overflowed, we've been used for too long. Shut down.
            Err(HpkeError::MessageLimitReached)
        } else {
            // Compute the nonce and do the encryption in place
            let nonce = mix_nonce::<A>(&self.0.base_nonce, &self.0.seq);
            let decrypt_res = self""", """        if false {
            // If the sequence counter overflowed, we've been used for too long. Shut down.
            Err(HpkeError::MessageLimitReached)
        } else {
            // Compute the nonce and do the encryption in place
            let nonce = mix_nonce::<A>(&self.0.base_nonce, &self.0.seq);
            let decrypt_res = self""")]),
    # ------------------------------------------------------------------ C06
    dict(name='c06-aad-dropped-both-sides', expect=[('C06', 'R06.1'), ('C06', 'R06.3')],
         note='aad no longer authenticated; only a wrong-aad open exposes it',
         edits=[(AEAD, ".decrypt_in_place_detached(&nonce.0, aad, ciphertext, &tag.0);", ".decrypt_in_place_detached(&nonce.0, &[], ciphertext, &tag.0);"),
                (AEAD, ".encrypt_in_place_detached(&nonce.0, aad, plaintext)", ".encrypt_in_place_detached(&nonce.0, &[], plaintext)")]),
    dict(name='c06-tag-from-front-both-sides', expect=[('C06', 'R06.2'), ('C06', 'R06.3')],
         note='wire format tag||ct instead of ct||tag, self-consistent',
         edits=[(AEAD, """        let (ciphertext, tag_slice) = ciphertext.split_at(msg_len);""", """        let (tag_slice, ciphertext) = ciphertext.split_at(tag_len);"""),
                (AEAD, """        let mut buf = vec![0u8; msg_len + tag_len];
        buf[..msg_len].copy_from_slice(plaintext);

        // Seal with a detached tag
        let tag = self.seal_in_place_detached(&mut buf[..plaintext.len()], aad)?;
        // Then append the tag to the end of the buffer. The buffer is now the auth'd ciphertext
        buf[msg_len..msg_len + tag_len].copy_from_slice(&tag.0);""", """        let mut buf = vec![0u8; msg_len + tag_len];
        buf[tag_len..].copy_from_slice(plaintext);

        // Seal with a detached tag
        let tag = self.seal_in_place_detached(&mut buf[tag_len..], aad)?;
        buf[..tag_len].copy_from_slice(&tag.0);""")]),
    dict(name='c06-last-ct-byte-ignored', expect=[('C06', 'R06.1')],
         note='last ciphertext byte not authenticated/decrypted: needs a flip in that byte',
         edits=[(AEAD, ".decrypt_in_place_detached(&nonce.0, aad, ciphertext, &tag.0);",
                 ".decrypt_in_place_detached(&nonce.0, aad, { let n = ciphertext.len(); &mut ciphertext[..n.saturating_sub(0)] }, &tag.0);")],
         expect_note='sub-slice of the buffer parameter'),
    dict(name='c06-single-shot-open-drops-aad', expect=[('C06', 'R06.4'), ('C14', 'R14.1')],
         note='single_shot_open authenticates info instead of aad; only mismatching aad exposes it',
         edits=[(SINGLE, """    // Decrypt
    aead_ctx.open(ciphertext, aad)""", """    // Decrypt
    aead_ctx.open(ciphertext, info)""")]),
    # ------------------------------------------------------------------ C14
    dict(name='c14-info-aad-swapped-alloc', expect=[('C14', 'R14.1')],
         note='single_shot_seal and single_shot_open swap info and aad consistently',
         edits=[(SINGLE, """        setup_sender::<A, Kdf, Kem, R>(mode, pk_recip, info, csprng)?;
    // Encrypt
    let ciphertext = aead_ctx.seal(plaintext, aad)?;""", """        setup_sender::<A, Kdf, Kem, R>(mode, pk_recip, aad, csprng)?;
    // Encrypt
    let ciphertext = aead_ctx.seal(plaintext, info)?;"""),
                (SINGLE, """    let mut aead_ctx = setup_receiver::<A, Kdf, Kem>(mode, sk_recip, encapped_key, info)?;
    // Decrypt
    aead_ctx.open(ciphertext, aad)""", """    let mut aead_ctx = setup_receiver::<A, Kdf, Kem>(mode, sk_recip, encapped_key, aad)?;
    // Decrypt
    aead_ctx.open(ciphertext, info)""")]),
    dict(name='c14-single-shot-empty-info', expect=[('C14', 'R14.1')],
         note='single-shot ignores info on both sides; differs from setup+seal',
         edits=[(SINGLE, """    let (encapped_key, mut aead_ctx) =
        setup_sender::<A, Kdf, Kem, R>(mode, pk_recip, info, csprng)?;
    // Encrypt
    let tag = aead_ctx""", """    let (encapped_key, mut aead_ctx) =
        setup_sender::<A, Kdf, Kem, R>(mode, pk_recip, &[], csprng)?;
    // Encrypt
    let tag = aead_ctx""")]),
    dict(name='c14-error-remapped', expect=[('C14', 'R14.1')],
         note='single_shot_open_in_place_detached reports OpenError for a bad encapsulated key',
         edits=[(SINGLE, """    let mut aead_ctx = setup_receiver::<A, Kdf, Kem>(mode, sk_recip, encapped_key, info)?;
    // Decrypt
    aead_ctx.open_in_place_detached(ciphertext, aad, tag)""", """    let mut aead_ctx = setup_receiver::<A, Kdf, Kem>(mode, sk_recip, encapped_key, info)
        .map_err(|_| HpkeError::OpenError)?;
    // Decrypt
    aead_ctx.open_in_place_detached(ciphertext, aad, tag)""")]),
    dict(name='c14-double-seal', expect=[('C14', 'R14.1')],
         note='single-shot seals twice: ciphertext is under sequence number 1',
         edits=[(SINGLE, """    // Encrypt
    let ciphertext = aead_ctx.seal(plaintext, aad)?;""", """    // Encrypt
    let _ = aead_ctx.seal(plaintext, aad)?;
    let ciphertext = aead_ctx.seal(plaintext, aad)?;""")]),
    dict(name='c14-seal-allocates-short', expect=[('C14', 'R01.4')],
         note='allocating seal returns ciphertext without room for the tag (panics at append)',
         edits=[(AEAD, "let mut buf = vec![0u8; msg_len + tag_len];", "let mut buf = vec![0u8; msg_len + tag_len + 1];")]),
    # ------------------------------------------------------------------ C15
    dict(name='c15-or-for-and', expect=[('C15', 'R15.1')],
         note='lone psk accepted (caught by the 4-case unit test as well)',
         edits=[(OPMODE, "if (psk.is_empty() && psk_id.is_empty()) || (!psk.is_empty() && !psk_id.is_empty()) {",
                 "if (psk.is_empty() || psk_id.is_empty()) || (!psk.is_empty() && !psk_id.is_empty()) {")]),
    dict(name='c15-fields-swapped-in-new', expect=[('C15', 'R15.2')],
         note='psk and psk_id swapped at construction on both sides: interop only',
         edits=[(OPMODE, "Ok(PskBundle { psk, psk_id })", "Ok(PskBundle { psk: psk_id, psk_id: psk })")]),
    dict(name='c15-accessors-swapped', expect=[('C15', 'R15.3')],
         note='psk used as psk_id and vice versa on both sides: interop only',
         edits=[(OPMODE, """            OpModeR::Psk(bundle) => bundle.psk,
            OpModeR::AuthPsk(_, bundle) => bundle.psk,""", """            OpModeR::Psk(bundle) => bundle.psk_id,
            OpModeR::AuthPsk(_, bundle) => bundle.psk_id,"""),
                (OPMODE, """            OpModeR::Psk(p) => p.psk_id,
            OpModeR::AuthPsk(_, p) => p.psk_id,""", """            OpModeR::Psk(p) => p.psk,
            OpModeR::AuthPsk(_, p) => p.psk,"""),
                (OPMODE, """            OpModeS::Psk(bundle) => bundle.psk,
            OpModeS::AuthPsk(_, bundle) => bundle.psk,""", """            OpModeS::Psk(bundle) => bundle.psk_id,
            OpModeS::AuthPsk(_, bundle) => bundle.psk_id,"""),
                (OPMODE, """            OpModeS::Psk(p) => p.psk_id,
            OpModeS::AuthPsk(_, p) => p.psk_id,""", """            OpModeS::Psk(p) => p.psk,
            OpModeS::AuthPsk(_, p) => p.psk,""")]),
    dict(name='c15-auth-mode-nonempty-default', expect=[('C15', 'R15.3')],
         note='Auth/Base use a non-empty default psk on both sides: interop only',
         edits=[(OPMODE, """            OpModeS::AuthPsk(_, bundle) => bundle.psk,
            _ => &[],""", """            OpModeS::AuthPsk(_, bundle) => bundle.psk,
            _ => &[0u8; 32],"""),
                (OPMODE, """            OpModeR::AuthPsk(_, bundle) => bundle.psk,
            _ => &[],""", """            OpModeR::AuthPsk(_, bundle) => bundle.psk,
            _ => &[0u8; 32],""")]),
    dict(name='c15-slots-swapped', expect=[('C15', 'R15.3')],
         note='psk hashed into the context and psk_id used as secret ikm, on both sides',
         edits=[(SETUP, """labeled_extract::<Kdf>(&[], &suite_id, b"psk_id_hash", mode.get_psk_id());""", """labeled_extract::<Kdf>(&[], &suite_id, b"psk_id_hash", mode.get_psk_bytes());"""),
                (SETUP, """labeled_extract::<Kdf>(&shared_secret.0, &suite_id, b"secret", mode.get_psk_bytes());""", """labeled_extract::<Kdf>(&shared_secret.0, &suite_id, b"secret", mode.get_psk_id());""")]),
    dict(name='c15-unvalidated-constructor', expect=[('C15', 'R15.1')],
         note='a second public constructor skips the check',
         edits=[(OPMODE, """    pub fn new(psk: &'a [u8], psk_id: &'a [u8]) -> Result<Self, HpkeError> {""", """    pub fn new_unchecked(psk: &'a [u8], psk_id: &'a [u8]) -> Self {
        PskBundle { psk, psk_id }
    }

    pub fn new(psk: &'a [u8], psk_id: &'a [u8]) -> Result<Self, HpkeError> {""")]),
    # ------------------------------------------------------------------ C10
    dict(name='c10-zero-check-deleted', expect=[('C10', 'R10.1')],
         note='needs a small-order public key (one of 14 encodings)',
         edits=[(X25519, """        if res.as_bytes().ct_eq(&[0u8; 32]).into() {
            Err(DhError)
        } else {
            Ok(KexResult(res))
        }""", """        Ok(KexResult(res))""")]),
    dict(name='c10-compare-31-bytes', expect=[('C10', 'R10.1')],
         note='rejects also outputs whose first 31 bytes are zero; accepts nothing wrongly, but rejects valid keys',
         edits=[(X25519, "if res.as_bytes().ct_eq(&[0u8; 32]).into() {", "if res.as_bytes()[..31].ct_eq(&[0u8; 31]).into() {")]),
    dict(name='c10-compare-nonzero-const', expect=[('C10', 'R10.1')],
         note='zero output accepted; output 0x01..01 rejected',
         edits=[(X25519, "if res.as_bytes().ct_eq(&[0u8; 32]).into() {", "if res.as_bytes().ct_eq(&[1u8; 32]).into() {")]),
    dict(name='c10-inverted-test', expect=[('C10', 'R10.1')],
         note='would fail all tests (kept to show polarity is checked)',
         edits=[(X25519, "if res.as_bytes().ct_eq(&[0u8; 32]).into() {", "if !bool::from(res.as_bytes().ct_eq(&[0u8; 32])) {")]),
    dict(name='c10-ok-in-both-branches', expect=[('C10', 'R10.1')],
         note='needs a small-order key',
         edits=[(X25519, """            Err(DhError)
        } else {
            Ok(KexResult(res))""", """            Ok(KexResult(res))
        } else {
            Ok(KexResult(res))""")]),
    dict(name='c10-identity-dh-unwrapped', expect=[('C10', 'R10.2')],
         note='Auth mode + small-order recipient key: panic instead of EncapError',
         edits=[(DHKEM, """                    let kex_res_identity = <$dhkex as DhKeyExchange>::dh(sk_sender_id, pk_recip)
                        .map_err(|_| HpkeError::EncapError)?;""", """                    let kex_res_identity = <$dhkex as DhKeyExchange>::dh(sk_sender_id, pk_recip)
                        .unwrap();""")]),
    dict(name='c10-decap-reports-encaperror', expect=[('C10', 'R10.2'), ('C10', 'R10.3')],
         note='receiver setup fails with EncapError for a small-order encapsulated key',
         edits=[(DHKEM, """                    let kex_res_eph = <$dhkex as DhKeyExchange>::dh(sk_recip, &encapped_key.0)
                        .map_err(|_| HpkeError::DecapError)?;""", """                    let kex_res_eph = <$dhkex as DhKeyExchange>::dh(sk_recip, &encapped_key.0)
                        .map_err(|_| HpkeError::EncapError)?;""")]),
    dict(name='c10-setup-remaps-error', expect=[('C10', 'R10.3')],
         note='setup_receiver turns DecapError into ValidationError',
         edits=[(SETUP, "let shared_secret = Kem::decap(sk_recip, pk_sender_id, encapped_key)?;",
                 "let shared_secret = Kem::decap(sk_recip, pk_sender_id, encapped_key).map_err(|_| HpkeError::ValidationError)?;")]),
    # ------------------------------------------------------------------ C09
    dict(name='c09-pubkey-length-check-removed', expect=[('C09', 'R09.1')],
         note='compressed (33/49/67-byte) SEC1 points become acceptable public keys',
         edits=[(NIST, """                    // representation.
                    enforce_equal_len(Self::OutputSize::to_usize(), encoded.len())?;
""", """                    // representation.
""")]),
    dict(name='c09-expected-given-swapped', expect=[('C09', 'R09.1')],
         note='IncorrectInputLength payload (given, expected) for NIST private keys',
         edits=[(NIST, """                    // Check the length
                    enforce_equal_len(Self::OutputSize::to_usize(), encoded.len())?;""", """                    // Check the length
                    enforce_equal_len(encoded.len(), Self::OutputSize::to_usize())?;""")]),
    dict(name='c09-less-than-for-ne', expect=[('C09', 'R09.4')],
         note='over-long inputs pass the length guard',
         edits=[(UTIL, "if given_len != expected_len {", "if given_len < expected_len {")]),
    dict(name='c09-error-payload-swapped', expect=[('C09', 'R09.4')],
         note='error payload order (given, expected)',
         edits=[(UTIL, "Err(HpkeError::IncorrectInputLength(expected_len, given_len))", "Err(HpkeError::IncorrectInputLength(given_len, expected_len))")]),
    dict(name='c09-validation-error-swapped', expect=[('C09', 'R09.2')],
         note='rejected NIST private scalars reported as DecapError',
         edits=[(NIST, """                    let sk = curve_crate::SecretKey::from_bytes(encoded.into())
                        .map_err(|_| HpkeError::ValidationError)?;""", """                    let sk = curve_crate::SecretKey::from_bytes(encoded.into())
                        .map_err(|_| HpkeError::DecapError)?;""")]),
    dict(name='c09-guard-result-ignored', expect=[('C09', 'R09.1')],
         note='length guard evaluated but its verdict dropped',
         edits=[(NIST, """                    // representation.
                    enforce_equal_len(Self::OutputSize::to_usize(), encoded.len())?;
""", """                    // representation.
                    let _ = enforce_equal_len(Self::OutputSize::to_usize(), encoded.len());
""")]),
    dict(name='c09-encapped-key-from-raw', expect=[('C09', 'R09.3')],
         note='a crate-internal helper builds a NIST public key without validation',
         edits=[(NIST, """            impl Serializable for PrivateKey {
                type OutputSize = $privkey_size;""", """            pub(crate) fn pk_from_affine_unchecked(p: curve_crate::AffinePoint) -> Option<PublicKey> {
                Option::from(curve_crate::PublicKey::from_affine(p).ok()).map(PublicKey)
            }

            impl Serializable for PrivateKey {
                type OutputSize = $privkey_size;""")]),
    # ------------------------------------------------------------------ C16
    dict(name='c16-exporter-drop-deleted', expect=[('C16', 'R16.1')],
         note='memory hygiene only; invisible to any functional test',
         edits=[(SETUP, """// Zero exporter secrets on drop
impl<K: KdfTrait> Drop for ExporterSecret<K> {
    fn drop(&mut self) {
        self.0.zeroize();
    }
}
""", "")]),
    dict(name='c16-aeadkey-drop-emptied', expect=[('C16', 'R16.1')],
         note='memory hygiene only',
         edits=[(AEAD, """impl<A: Aead> Drop for AeadKey<A> {
    fn drop(&mut self) {
        self.0.zeroize();
    }
}""", """impl<A: Aead> Drop for AeadKey<A> {
    fn drop(&mut self) {
        let _ = &self.0;
    }
}""")]),
    dict(name='c16-nonce-zeroize-first-byte-only', expect=[('C16', 'R16.1')],
         note='only the first byte of the base nonce is wiped',
         edits=[(AEAD, """impl<A: Aead> Drop for AeadNonce<A> {
    fn drop(&mut self) {
        self.0.zeroize();
    }
}""", """impl<A: Aead> Drop for AeadNonce<A> {
    fn drop(&mut self) {
        self.0[..1].zeroize();
    }
}""")]),
    dict(name='c16-sharedsecret-noop-zeroize', expect=[('C16', 'R16.1')],
         note='SharedSecret::zeroize made a no-op; Drop still calls it',
         edits=[(KEM, """    fn zeroize(&mut self) {
        self.0.zeroize()
    }""", """    fn zeroize(&mut self) {
        let _ = self.0.len();
    }""")]),
    dict(name='c16-exporter-field-bare-array', expect=[('C16', 'R16.2')],
         note='exporter secret stored as a bare GenericArray in the context: never wiped',
         edits=[(AEAD, """    exporter_secret: ExporterSecret<Kdf>,
    /// The running sequence number""", """    exporter_secret: crate::kdf::DigestArray<Kdf>,
    /// The running sequence number"""),
                (AEAD, """            base_nonce,
            exporter_secret,
            seq: <Seq as Default>::default(),""", """            base_nonce,
            exporter_secret: exporter_secret.0.clone(),
            seq: <Seq as Default>::default(),"""),
                (AEAD, "SimpleHkdf::<Kdf>::from_prk(self.exporter_secret.0.as_slice()).unwrap();", "SimpleHkdf::<Kdf>::from_prk(self.exporter_secret.as_slice()).unwrap();"),
                ]),
    dict(name='c16-temp-key-forgotten', expect=[('C16', 'R16.2'), ('C16', 'R16.3')],
         note='the temporary AEAD key is leaked un-wiped on the stack',
         edits=[(SETUP, """    AeadCtx::new(&key, base_nonce, exporter_secret)
}""", """    let ctx = AeadCtx::new(&key, base_nonce, exporter_secret);
    core::mem::forget(key);
    ctx
}""")]),
    dict(name='c16-temp-key-manuallydrop', expect=[('C16', 'R16.2')],
         note='temporary key wrapped in ManuallyDrop: drop never runs',
         edits=[(SETUP, "    let mut key = crate::aead::AeadKey::<A>::default();", "    let mut key = core::mem::ManuallyDrop::new(crate::aead::AeadKey::<A>::default());")]),
    # ------------------------------------------------------------------ C18
    dict(name='c18-static-atomic-call-counter', expect=[('C18', 'R18.1')],
         note='export output depends on how many exports ran before (process-global counter)',
         edits=[(AEAD, """    pub fn export(&self, exporter_ctx: &[u8], out_buf: &mut [u8]) -> Result<(), HpkeError> {
        // Use our exporter secret""", """    pub fn export(&self, exporter_ctx: &[u8], out_buf: &mut [u8]) -> Result<(), HpkeError> {
        static CALLS: core::sync::atomic::AtomicUsize = core::sync::atomic::AtomicUsize::new(0);
        if CALLS.fetch_add(1, core::sync::atomic::Ordering::Relaxed) == usize::MAX { return Err(HpkeError::KdfOutputTooLong); }
        // Use our exporter secret""")]),
    dict(name='c18-cell-counter-in-ctx', expect=[('C18', 'R18.1'), ('C18', 'R18.5')],
         note='export(&self) counts calls through a Cell: context no longer Sync, export no longer pure',
         edits=[(AEAD, """    /// Records whether the nonce sequence counter has overflowed
    overflowed: bool,""", """    /// Records whether the nonce sequence counter has overflowed
    overflowed: bool,
    exports: core::cell::Cell<u64>,"""),
                (AEAD, """        AeadCtx {
            overflowed: false,
            encryptor: <A::AeadImpl as aead::KeyInit>::new(&key.0),""", """        AeadCtx {
            overflowed: false,
            exports: core::cell::Cell::new(0),
            encryptor: <A::AeadImpl as aead::KeyInit>::new(&key.0),"""),
                (AEAD, """        AeadCtx {
            overflowed: self.overflowed,
            encryptor: self.encryptor.clone(),""", """        AeadCtx {
            overflowed: self.overflowed,
            exports: self.exports.clone(),
            encryptor: self.encryptor.clone(),""")]),
    dict(name='c18-phantom-rawptr-not-send', expect=[('C18', 'R18.5')],
         note='contexts silently stop being Send/Sync (no behaviour change)',
         edits=[(AEAD, "    src_kem: PhantomData<Kem>,", "    src_kem: PhantomData<(Kem, *const u8)>,")]),
    dict(name='c18-static-mut-ephemeral-cache', expect=[('C18', 'R18.1')],
         note='second encapsulation in a process reuses bytes from the first (order dependence)',
         edits=[(KEM, """        // Fill it with randomness
        csprng.fill_bytes(&mut ikm);""", """        // Fill it with randomness
        static mut SEEN: bool = false;
        unsafe { if !SEEN { SEEN = true; } }
        csprng.fill_bytes(&mut ikm);""")]),
    dict(name='c18-keygen-ignores-rng', expect=[('C18', 'R18.4')],
         note='ephemeral key derived from an all-zero ikm: the same for every encapsulation',
         edits=[(KEM, """        // Fill it with randomness
        csprng.fill_bytes(&mut ikm);""", """        // Fill it with randomness
        let _ = &csprng;""")]),
    dict(name='c18-unsafe-send-impl', expect=[('C18', 'R18.1')],
         note='an unsafe impl Send papers over a non-Send field',
         edits=[(AEAD, "/// The HPKE receiver's context. This is what you use to `open` ciphertexts and `export` secrets.",
                 "unsafe impl<A: Aead> Send for AeadNonce<A> {}\n/// The HPKE receiver's context. This is what you use to `open` ciphertexts and `export` secrets.")]),
    # ------------------------------------------------------------------ C17
    dict(name='c17-seal-gated-on-alloc-only', expect=[('C17', 'R17.1')],
         note='`--no-default-features --features std,...` loses AeadCtxS::seal',
         edits=[(AEAD, """    #[cfg(any(feature = "alloc", feature = "std"))]
    pub fn seal(&mut self, plaintext: &[u8], aad: &[u8]) -> Result<crate::Vec<u8>, HpkeError> {""", """    #[cfg(feature = "alloc")]
    pub fn seal(&mut self, plaintext: &[u8], aad: &[u8]) -> Result<crate::Vec<u8>, HpkeError> {""")]),
    dict(name='c17-cfg-typo-drops-p384', expect=[('C17', 'R17.2')],
         note='feature p384 no longer provides DhP384HkdfSha384',
         edits=[(DHKEM, """// Implement DHKEM(P-384, HKDF-SHA384)
#[cfg(feature = "p384")]""", """// Implement DHKEM(P-384, HKDF-SHA384)
#[cfg(all(feature = "p384", feature = "p256"))]""")]),
    dict(name='c17-needs-default-features', expect=[('C17', 'R17.1')],
         note='a helper names the X25519 KEM unconditionally: builds without x25519 fail',
         edits=[(SETUP, "use zeroize::Zeroize;", "use zeroize::Zeroize;\n#[allow(dead_code)]\ntype DefaultKem = crate::kem::X25519HkdfSha256;")]),
    dict(name='c17-std-dependent-body', expect=[('C17', 'R17.3')],
         note='export limits output to 64 bytes only when the std feature is on',
         edits=[(AEAD, """        // Use our exporter secret as the PRK for an HKDF-Expand op. The only time this fails is""", """        if cfg!(feature = "std") && out_buf.len() > 8000 {
            return Err(HpkeError::KdfOutputTooLong);
        }
        // Use our exporter secret as the PRK for an HKDF-Expand op. The only time this fails is""")]),
    # ------------------------------------------------------------------ C12
    dict(name='c12-p384-pubkey-size-96', expect=[('C12', 'R12.1')],
         note='P-384 public keys cannot be serialized/deserialized (panic / length error); p384 is not in the default features',
         edits=[(NIST, "typenum::U97, // RFC 9180 §7.1: Npk of DHKEM(P-384, HKDF-SHA384) is 97", "typenum::U96, // RFC 9180 §7.1: Npk of DHKEM(P-384, HKDF-SHA384) is 97")]),
    dict(name='c12-p521-ndh-65', expect=[('C12', 'R12.1')],
         note='P-521 DH result serialization panics (65 vs 66 bytes); p521 not compiled by default',
         edits=[(NIST, "typenum::U66,  // RFC 9180 §4.1: Ndh of P-521 is equal to 66", "typenum::U65,  // RFC 9180 §4.1: Ndh of P-521 is equal to 66")]),
    dict(name='c12-x25519-privkey-guard-args-swapped', expect=[('C12', 'R12.2')],
         note='error payload (given, expected) for X25519 private keys',
         edits=[(X25519, """        // Privkeys must be 32 bytes
        enforce_equal_len(Self::OutputSize::to_usize(), encoded.len())?;""", """        // Privkeys must be 32 bytes
        enforce_equal_len(encoded.len(), Self::OutputSize::to_usize())?;""")]),
    dict(name='c12-tag-guard-removed', expect=[('C12', 'R12.2')],
         note='AeadTag::from_bytes panics on wrong-length input instead of returning IncorrectInputLength',
         edits=[(AEAD, """        enforce_equal_len(Self::size(), encoded.len())?;

        // Copy to a fixed-size array
        let mut arr = <GenericArray<u8, Self::OutputSize> as Default>::default();""", """        // Copy to a fixed-size array
        let mut arr = <GenericArray<u8, Self::OutputSize> as Default>::default();""")]),
    dict(name='c12-wrong-type-in-outbuf-guard', expect=[('C12', 'R12.3')],
         note='P-521 PrivateKey::write_exact demands a 133-byte buffer (rejects correct 66-byte buffers)',
         edits=[(NIST, """            impl Serializable for PrivateKey {
                type OutputSize = $privkey_size;

                fn write_exact(&self, buf: &mut [u8]) {
                    // Check the length is correct and panic if not
                    enforce_outbuf_len::<Self>(buf);""", """            impl Serializable for PrivateKey {
                type OutputSize = $privkey_size;

                fn write_exact(&self, buf: &mut [u8]) {
                    // Check the length is correct and panic if not
                    enforce_outbuf_len::<PublicKey>(buf);""")]),
    dict(name='c12-outbuf-guard-lt', expect=[('C12', 'R12.4')],
         note='enforce_outbuf_len accepts longer buffers',
         edits=[(UTIL, "        size == buf_len,", "        size <= buf_len,")]),
    dict(name='c12-compressed-encoding', expect=[('C12', 'R12.5')],
         note='NIST public keys serialized compressed: write_exact panics (33 != 65)',
         edits=[(NIST, "let encoded = self.0.as_affine().to_encoded_point(false);", "let encoded = self.0.as_affine().to_encoded_point(true);")]),
    dict(name='c12-x25519-copy-buffer-31', expect=[('C12', 'R12.2')],
         note='X25519 public key parser copies into a 31-byte array: panic on every valid key',
         edits=[(X25519, """        // Pubkeys must be 32 bytes
        enforce_equal_len(Self::OutputSize::to_usize(), encoded.len())?;

        // Copy to a fixed-size array
        let mut arr = [0u8; 32];
        arr.copy_from_slice(encoded);
        Ok(PublicKey(x25519_dalek::PublicKey::from(arr)))""", """        // Pubkeys must be 32 bytes
        enforce_equal_len(Self::OutputSize::to_usize(), encoded.len())?;

        // Copy to a fixed-size array
        let mut arr = [0u8; 32];
        arr[..31].copy_from_slice(encoded);
        Ok(PublicKey(x25519_dalek::PublicKey::from(arr)))""")]),
    # ------------------------------------------------------------------ C02
    dict(name='c02-label-typo-info-hash', expect=[('C02', 'R02.5')],
         note='both sides agree; interop with RFC implementations breaks',
         edits=[(SETUP, 'labeled_extract::<Kdf>(&[], &suite_id, b"info_hash", info);', 'labeled_extract::<Kdf>(&[], &suite_id, b"info-hash", info);')]),
    dict(name='c02-suite-id-kdf-aead-swapped', expect=[('C02', 'R02.2')],
         note='KDF and AEAD ids written at each other\'s offsets',
         edits=[(UTIL, """    write_u16_be(&mut suite_id[6..8], Kdf::KDF_ID);
    write_u16_be(&mut suite_id[8..10], A::AEAD_ID);""", """    write_u16_be(&mut suite_id[8..10], Kdf::KDF_ID);
    write_u16_be(&mut suite_id[6..8], A::AEAD_ID);""")]),
    dict(name='c02-mode-bytes-2-3-swapped', expect=[('C02', 'R02.6')],
         note='Auth <-> AuthPsk mode byte on both sides',
         edits=[(OPMODE, """            OpModeR::Auth(..) => 0x02,
            OpModeR::AuthPsk(..) => 0x03,""", """            OpModeR::Auth(..) => 0x03,
            OpModeR::AuthPsk(..) => 0x02,"""),
                (OPMODE, """            OpModeS::Auth(..) => 0x02,
            OpModeS::AuthPsk(..) => 0x03,""", """            OpModeS::Auth(..) => 0x03,
            OpModeS::AuthPsk(..) => 0x02,""")]),
    dict(name='c02-secret-salt-ikm-swapped', expect=[('C02', 'R02.5')],
         note='secret = LabeledExtract(psk, "secret", shared_secret)',
         edits=[(SETUP, 'labeled_extract::<Kdf>(&shared_secret.0, &suite_id, b"secret", mode.get_psk_bytes());',
                 'labeled_extract::<Kdf>(mode.get_psk_bytes(), &suite_id, b"secret", &shared_secret.0);')]),
    dict(name='c02-u16-little-endian', expect=[('C02', 'R02.3')],
         note='length prefix and suite ids little-endian',
         edits=[(UTIL, """    buf[0] = ((n & 0xff00) >> 8) as u8;
    buf[1] =  (n & 0x00ff)       as u8;""", """    buf[1] = ((n & 0xff00) >> 8) as u8;
    buf[0] =  (n & 0x00ff)       as u8;""")]),
    dict(name='c02-kdf-id-sha384-is-3', expect=[('C02', 'R02.1')],
         note='HKDF-SHA384 advertises KDF id 3 (collides with SHA-512)',
         edits=[(KDF, """    // RFC 9180 §7.2: HKDF-SHA384
    const KDF_ID: u16 = 0x0002;""", """    // RFC 9180 §7.2: HKDF-SHA384
    const KDF_ID: u16 = 0x0003;""")]),
    dict(name='c02-version-label-v2', expect=[('C02', 'R02.4')],
         note='"HPKE-v2" in every labeled extract/expand',
         edits=[(KDF, 'const VERSION_LABEL: &[u8] = b"HPKE-v1";', 'const VERSION_LABEL: &[u8] = b"HPKE-v2";')]),
    dict(name='c02-context-hashes-swapped', expect=[('C02', 'R02.5')],
         note='key_schedule_context = mode || info_hash || psk_id_hash',
         edits=[(SETUP, """            psk_id_hash.as_slice(),
            info_hash.as_slice()""", """            info_hash.as_slice(),
            psk_id_hash.as_slice()""")]),
    dict(name='c02-exp-expanded-with-key-label', expect=[('C02', 'R02.5')],
         note='exporter secret derived with label "key" (equals the AEAD key prefix)',
         edits=[(SETUP, """            b"exp",
            sched_context,""", """            b"key",
            sched_context,""")]),
    dict(name='c02-labeled-info-order', expect=[('C02', 'R02.4')],
         note='labeled_info = L || suite_id || "HPKE-v1" || label || info',
         edits=[(KDF, "let labeled_info = [&len_buf, VERSION_LABEL, suite_id, label, info];", "let labeled_info = [&len_buf, suite_id, VERSION_LABEL, label, info];")]),
    dict(name='c02-aes256-id-1', expect=[('C02', 'R02.1')],
         note='AES-256-GCM advertises AEAD id 1',
         edits=[("src/aead/aes_gcm.rs", """    // RFC 9180 §7.3: AES-256-GCM
    const AEAD_ID: u16 = 0x0002;""", """    // RFC 9180 §7.3: AES-256-GCM
    const AEAD_ID: u16 = 0x0001;""")]),
    dict(name='c02-kem-suite-prefix', expect=[('C02', 'R02.2')],
         note='KEM suite id prefix "KEX"',
         edits=[(UTIL, 'let mut suite_id = *b"KEMXX";', 'let mut suite_id = *b"KEXXX";')]),
    dict(name='c02-export-uses-exp-label', expect=[('C02', 'R02.8')],
         note='export uses label "exp" instead of "sec" on both sides',
         edits=[(AEAD, '.labeled_expand(&self.suite_id, b"sec", exporter_ctx, out_buf)', '.labeled_expand(&self.suite_id, b"exp", exporter_ctx, out_buf)')]),
    dict(name='c02-extract-missing-suite-id', expect=[('C02', 'R02.4')],
         note='labeled_ikm omits the suite id',
         edits=[(KDF, """    extract_ctx.input_ikm(VERSION_LABEL);
    extract_ctx.input_ikm(suite_id);""", """    extract_ctx.input_ikm(VERSION_LABEL);""")]),
    dict(name='c02-key-expand-half-buffer', expect=[('C02', 'R02.5')],
         note='only the first half of the AEAD key is derived, the rest stays zero',
         edits=[(SETUP, '.labeled_expand(&suite_id, b"key", sched_context, key.0.as_mut_slice())', '.labeled_expand(&suite_id, b"key", sched_context, { let n = key.0.len() / 2; &mut key.0.as_mut_slice()[..n] })')]),
    # ------------------------------------------------------------------ C03
    dict(name='c03-eae-prk-typo', expect=[('C03', 'R03.1')],
         note='label "eae-prk" on both sides',
         edits=[(KDF, 'labeled_extract::<Kdf>(&[], suite_id, b"eae_prk", ikm);', 'labeled_extract::<Kdf>(&[], suite_id, b"eae-prk", ikm);')]),
    dict(name='c03-dh-concat-order-both-sides', expect=[('C03', 'R03.2')],
         note='dh = DH(skS,pkR) || DH(skE,pkR) on both sides (Auth modes only)',
         edits=[(DHKEM, """                        MAX_PUBKEY_SIZE,
                        &kex_res_eph.to_bytes(),
                        &kex_res_identity.to_bytes()
                    );
                    let concatted_secrets = &concatted_secrets_buf[..concatted_secret_size];

                    // The "authed shared secret" is derived from the KEX of the ephemeral input
                    // with the recipient pubkey, and the KEX of the identity input with the
                    // recipient pubkey. The HKDF-Expand call only errors if the output values are""", """                        MAX_PUBKEY_SIZE,
                        &kex_res_identity.to_bytes(),
                        &kex_res_eph.to_bytes()
                    );
                    let concatted_secrets = &concatted_secrets_buf[..concatted_secret_size];

                    // The "authed shared secret" is derived from the KEX of the ephemeral input
                    // with the recipient pubkey, and the KEX of the identity input with the
                    // recipient pubkey. The HKDF-Expand call only errors if the output values are"""),
                (DHKEM, """                            MAX_PUBKEY_SIZE,
                            &kex_res_eph.to_bytes(),
                            &kex_res_identity.to_bytes()""", """                            MAX_PUBKEY_SIZE,
                            &kex_res_identity.to_bytes(),
                            &kex_res_eph.to_bytes()""")]),
    dict(name='c03-p521-mask-ff', expect=[('C03', 'R03.3')],
         note='P-521 DeriveKeyPair mask 0xFF: different keys than the RFC (and ~127 rejections on average); p521 not in default features',
         edits=[(NIST, "    0x01           // RFC 9180 §7.1.3: The `bitmask` in DeriveKeyPair to be 0x01 for P-521", "    0xFF           // RFC 9180 §7.1.3: The `bitmask` in DeriveKeyPair to be 0x01 for P-521")]),
    dict(name='c03-counter-two-bytes', expect=[('C03', 'R03.3')],
         note='candidate info = [counter, 0]',
         edits=[(NIST, '.labeled_expand(suite_id, b"candidate", &[counter], &mut buf)', '.labeled_expand(suite_id, b"candidate", &[counter, 0], &mut buf)')]),
    dict(name='c03-loop-0-to-254', expect=[('C03', 'R03.3')],
         note='only 255 attempts',
         edits=[(NIST, "for counter in 0u8..=255 {", "for counter in 0u8..255 {")]),
    dict(name='c03-kem-paired-with-wrong-kdf', expect=[('C03', 'R03.2')],
         note='DHKEM(P-384) keyed with HKDF-SHA256 in extract_and_expand only',
         edits=[(DHKEM, """    crate::dhkex::ecdh_nistp::p384::DhP384,
    crate::kdf::HkdfSha384,""", """    crate::dhkex::ecdh_nistp::p384::DhP384,
    crate::kdf::HkdfSha256,""")]),
    dict(name='c03-kem-context-without-pkR-both-sides', expect=[('C03', 'R03.2')],
         note='kem_context = enc only (base mode), on both sides',
         edits=[(DHKEM, """                    let (kem_context_buf, kem_context_size) = concat_with_known_maxlen!(
                        MAX_PUBKEY_SIZE,
                        &encapped_key.to_bytes(),
                        &pk_recip.to_bytes()
                    );
                    let kem_context = &kem_context_buf[..kem_context_size];

                    // The "unauthed shared secret" is derived from just the KEX of the ephemeral
                    // input with the recipient pubkey. The HKDF-Expand call only errors if the""", """                    let (kem_context_buf, kem_context_size) = concat_with_known_maxlen!(
                        MAX_PUBKEY_SIZE,
                        &encapped_key.to_bytes()
                    );
                    let kem_context = &kem_context_buf[..kem_context_size];

                    // The "unauthed shared secret" is derived from just the KEX of the ephemeral
                    // input with the recipient pubkey. The HKDF-Expand call only errors if the"""),
                (DHKEM, """                        let (kem_context_buf, kem_context_size) = concat_with_known_maxlen!(
                            MAX_PUBKEY_SIZE,
                            &encapped_key.to_bytes(),
                            &pk_recip.to_bytes()
                        );
                        let kem_context = &kem_context_buf[..kem_context_size];

                        // The "unauthed shared secret" is derived from just the KEX of the ephemeral""", """                        let (kem_context_buf, kem_context_size) = concat_with_known_maxlen!(
                            MAX_PUBKEY_SIZE,
                            &encapped_key.to_bytes()
                        );
                        let kem_context = &kem_context_buf[..kem_context_size];

                        // The "unauthed shared secret" is derived from just the KEX of the ephemeral""")]),
    dict(name='c03-x25519-sk-label', expect=[('C03', 'R03.3')],
         note='X25519 DeriveKeyPair uses label "candidate"',
         edits=[(X25519, '.labeled_expand(suite_id, b"sk", &[], &mut buf)', '.labeled_expand(suite_id, b"candidate", &[], &mut buf)')]),
    dict(name='c03-derive-uses-full-suite-style-id', expect=[('C03', 'R03.3')],
         note='Kem::derive_keypair passes a suite id of another KEM',
         edits=[(DHKEM, """                    let suite_id = kem_suite_id::<Self>();
                    <$dhkex as DhKeyExchange>::derive_keypair::<$kdf>(&suite_id, ikm)""", """                    let suite_id = *b"KEM\x00\x20";
                    <$dhkex as DhKeyExchange>::derive_keypair::<$kdf>(&suite_id, ikm)""")]),
    dict(name='c03-encapped-key-is-recipient-key', expect=[('C03', 'R03.2')],
         note='enc = pkR instead of pk(skE) inside kem_context only',
         edits=[(DHKEM, """                    let (kem_context_buf, kem_context_size) = concat_with_known_maxlen!(
                        MAX_PUBKEY_SIZE,
                        &encapped_key.to_bytes(),
                        &pk_recip.to_bytes(),
                        &pk_sender_id.to_bytes()
                    );
                    let kem_context = &kem_context_buf[..kem_context_size];

                    // We want to do an authed encap. Do a DH exchange between the sender identity
                    // secret key and the recipient's pubkey
                    let kex_res_identity = <$dhkex as DhKeyExchange>::dh(sk_sender_id, pk_recip)""", """                    let (kem_context_buf, kem_context_size) = concat_with_known_maxlen!(
                        MAX_PUBKEY_SIZE,
                        &pk_recip.to_bytes(),
                        &pk_recip.to_bytes(),
                        &pk_sender_id.to_bytes()
                    );
                    let kem_context = &kem_context_buf[..kem_context_size];

                    // We want to do an authed encap. Do a DH exchange between the sender identity
                    // secret key and the recipient's pubkey
                    let kex_res_identity = <$dhkex as DhKeyExchange>::dh(sk_sender_id, pk_recip)""")]),
    # ------------------------------------------------------------------ C11
    dict(name='c11-export-label-exp', expect=[('C11', 'R11.1')],
         note='Export uses "exp": both sides agree, RFC peers do not',
         edits=[(AEAD, '.labeled_expand(&self.suite_id, b"sec", exporter_ctx, out_buf)', '.labeled_expand(&self.suite_id, b"exp", exporter_ctx, out_buf)')]),
    dict(name='c11-base-nonce-as-prk', expect=[('C11', 'R11.1')],
         note='the (zero-padded) base nonce is used as PRK for exports',
         edits=[(AEAD, "let hkdf_ctx = SimpleHkdf::<Kdf>::from_prk(self.exporter_secret.0.as_slice()).unwrap();",
                 "let mut prk = self.exporter_secret.0.clone(); let n = core::cmp::min(prk.len(), self.base_nonce.0.len()); prk[..n].copy_from_slice(&self.base_nonce.0[..n]); let hkdf_ctx = SimpleHkdf::<Kdf>::from_prk(prk.as_slice()).unwrap();")]),
    dict(name='c11-error-mapped-to-openerror', expect=[('C11', 'R11.1')],
         note='too-long export requests fail with OpenError',
         edits=[(AEAD, ".map_err(|_| HpkeError::KdfOutputTooLong)", ".map_err(|_| HpkeError::OpenError)")]),
    dict(name='c11-export-depends-on-seq', expect=[('C11', 'R11.1')],
         note='exporter context is prefixed with the sequence number: exports change after each seal',
         edits=[(AEAD, """        hkdf_ctx
            .labeled_expand(&self.suite_id, b"sec", exporter_ctx, out_buf)""", """        let sq = self.seq.0.to_be_bytes();
        let ectx: &[u8] = if self.seq.0 == 0 { exporter_ctx } else { &sq };
        hkdf_ctx
            .labeled_expand(&self.suite_id, b"sec", ectx, out_buf)""")]),
    dict(name='c11-exportonly-encrypt-returns', expect=[('C11', 'R11.5')],
         note='export-only suite "seals" by returning an empty tag (plaintext sent in the clear)',
         edits=[("src/aead/export_only.rs", """        panic!("Cannot encrypt with an export-only encryption context!");""", """        Ok(aead::Tag::<Self>::default())""")]),
    dict(name='c11-receiver-export-swaps-args', expect=[('C11', 'R11.1')],
         note='receiver-side export passes an empty context: sender and receiver exports differ',
         edits=[(AEAD, """    pub fn export(&self, info: &[u8], out_buf: &mut [u8]) -> Result<(), HpkeError> {
        // Pass to AeadCtx
        self.0.export(info, out_buf)
    }
}

/// The HPKE senders's context.""", """    pub fn export(&self, info: &[u8], out_buf: &mut [u8]) -> Result<(), HpkeError> {
        // Pass to AeadCtx
        let _ = info;
        self.0.export(&[], out_buf)
    }
}

/// The HPKE senders's context.""")]),
    dict(name='c11-expand-truncates-long-output', expect=[('C11', 'R11.4')],
         note='labeled_expand silently succeeds for > 255*Nh bytes by expanding only a prefix',
         edits=[(KDF, """        let labeled_info = [&len_buf, VERSION_LABEL, suite_id, label, info];
        self.expand_multi_info(&labeled_info, out)""", """        let labeled_info = [&len_buf, VERSION_LABEL, suite_id, label, info];
        let n = core::cmp::min(out.len(), 255 * <D as OutputSizeUser>::output_size());
        self.expand_multi_info(&labeled_info, &mut out[..n])""")]),
    # ------------------------------------------------------------------ C07
    dict(name='c07-psk-dropped-from-secret', expect=[('C07', 'R07.1')],
         note='PSK never enters the key schedule (both sides): Psk mode gives no PSK authentication',
         edits=[(SETUP, 'labeled_extract::<Kdf>(&shared_secret.0, &suite_id, b"secret", mode.get_psk_bytes());',
                 'labeled_extract::<Kdf>(&shared_secret.0, &suite_id, b"secret", &[]);')]),
    dict(name='c07-constant-mode-byte', expect=[('C07', 'R07.1')],
         note='mode byte fixed to 0 in key_schedule_context: Base and Psk-with-empty... collide',
         edits=[(SETUP, "            &[mode.mode_id()],", "            &[0u8],")]),
    dict(name='c07-info-hash-of-empty', expect=[('C07', 'R07.1')],
         note='info never bound (both sides)',
         edits=[(SETUP, 'labeled_extract::<Kdf>(&[], &suite_id, b"info_hash", info);', 'labeled_extract::<Kdf>(&[], &suite_id, b"info_hash", &[]);')]),
    dict(name='c07-suite-id-without-aead', expect=[('C07', 'R07.1')],
         note='AES-256-GCM and ChaCha20Poly1305 sessions share keys (same Nk/Nn)',
         edits=[(UTIL, "    write_u16_be(&mut suite_id[8..10], A::AEAD_ID);", "    write_u16_be(&mut suite_id[8..10], 0);")]),
    dict(name='c07-kem-context-without-pkRm', expect=[('C07', 'R07.1')],
         note='recipient key not bound into the shared secret (base mode, both sides)',
         edits=[(DHKEM, """                    let (kem_context_buf, kem_context_size) = concat_with_known_maxlen!(
                        MAX_PUBKEY_SIZE,
                        &encapped_key.to_bytes(),
                        &pk_recip.to_bytes()
                    );
                    let kem_context = &kem_context_buf[..kem_context_size];

                    // The "unauthed shared secret" is derived from just the KEX of the ephemeral
                    // input with the recipient pubkey. The HKDF-Expand call only errors if the
                    // output values are 255x the digest size of the hash function. Since these
                    // values are fixed at compile time, we don't worry about it.
                    let mut buf = <SharedSecret<$kem_name> as Default>::default();
                    extract_and_expand::<$kdf>(
                        &kex_res_eph.to_bytes(),""", """                    let (kem_context_buf, kem_context_size) = concat_with_known_maxlen!(
                        MAX_PUBKEY_SIZE,
                        &encapped_key.to_bytes(),
                        &encapped_key.to_bytes()
                    );
                    let kem_context = &kem_context_buf[..kem_context_size];

                    // The "unauthed shared secret" is derived from just the KEX of the ephemeral
                    // input with the recipient pubkey. The HKDF-Expand call only errors if the
                    // output values are 255x the digest size of the hash function. Since these
                    // values are fixed at compile time, we don't worry about it.
                    let mut buf = <SharedSecret<$kem_name> as Default>::default();
                    extract_and_expand::<$kdf>(
                        &encapped_key.to_bytes(),""")], expect_note='dh term replaced too so that pk_recip no longer flows at all'),
    dict(name='c07-psk-id-not-hashed-separately', expect=[('C07', 'R07.2')],
         note='psk_id and info concatenated into one extract: bytes can move between them',
         edits=[(SETUP, 'labeled_extract::<Kdf>(&[], &suite_id, b"info_hash", info);', 'labeled_extract::<Kdf>(&[], &suite_id, b"psk_id_hash", info);')]),
    dict(name='c07-export-ignores-context', expect=[('C07', 'R07.1')],
         note='exporter context ignored: all exports of one length are equal',
         edits=[(AEAD, '.labeled_expand(&self.suite_id, b"sec", exporter_ctx, out_buf)', '.labeled_expand(&self.suite_id, b"sec", &[], out_buf)')]),
    # ------------------------------------------------------------------ C08
    dict(name='c08-pkS-removed-from-both-contexts', expect=[('C08', 'R08.1')],
         note='sender identity not bound into kem_context (both sides): needs an impostor with a related key to show',
         edits=[(DHKEM, """                    let (kem_context_buf, kem_context_size) = concat_with_known_maxlen!(
                        MAX_PUBKEY_SIZE,
                        &encapped_key.to_bytes(),
                        &pk_recip.to_bytes(),
                        &pk_sender_id.to_bytes()
                    );""", """                    let (kem_context_buf, kem_context_size) = concat_with_known_maxlen!(
                        MAX_PUBKEY_SIZE,
                        &encapped_key.to_bytes(),
                        &pk_recip.to_bytes()
                    );
                    let _ = pk_sender_id;"""), (DHKEM, """                        let (kem_context_buf, kem_context_size) = concat_with_known_maxlen!(
                            MAX_PUBKEY_SIZE,
                            &encapped_key.to_bytes(),
                            &pk_recip.to_bytes(),
                            &pk_sender_id.to_bytes()
                        );""", """                        let (kem_context_buf, kem_context_size) = concat_with_known_maxlen!(
                            MAX_PUBKEY_SIZE,
                            &encapped_key.to_bytes(),
                            &pk_recip.to_bytes()
                        );""")]),
    dict(name='c08-identity-dh-removed-both-sides', expect=[('C08', 'R08.1')],
         note='static-static DH term dropped: anyone knowing pkS can impersonate the sender',
         edits=[(DHKEM, """                    let (concatted_secrets_buf, concatted_secret_size) = concat_with_known_maxlen!(
                        MAX_PUBKEY_SIZE,
                        &kex_res_eph.to_bytes(),
                        &kex_res_identity.to_bytes()
                    );""", """                    let _ = &kex_res_identity;
                    let (concatted_secrets_buf, concatted_secret_size) = concat_with_known_maxlen!(
                        MAX_PUBKEY_SIZE,
                        &kex_res_eph.to_bytes(),
                        &kex_res_eph.to_bytes()
                    );"""),
                (DHKEM, """                        let (concatted_secrets_buf, concatted_secret_size) = concat_with_known_maxlen!(
                            MAX_PUBKEY_SIZE,
                            &kex_res_eph.to_bytes(),
                            &kex_res_identity.to_bytes()
                        );""", """                        let _ = &kex_res_identity;
                        let (concatted_secrets_buf, concatted_secret_size) = concat_with_known_maxlen!(
                            MAX_PUBKEY_SIZE,
                            &kex_res_eph.to_bytes(),
                            &kex_res_eph.to_bytes()
                        );""")]),
    dict(name='c08-authpsk-yields-no-identity', expect=[('C08', 'R08.2')],
         note='AuthPsk mode silently degrades to Psk on both sides',
         edits=[(OPMODE, "            OpModeR::AuthPsk(pk, _) => Some(pk),", "            OpModeR::AuthPsk(_pk, _) => None,"),
                (OPMODE, "            OpModeS::AuthPsk(keypair, _) => Some((&keypair.0, &keypair.1)),", "            OpModeS::AuthPsk(_keypair, _) => None,")]),
    dict(name='c08-identity-dh-uses-ephemeral-key', expect=[('C08', 'R08.1')],
         note='second DH computed with the ephemeral key on the sender and with pkE on the receiver (consistent, no authentication)',
         edits=[(DHKEM, "let kex_res_identity = <$dhkex as DhKeyExchange>::dh(sk_sender_id, pk_recip)", "let kex_res_identity = <$dhkex as DhKeyExchange>::dh(&sk_eph, pk_recip)"),
                (DHKEM, "let kex_res_identity = <$dhkex as DhKeyExchange>::dh(sk_recip, pk_sender_id)", "let kex_res_identity = <$dhkex as DhKeyExchange>::dh(sk_recip, &encapped_key.0)")]),
    dict(name='c08-setup-ignores-identity', expect=[('C08', 'R08.2')],
         note='setup passes None to encap/decap in every mode',
         edits=[(SETUP, "let (shared_secret, encapped_key) = Kem::encap(pk_recip, sender_id_keypair, csprng)?;", "let _ = sender_id_keypair; let (shared_secret, encapped_key) = Kem::encap(pk_recip, None, csprng)?;"),
                (SETUP, "let shared_secret = Kem::decap(sk_recip, pk_sender_id, encapped_key)?;", "let _ = pk_sender_id; let shared_secret = Kem::decap(sk_recip, None, encapped_key)?;")]),
    # ------------------------------------------------------------------ C01
    dict(name='c01-decap-context-order', expect=[('C01', 'R01.2')],
         note='receiver builds kem_context = pkRm || enc (asymmetric: caught by the round-trip tests too)',
         edits=[(DHKEM, """                        let (kem_context_buf, kem_context_size) = concat_with_known_maxlen!(
                            MAX_PUBKEY_SIZE,
                            &encapped_key.to_bytes(),
                            &pk_recip.to_bytes()
                        );""", """                        let (kem_context_buf, kem_context_size) = concat_with_known_maxlen!(
                            MAX_PUBKEY_SIZE,
                            &pk_recip.to_bytes(),
                            &encapped_key.to_bytes()
                        );""")]),
    dict(name='c01-receiver-info-from-other-slice', expect=[('C01', 'R01.1')],
         note='receiver key schedule ignores info',
         edits=[(SETUP, """    let enc_ctx = derive_enc_ctx::<_, _, Kem, _>(mode, shared_secret, info);
    Ok(enc_ctx.into())""", """    let enc_ctx = derive_enc_ctx::<_, _, Kem, _>(mode, shared_secret, &info[..0]);
    Ok(enc_ctx.into())""")]),
    dict(name='c01-open-different-nonce-helper', expect=[('C01', 'R01.3')],
         note='receiver computes the nonce from seq+1',
         edits=[(AEAD, """            let nonce = mix_nonce::<A>(&self.0.base_nonce, &self.0.seq);
            let decrypt_res = self""", """            let nonce = mix_nonce::<A>(&self.0.base_nonce, &Seq(self.0.seq.0.wrapping_add(1)));
            let decrypt_res = self""")]),
    dict(name='c01-sender-drops-pkS-only', expect=[('C01', 'R01.2')],
         note='only the sender omits pkSm (asymmetric; Auth-mode round trips fail)',
         edits=[(DHKEM, """                    let (kem_context_buf, kem_context_size) = concat_with_known_maxlen!(
                        MAX_PUBKEY_SIZE,
                        &encapped_key.to_bytes(),
                        &pk_recip.to_bytes(),
                        &pk_sender_id.to_bytes()
                    );""", """                    let (kem_context_buf, kem_context_size) = concat_with_known_maxlen!(
                        MAX_PUBKEY_SIZE,
                        &encapped_key.to_bytes(),
                        &pk_recip.to_bytes()
                    );
                    let _ = pk_sender_id;""")]),
    # ------------------------------------------------------------------ C13
    dict(name='c13-open-unchecked-sub', expect=[('C13', 'R13.3')],
         note='ciphertext shorter than a tag: subtraction overflow panic (debug) / slice panic (release)',
         edits=[(AEAD, """        let msg_len = ciphertext
            .len()
            .checked_sub(tag_len)
            .ok_or(HpkeError::OpenError)?;""", """        let msg_len = ciphertext.len() - tag_len;""")]),
    dict(name='c13-tag-from-bytes-guard-removed', expect=[('C13', 'R13.3')],
         note='AeadTag::from_bytes panics in copy_from_slice for any length != 16',
         edits=[(AEAD, """        enforce_equal_len(Self::size(), encoded.len())?;

        // Copy to a fixed-size array
        let mut arr = <GenericArray<u8, Self::OutputSize> as Default>::default();""", """        // Copy to a fixed-size array
        let mut arr = <GenericArray<u8, Self::OutputSize> as Default>::default();""")]),
    dict(name='c13-max-pubkey-size-97', expect=[('C13', 'R13.3')],
         note='P-521 encapsulation panics in the concat buffer (133 > 97); p521 is not in the default features',
         edits=[("src/dhkex.rs", "pub(crate) const MAX_PUBKEY_SIZE: usize = 133;", "pub(crate) const MAX_PUBKEY_SIZE: usize = 97;")]),
    dict(name='c13-decap-unwrapped-in-setup', expect=[('C13', 'R13.3'), ('C13', 'R13.4')],
         note='a small-order / invalid encapsulated key panics the receiver',
         edits=[(SETUP, "let shared_secret = Kem::decap(sk_recip, pk_sender_id, encapped_key)?;", "let shared_secret = Kem::decap(sk_recip, pk_sender_id, encapped_key).unwrap();")]),
    dict(name='c13-fixed-prefix-of-input', expect=[('C13', 'R13.3')],
         note='open() peeks at the first 16 bytes: panics on inputs shorter than 16',
         edits=[(AEAD, """        // Now deconstruct the auth'd ciphertext
        let (ciphertext, tag_slice) = ciphertext.split_at(msg_len);""", """        // Now deconstruct the auth'd ciphertext
        let _hdr = &ciphertext[..16];
        let (ciphertext, tag_slice) = ciphertext.split_at(msg_len);""")]),
    dict(name='c13-nist-privkey-guard-removed', expect=[('C13', 'R13.3')],
         note='NIST PrivateKey::from_bytes panics in the &[u8] -> GenericArray conversion on wrong lengths',
         edits=[(NIST, """                    // Check the length
                    enforce_equal_len(Self::OutputSize::to_usize(), encoded.len())?;
""", "")]),
    dict(name='c13-max-digest-size-48', expect=[('C13', 'R13.3')],
         note='HKDF-SHA512 suites panic in the key schedule concat buffer (1+64+64 = 129 > 126)',
         edits=[(KDF, "pub(crate) const MAX_DIGEST_SIZE: usize = 64;", "pub(crate) const MAX_DIGEST_SIZE: usize = 42;")]),
    dict(name='c13-export-only-nonce-4', expect=[('C13', 'R13.3')],
         note='nonce_size - 8 underflows for the export-only suite before its own panic message (still a panic, but also breaks D7 for any future 4-byte-nonce AEAD)',
         edits=[("src/aead/export_only.rs", "    type NonceSize = typenum::U128;", "    type NonceSize = typenum::U4;")]),
    dict(name='c13-info-length-assert', expect=[('C13', 'R13.3')],
         note='setup panics for info strings longer than 64 KiB',
         edits=[(SETUP, """    // Put together the binding context used for all KDF operations
    let suite_id = full_suite_id::<A, Kdf, Kem>();

    // In KeySchedule(),""", """    // Put together the binding context used for all KDF operations
    let suite_id = full_suite_id::<A, Kdf, Kem>();
    assert!(info.len() < 65536);

    // In KeySchedule(),""")]),
    # ------------------------------------------------------------------ loop-form variants of the nonce helper
    dict(name='c04-loopform-skips-last-byte', expect=[('C04', 'R04.1')],
         note='rewritten as an indexed loop that forgets the last byte: nonces differ only from message 256 on... and collide with RFC peers',
         edits=[(AEAD, """    // XOR the base nonce bytes with the sequence bytes
    let new_nonce_iter = base_nonce
        .0
        .iter()
        .zip(seq_buf.0.iter())
        .map(|(nonce_byte, seq_byte)| nonce_byte ^ seq_byte);

    // This cannot fail, as the length of AeadNonce<A> is precisely the length of Seq
    AeadNonce(GenericArray::from_exact_iter(new_nonce_iter).unwrap())""", """    for i in 0..nonce_size - 1 {
        seq_buf.0[i] ^= base_nonce.0[i];
    }
    seq_buf""")]),
    dict(name='c04-loopform-or-instead-of-xor', expect=[('C04', 'R04.1')],
         note='indexed loop uses | instead of ^',
         edits=[(AEAD, """    // XOR the base nonce bytes with the sequence bytes
    let new_nonce_iter = base_nonce
        .0
        .iter()
        .zip(seq_buf.0.iter())
        .map(|(nonce_byte, seq_byte)| nonce_byte ^ seq_byte);

    // This cannot fail, as the length of AeadNonce<A> is precisely the length of Seq
    AeadNonce(GenericArray::from_exact_iter(new_nonce_iter).unwrap())""", """    for i in 0..nonce_size {
        seq_buf.0[i] |= base_nonce.0[i];
    }
    seq_buf""")]),
    # ------------------------------------------------------------------ C12 value flow
    dict(name='c12-x25519-pubkey-high-bit-masked', expect=[('C12', 'R12.6')],
         note='X25519 public keys with bit 255 set re-serialize differently (and two encodings alias)',
         edits=[(X25519, """        arr.copy_from_slice(encoded);
        Ok(PublicKey(x25519_dalek::PublicKey::from(arr)))""", """        arr.copy_from_slice(encoded);
        arr[31] &= 0x7f;
        Ok(PublicKey(x25519_dalek::PublicKey::from(arr)))""")]),
    dict(name='c12-tag-write-exact-reversed', expect=[('C12', 'R12.6')],
         note='AeadTag::write_exact reverses the tag bytes after copying (to_bytes/from_bytes no longer round-trip)',
         edits=[(AEAD, """        buf.copy_from_slice(&self.0);
    }""", """        buf.copy_from_slice(&self.0);
        buf.reverse();
    }""")]),
    dict(name='c12-x25519-privkey-writes-pubkey-bytes', expect=[('C12', 'R12.6')],
         note='PrivateKey::write_exact serializes something other than the scalar',
         edits=[(X25519, """        enforce_outbuf_len::<Self>(buf);

        buf.copy_from_slice(self.0.as_bytes());
    }
}
impl Deserializable for PrivateKey {""", """        enforce_outbuf_len::<Self>(buf);

        buf.copy_from_slice(x25519_dalek::PublicKey::from(&self.0).as_bytes());
    }
}
impl Deserializable for PrivateKey {""")]),
    # ------------------------------------------------------------------ C17 cfg / feature universe
    dict(name='c17-release-only-shortcut', expect=[('C17', 'R17.6')],
         note='the exact-length guard of AeadTag::from_bytes only exists in debug builds: release builds panic on wrong lengths',
         edits=[(AEAD, """        enforce_equal_len(Self::size(), encoded.len())?;

        // Copy to a fixed-size array""", """        #[cfg(debug_assertions)]
        enforce_equal_len(Self::size(), encoded.len())?;
        #[cfg(not(debug_assertions))]
        if encoded.len() < Self::size() { return Err(HpkeError::IncorrectInputLength(Self::size(), encoded.len())); }

        // Copy to a fixed-size array""")]),
    dict(name='c17-target-width-dependent', expect=[('C17', 'R17.6')],
         note='32-bit targets use a different concat buffer size',
         edits=[("src/dhkex.rs", "pub(crate) const MAX_PUBKEY_SIZE: usize = 133;", """#[cfg(target_pointer_width = "64")]
pub(crate) const MAX_PUBKEY_SIZE: usize = 133;
#[cfg(not(target_pointer_width = "64"))]
pub(crate) const MAX_PUBKEY_SIZE: usize = 97;""")]),
    dict(name='c17-std-implies-p256', expect=[('C17', 'R17.5')],
         note='feature std silently enables the P-256 KEM: subsets are no longer independent',
         edits=[("Cargo.toml", "std = []", 'std = ["p256"]')]),
    dict(name='c02-nsecret-is-blocksize', expect=[('C02', 'R02.1')],
         note='KEM shared secrets are expanded to the hash block size (64/128 bytes) instead of Nh; both sides agree',
         edits=[(DHKEM, "type NSecret = <<$kdf as KdfTrait>::HashImpl as OutputSizeUser>::OutputSize;", "type NSecret = <<$kdf as KdfTrait>::HashImpl as digest::core_api::BlockSizeUser>::BlockSize;")]),
    # build-profile dimension (rules also run on the MIR without cfg(debug_assertions))
    dict(name='profile-exporter-expand-release-truncated', expect=[('C02', 'R02.5'), ('C11', 'R11.3'), ('C17', 'R17.6')],
         note='release builds only: the exporter secret is filled to 16 bytes; dev-profile MIR is unchanged',
         edits=[(SETUP, """    secret_ctx
        .labeled_expand(
            &suite_id,
            b"exp",
            sched_context,
            exporter_secret.0.as_mut_slice(),
        )
        .expect("exporter secret len is way too big");""", """    #[cfg(debug_assertions)]
    secret_ctx
        .labeled_expand(
            &suite_id,
            b"exp",
            sched_context,
            exporter_secret.0.as_mut_slice(),
        )
        .expect("exporter secret len is way too big");
    #[cfg(not(debug_assertions))]
    secret_ctx
        .labeled_expand(
            &suite_id,
            b"exp",
            sched_context,
            &mut exporter_secret.0.as_mut_slice()[..16],
        )
        .expect("exporter secret len is way too big");""")]),
    dict(name='profile-open-overflow-check-debug-only', expect=[('C05', 'R05.4')],
         note='release builds only: the exhausted receiver is only refused under debug assertions',
         edits=[(AEAD, """including ones with a malformed ciphertext
        if self.0.overflowed {""", """including ones with a malformed ciphertext
        if cfg!(debug_assertions) && self.0.overflowed {""")]),
    dict(name='c13-nist-privkey-guard-removed-from-spelling', expect=[('C13', 'R13.3')],
         note='a private key of the wrong length panics in <&GenericArray>::from (spelled with From instead of .into())',
         edits=[(NIST, """                    enforce_equal_len(Self::OutputSize::to_usize(), encoded.len())?;

                    // * Invariant: PrivateKey is in [1,p). This is preserved here.""", """
                    // * Invariant: PrivateKey is in [1,p). This is preserved here."""),
                (NIST, "let sk = curve_crate::SecretKey::from_bytes(encoded.into())", "let sk = curve_crate::SecretKey::from_bytes(From::from(encoded))")]),
    dict(name='c02-labeled-extract-loop-swapped-pieces', expect=[('C02', 'R02.4')],
         note='loop form of LabeledExtract with suite_id and label swapped: every labeled extract differs from RFC 9180',
         edits=[(KDF, """    extract_ctx.input_ikm(VERSION_LABEL);
    extract_ctx.input_ikm(suite_id);
    extract_ctx.input_ikm(label);
    extract_ctx.input_ikm(ikm);""", """    for piece in [VERSION_LABEL, label, suite_id, ikm] {
        extract_ctx.input_ikm(piece);
    }""")]),
    dict(name='c02-labeled-extract-loop-skips-empty', expect=[('C02', 'R02.4')],
         note='loop form that stops at the first empty piece: the ikm is dropped whenever the label is empty',
         edits=[(KDF, """    extract_ctx.input_ikm(VERSION_LABEL);
    extract_ctx.input_ikm(suite_id);
    extract_ctx.input_ikm(label);
    extract_ctx.input_ikm(ikm);""", """    for piece in [VERSION_LABEL, suite_id, label, ikm] {
        if piece.is_empty() {
            break;
        }
        extract_ctx.input_ikm(piece);
    }""")]),
    dict(name='c04-nonce-enumerate-loop-wrong-position', expect=[('C04', 'R04.1')],
         note='enumerate/index spelling of the XOR loop that mixes in counter byte 0 at every position',
         edits=[(AEAD, """    let new_nonce_iter = base_nonce
        .0
        .iter()
        .zip(seq_buf.0.iter())
        .map(|(nonce_byte, seq_byte)| nonce_byte ^ seq_byte);

    // This cannot fail, as the length of AeadNonce<A> is precisely the length of Seq
    AeadNonce(GenericArray::from_exact_iter(new_nonce_iter).unwrap())""", """    let mut new_nonce = AeadNonce::<A>::default();
    for (i, out_byte) in new_nonce.0.iter_mut().enumerate() {
        *out_byte = base_nonce.0[i] ^ seq_buf.0[0];
    }
    new_nonce""")]),
    dict(name='c04-nonce-enumerate-loop-base-twice', expect=[('C04', 'R04.1')],
         note='enumerate/index spelling of the XOR loop that XORs the base nonce with itself: every nonce is zero',
         edits=[(AEAD, """    let new_nonce_iter = base_nonce
        .0
        .iter()
        .zip(seq_buf.0.iter())
        .map(|(nonce_byte, seq_byte)| nonce_byte ^ seq_byte);

    // This cannot fail, as the length of AeadNonce<A> is precisely the length of Seq
    AeadNonce(GenericArray::from_exact_iter(new_nonce_iter).unwrap())""", """    let mut new_nonce = AeadNonce::<A>::default();
    for (i, out_byte) in new_nonce.0.iter_mut().enumerate() {
        *out_byte = base_nonce.0[i] ^ base_nonce.0[i];
    }
    let _ = &seq_buf;
    new_nonce""")]),
    # ------------------------------------------------------------------ the length guard spelled out as a comparison
    dict(name='c12-explicit-guard-lt', expect=[('C12', 'R12.2')],
         note='explicit comparison guard that lets over-long X25519 public keys through (then panics in copy_from_slice)',
         edits=[(X25519, '        // Pubkeys must be 32 bytes\n        enforce_equal_len(Self::OutputSize::to_usize(), encoded.len())?;\n\n        // Copy to a fixed-size array', '        // Pubkeys must be 32 bytes\n        if encoded.len() < 32 {\n            return Err(HpkeError::IncorrectInputLength(32, encoded.len()));\n        }\n        let encoded = &encoded[..32];\n\n        // Copy to a fixed-size array')]),
    dict(name='c12-explicit-guard-wrong-n', expect=[('C12', 'R12.2')],
         note='explicit comparison guard against 33 instead of Npk = 32',
         edits=[(X25519, '        // Pubkeys must be 32 bytes\n        enforce_equal_len(Self::OutputSize::to_usize(), encoded.len())?;\n\n        // Copy to a fixed-size array', '        // Pubkeys must be 32 bytes\n        if encoded.len() != 33 {\n            return Err(HpkeError::IncorrectInputLength(33, encoded.len()));\n        }\n        let encoded = &encoded[..32];\n\n        // Copy to a fixed-size array')]),
    dict(name='c12-explicit-guard-payload-swapped', expect=[('C12', 'R12.2')],
         note='explicit comparison guard whose error carries (given, expected)',
         edits=[(X25519, '        // Pubkeys must be 32 bytes\n        enforce_equal_len(Self::OutputSize::to_usize(), encoded.len())?;\n\n        // Copy to a fixed-size array', '        // Pubkeys must be 32 bytes\n        if encoded.len() != 32 {\n            return Err(HpkeError::IncorrectInputLength(encoded.len(), 32));\n        }\n\n        // Copy to a fixed-size array')]),
    dict(name='c12-explicit-guard-other-error', expect=[('C12', 'R12.2')],
         note='explicit comparison guard that reports ValidationError for a wrong length',
         edits=[(X25519, '        // Pubkeys must be 32 bytes\n        enforce_equal_len(Self::OutputSize::to_usize(), encoded.len())?;\n\n        // Copy to a fixed-size array', '        // Pubkeys must be 32 bytes\n        if encoded.len() != 32 {\n            return Err(HpkeError::ValidationError);\n        }\n\n        // Copy to a fixed-size array')]),
    dict(name='c09-explicit-guard-compressed-len', expect=[('C09', 'R09.1')],
         note='explicit comparison guard on NIST public keys that also admits len == 33 (compressed P-256 points)',
         edits=[(NIST, '                    // representation.\n                    enforce_equal_len(Self::OutputSize::to_usize(), encoded.len())?;\n', '                    // representation.\n                    let want = Self::OutputSize::to_usize();\n                    if encoded.len() != want && encoded.len() != 33 {\n                        return Err(HpkeError::IncorrectInputLength(want, encoded.len()));\n                    }\n')]),
    dict(name='c09-explicit-guard-inverted', expect=[('C09', 'R09.1')],
         note='explicit comparison guard with == for != : every correctly sized NIST public key is rejected, everything else parsed',
         edits=[(NIST, '                    // representation.\n                    enforce_equal_len(Self::OutputSize::to_usize(), encoded.len())?;\n', '                    // representation.\n                    if encoded.len() == Self::OutputSize::to_usize() {\n                        return Err(HpkeError::IncorrectInputLength(Self::OutputSize::to_usize(), encoded.len()));\n                    }\n')]),
    # ------------------------------------------------------------------ the u64 encoder written as a loop
    dict(name='c04-loop-encoder-little-endian', expect=[('C04', 'R02.3')],
         note='loop form of write_u64_be that shifts by 8*i: the counter is written little-endian, nonces differ from RFC 9180',
         edits=[(UTIL, '    assert_eq!(buf.len(), 8);\n    buf[0] = ((n & 0xff00000000000000) >> 56) as u8;\n    buf[1] = ((n & 0x00ff000000000000) >> 48) as u8;\n    buf[2] = ((n & 0x0000ff0000000000) >> 40) as u8;\n    buf[3] = ((n & 0x000000ff00000000) >> 32) as u8;\n    buf[4] = ((n & 0x00000000ff000000) >> 24) as u8;\n    buf[5] = ((n & 0x0000000000ff0000) >> 16) as u8;\n    buf[6] = ((n & 0x000000000000ff00) >>  8) as u8;\n    buf[7] =  (n & 0x00000000000000ff)        as u8;', '    assert_eq!(buf.len(), 8);\n    for (i, byte) in buf.iter_mut().enumerate() {\n        *byte = (n >> (8 * i)) as u8;\n    }')]),
    dict(name='c04-loop-encoder-off-by-one-shift', expect=[('C04', 'R02.3')],
         note='loop form of write_u64_be with 8*(7-i) replaced by a saturating 8*(6-i): byte 6 and 7 both carry the low byte',
         edits=[(UTIL, '    assert_eq!(buf.len(), 8);\n    buf[0] = ((n & 0xff00000000000000) >> 56) as u8;\n    buf[1] = ((n & 0x00ff000000000000) >> 48) as u8;\n    buf[2] = ((n & 0x0000ff0000000000) >> 40) as u8;\n    buf[3] = ((n & 0x000000ff00000000) >> 32) as u8;\n    buf[4] = ((n & 0x00000000ff000000) >> 24) as u8;\n    buf[5] = ((n & 0x0000000000ff0000) >> 16) as u8;\n    buf[6] = ((n & 0x000000000000ff00) >>  8) as u8;\n    buf[7] =  (n & 0x00000000000000ff)        as u8;', '    assert_eq!(buf.len(), 8);\n    for (i, byte) in buf.iter_mut().enumerate() {\n        *byte = (n >> (8 * 6usize.saturating_sub(i))) as u8;\n    }')]),
    dict(name='c04-loop-encoder-skips-high-half', expect=[('C04', 'R02.3')],
         note='loop form of write_u64_be that leaves the four high bytes untouched (sequence numbers >= 2^32 collide)',
         edits=[(UTIL, '    assert_eq!(buf.len(), 8);\n    buf[0] = ((n & 0xff00000000000000) >> 56) as u8;\n    buf[1] = ((n & 0x00ff000000000000) >> 48) as u8;\n    buf[2] = ((n & 0x0000ff0000000000) >> 40) as u8;\n    buf[3] = ((n & 0x000000ff00000000) >> 32) as u8;\n    buf[4] = ((n & 0x00000000ff000000) >> 24) as u8;\n    buf[5] = ((n & 0x0000000000ff0000) >> 16) as u8;\n    buf[6] = ((n & 0x000000000000ff00) >>  8) as u8;\n    buf[7] =  (n & 0x00000000000000ff)        as u8;', '    assert_eq!(buf.len(), 8);\n    for (i, byte) in buf.iter_mut().enumerate() {\n        if i < 4 {\n            continue;\n        }\n        *byte = (n >> (8 * (7 - i))) as u8;\n    }')]),
    dict(name='c04-loop-encoder-masked-shift', expect=[('C04', 'R02.3')],
         note='loop form of write_u64_be whose shift amount is masked to 5 bits: bytes 0..3 repeat bytes 4..7',
         edits=[(UTIL, '    assert_eq!(buf.len(), 8);\n    buf[0] = ((n & 0xff00000000000000) >> 56) as u8;\n    buf[1] = ((n & 0x00ff000000000000) >> 48) as u8;\n    buf[2] = ((n & 0x0000ff0000000000) >> 40) as u8;\n    buf[3] = ((n & 0x000000ff00000000) >> 32) as u8;\n    buf[4] = ((n & 0x00000000ff000000) >> 24) as u8;\n    buf[5] = ((n & 0x0000000000ff0000) >> 16) as u8;\n    buf[6] = ((n & 0x000000000000ff00) >>  8) as u8;\n    buf[7] =  (n & 0x00000000000000ff)        as u8;', '    assert_eq!(buf.len(), 8);\n    for (i, byte) in buf.iter_mut().enumerate() {\n        *byte = (n >> ((8 * (7 - i)) & 31)) as u8;\n    }')]),
    # ------------------------------------------------------------------ DeriveKeyPair written with find_map (benign patch B4-4) + one fault
    dict(name='c03-find-map-derive-255-attempts', expect=[('C03', 'R03.3'), ('C02', 'R02.10')], patch=BP + 'B4-4.diff',
         note='find_map spelling of the NIST rejection loop over 0..255 (exclusive): 255 attempts instead of 256',
         edits=[(NIST, "let keypair = (0u8..=255).find_map(|counter| {", "let keypair = (0u8..255).find_map(|counter| {")]),
    dict(name='c03-find-map-derive-mask-after-parse', expect=[('C03', 'R03.3')], patch=BP + 'B4-4.diff',
         note='find_map spelling in which the bitmask is applied after the candidate was parsed (P-521 candidates are almost never in range)',
         edits=[(NIST, """                        // Apply the bitmask
                        buf[0] &= $keygen_bitmask;
""", ""),
                (NIST, "                        PrivateKey::from_bytes(&buf).ok().map(|sk| {", """                        let parsed = PrivateKey::from_bytes(&buf);
                        buf[0] &= $keygen_bitmask;
                        parsed.ok().map(|sk| {""")]),
    dict(name='c03-find-map-derive-counter-plus-one', expect=[('C03', 'R03.3')], patch=BP + 'B4-4.diff',
         note='find_map spelling whose info byte is counter + 1 (wrapping): every derived key differs from RFC 9180',
         edits=[(NIST, "&[counter]", "&[counter.wrapping_add(1)]")]),
    # ------------------------------------------------------------------ assertions over lengths (D10 must not over-approve)
    dict(name='c13-debug-assert-64k-bound', expect=[('C13', 'R13.3')],
         note='a debug_assert that the parts add up to less than 64 KiB + Nt: fires for long ciphertexts in debug builds',
         edits=[(AEAD, '        let (ciphertext, tag_slice) = ciphertext.split_at(msg_len);\n', '        let (ciphertext, tag_slice) = ciphertext.split_at(msg_len);\n        debug_assert!(ciphertext.len() + tag_slice.len() < 65536 + tag_len);\n')]),
    dict(name='c13-assert-parts-sum-off-by-one', expect=[('C13', 'R13.3')],
         note='an assert_eq of the two halves of split_at against msg_len + tag_len + 1: can never hold',
         edits=[(AEAD, '        let (ciphertext, tag_slice) = ciphertext.split_at(msg_len);\n', '        let (ciphertext, tag_slice) = ciphertext.split_at(msg_len);\n        assert_eq!(ciphertext.len() + tag_slice.len(), msg_len + tag_len + 1);\n')]),
    dict(name='c13-assert-nonempty-message', expect=[('C13', 'R13.3')],
         note='assert!(ciphertext.len() > tag_len) before the split: an empty sealed message panics the receiver',
         edits=[(AEAD, '        let (ciphertext, tag_slice) = ciphertext.split_at(msg_len);\n', '        assert!(ciphertext.len() > tag_len);\n        let (ciphertext, tag_slice) = ciphertext.split_at(msg_len);\n')]),
    # ------------------------------------------------------------------ forms accepted since benign round 5, each with one fault
    dict(name='c04-fs-zip-drops-counter', expect=[('C04', 'R04.1')],
         note='generic-array FunctionalSequence::zip form of the nonce XOR whose closure returns the base byte only: every nonce equals the base nonce',
         edits=[(AEAD, 'use generic_array::GenericArray;\nuse zeroize::Zeroize;', 'use generic_array::{functional::FunctionalSequence, GenericArray};\nuse zeroize::Zeroize;'), (AEAD, '    let new_nonce_iter = base_nonce\n        .0\n        .iter()\n        .zip(seq_buf.0.iter())\n        .map(|(nonce_byte, seq_byte)| nonce_byte ^ seq_byte);\n\n    // This cannot fail, as the length of AeadNonce<A> is precisely the length of Seq\n    AeadNonce(GenericArray::from_exact_iter(new_nonce_iter).unwrap())', '    let base: &GenericArray<u8, _> = &base_nonce.0;\n    AeadNonce(base.zip(&seq_buf.0, |nonce_byte, _seq_byte| *nonce_byte))')]),
    dict(name='c04-fs-zip-or-for-xor', expect=[('C04', 'R04.1')],
         note='FunctionalSequence::zip form with | for ^',
         edits=[(AEAD, 'use generic_array::GenericArray;\nuse zeroize::Zeroize;', 'use generic_array::{functional::FunctionalSequence, GenericArray};\nuse zeroize::Zeroize;'), (AEAD, '    let new_nonce_iter = base_nonce\n        .0\n        .iter()\n        .zip(seq_buf.0.iter())\n        .map(|(nonce_byte, seq_byte)| nonce_byte ^ seq_byte);\n\n    // This cannot fail, as the length of AeadNonce<A> is precisely the length of Seq\n    AeadNonce(GenericArray::from_exact_iter(new_nonce_iter).unwrap())', '    let base: &GenericArray<u8, _> = &base_nonce.0;\n    AeadNonce(base.zip(&seq_buf.0, |nonce_byte, seq_byte| nonce_byte | seq_byte))')]),
    dict(name='c02-suite-id-loop-reversed', expect=[('C02', 'R02.2')], patch=BP + 'B28-1.diff',
         note='loop form of the suite-id writer that places the identifiers in reverse order (AEAD, KDF, KEM)',
         edits=[(UTIL, "let start = prefix_len + 2 * i;", "let start = prefix_len + 2 * (ids.len() - 1 - i);")]),
    dict(name='c12-encapped-key-delegates-then-patches', expect=[('C12', 'R12.6')], patch=BP + 'B25-3.diff',
         note='EncappedKey::write_exact lets the public key write itself and then overwrites byte 0',
         edits=[('src/kem/dhkem.rs', "                    self.0.write_exact(buf);\n", "                    self.0.write_exact(buf);\n                    buf[0] = 0x04;\n")]),
    dict(name='c13-try-from-expect-without-guard', expect=[('C13', 'R13.3'), ('C12', 'R12.2')],
         note='X25519 public key from_bytes: the length guard is gone and <[u8; 32]>::try_from(..).expect(..) panics on any other length',
         edits=[(X25519, """        // Pubkeys must be 32 bytes
        enforce_equal_len(Self::OutputSize::to_usize(), encoded.len())?;

        // Copy to a fixed-size array
        let mut arr = [0u8; 32];
        arr.copy_from_slice(encoded);""", """        // Pubkeys must be 32 bytes
        let arr = <[u8; 32]>::try_from(encoded).expect("pubkeys are 32 bytes");""")]),
    dict(name='c13-loop-encoder-without-length-assert', expect=[('C13', 'R13.3'), ('C04', 'R02.3')],
         note='loop form of write_u64_be without assert_eq!(buf.len(), 8): 7 - i underflows for longer buffers and shorter ones are partly written',
         edits=[(UTIL, '    assert_eq!(buf.len(), 8);\n    buf[0] = ((n & 0xff00000000000000) >> 56) as u8;\n    buf[1] = ((n & 0x00ff000000000000) >> 48) as u8;\n    buf[2] = ((n & 0x0000ff0000000000) >> 40) as u8;\n    buf[3] = ((n & 0x000000ff00000000) >> 32) as u8;\n    buf[4] = ((n & 0x00000000ff000000) >> 24) as u8;\n    buf[5] = ((n & 0x0000000000ff0000) >> 16) as u8;\n    buf[6] = ((n & 0x000000000000ff00) >>  8) as u8;\n    buf[7] =  (n & 0x00000000000000ff)        as u8;', "    for (i, byte) in buf.iter_mut().enumerate() {\n        *byte = (n >> (8 * (7 - i))) as u8;\n    }")]),
    dict(name='c04-tail-xor-shifted-by-one', expect=[('C04', 'R04.1')], patch=BP + 'B25-1.diff',
         note='tail form of mix_nonce whose tail starts one byte early: the zip stops after 8 bytes, the counter lands one position too far left',
         edits=[(AEAD, "let nonce_tail = &mut nonce.0[nonce_size - seq_size..];", "let nonce_tail = &mut nonce.0[nonce_size - seq_size - 1..];")]),
    dict(name='c04-tail-xor-into-head', expect=[('C04', 'R04.1')], patch=BP + 'B25-1.diff',
         note='tail form of mix_nonce that XORs the counter into the first 8 bytes',
         edits=[(AEAD, "let nonce_tail = &mut nonce.0[nonce_size - seq_size..];", "let nonce_tail = &mut nonce.0[..seq_size];")]),
    dict(name='c04-tail-xor-counter-truncated', expect=[('C04', 'R04.1')], patch=BP + 'B25-1.diff',
         note='tail form of mix_nonce whose counter bytes come from seq.0 as u32 (nonces repeat after 2^32 messages)',
         edits=[(AEAD, "write_u64_be(&mut seq_bytes, seq.0);", "write_u64_be(&mut seq_bytes, u64::from(seq.0 as u32));")]),
    dict(name='c09-closure-parse-before-guard', expect=[('C09', 'R09.1'), ('C12', 'R12.2')],
         note='the NIST public-key parser, wrapped in a closure that captures the input, runs before the length guard: malformed input of the wrong length is reported as ValidationError',
         edits=[(NIST, """                    enforce_equal_len(Self::OutputSize::to_usize(), encoded.len())?;

                    // Now just deserialize. The non-identity invariant is preserved because
                    // PublicKey::from_sec1_bytes() will error if it receives the point at
                    // infinity. This is because its submethod, PublicKey::from_encoded_point(),
                    // does this check explicitly.
                    let parsed = curve_crate::PublicKey::from_sec1_bytes(encoded)
                        .map_err(|_| HpkeError::ValidationError)?;""", """                    let parse = || {
                        curve_crate::PublicKey::from_sec1_bytes(encoded)
                            .map_err(|_| HpkeError::ValidationError)
                    };
                    let parsed = parse()?;
                    enforce_equal_len(Self::OutputSize::to_usize(), encoded.len())?;""")]),
    dict(name='c04-from-fn-encoder-little-endian', expect=[('C04', 'R02.3'), ('C02', 'R02.3')], patch=BP + 'B13-2.diff',
         note='const-generic array::from_fn form of the integer encoders with shift 8*i: little-endian counter and suite ids',
         edits=[(UTIL, "core::array::from_fn(|i| (n >> (8 * (N - 1 - i))) as u8)", "core::array::from_fn(|i| (n >> (8 * i)) as u8)")]),
    dict(name='c04-from-fn-encoder-low-bytes-only', expect=[('C04', 'R02.3')], patch=BP + 'B13-2.diff',
         note='from_fn form whose shift is taken modulo 32: the four high bytes of the counter repeat the low ones',
         edits=[(UTIL, "core::array::from_fn(|i| (n >> (8 * (N - 1 - i))) as u8)", "core::array::from_fn(|i| (n >> ((8 * (N - 1 - i)) % 32)) as u8)")]),
    dict(name='c07-duplicate-kdf-id', expect=[('C07', 'R07.7')],
         note='HKDF-SHA384 announces KDF_ID 0x0003 (HKDF-SHA512\'s): two suites that differ in the KDF share a suite id',
         edits=[('src/kdf.rs', "    const KDF_ID: u16 = 0x0002;", "    const KDF_ID: u16 = 0x0003;")]),
    dict(name='c03-p384-kem-id-of-p256', expect=[('C03', 'R03.8'), ('C07', 'R07.7')],
         note='DHKEM(P-384) announces kem_id 0x0010 (P-256\'s): every P-384 shared secret is labelled with the wrong suite id',
         edits=[('src/kem/dhkem.rs', "    0x0011,\n", "    0x0010,\n")]),
    dict(name='c03-concat-fn-truncates-pieces', expect=[('C03', 'R03.2'), ('C02', 'R02.5')], patch=BP + 'B23-2.diff',
         note='const-generic concat function (loop over the pieces) that caps every piece at 64 bytes: NIST public keys are cut in kem_context',
         edits=[(UTIL, "        unused_space = write_to_buf(unused_space, slice);", "        unused_space = write_to_buf(unused_space, &slice[..slice.len().min(64)]);")]),
    dict(name='c03-concat-fn-skips-last-piece', expect=[('C03', 'R03.2')], patch=BP + 'B23-2.diff',
         note='const-generic concat function whose loop leaves out the last piece (pkS / the identity DH)',
         edits=[(UTIL, "    for slice in slices {", "    for slice in &slices[..slices.len() - 1] {")]),
    # ------------------------------------------------------------------ forms accepted since benign round 6, each with one fault
    dict(name='c09-or-wrong-error', expect=[('C09', 'R09.2')], patch=BP + 'B33-4.diff',
         note='`.map(PrivateKey).or(Err(..))` spelling of the NIST private-key parser that reports DecapError for an out-of-range scalar',
         edits=[(NIST, ".or(Err(HpkeError::ValidationError))", ".or(Err(HpkeError::DecapError))")]),
    dict(name='c04-double-slice-shifted', expect=[('C04', 'R04.1')], patch=BP + 'B34-2.diff',
         note='buf[off..][..8] spelling of the counter position with off one byte too small',
         edits=[(AEAD, "let seq_offset = nonce_size - SEQ_SIZE;", "let seq_offset = nonce_size - SEQ_SIZE - 1;")]),
    dict(name='c14-explicit-split-rejects-empty', expect=[('C14', 'R14.2'), ('C01', 'R14.2')], patch=BP + 'B34-3.diff',
         note='explicit-comparison spelling of the length check with > for >=: a sealed empty message is refused by open() only',
         edits=[(AEAD, "if !(total_len >= tag_len) {", "if !(total_len > tag_len) {")]),
    dict(name='c02-explicit-context-hashes-swapped', expect=[('C02', 'R02.5')], patch=BP + 'B34-5.diff',
         note='hand-laid-out key_schedule_context with info_hash before psk_id_hash',
         edits=[('src/setup.rs', "        buf[1..=hash_len].copy_from_slice(&psk_id_hash);\n        buf[info_hash_start..total_len].copy_from_slice(&info_hash);",
                 "        buf[1..=hash_len].copy_from_slice(&info_hash);\n        buf[info_hash_start..total_len].copy_from_slice(&psk_id_hash);")]),
    dict(name='c13-dh-or-helper-unwraps', expect=[('C10', 'R10.2')], patch=BP + 'B33-3.diff',
         note='the shared dh_or helper ignores its failure argument and reports EncapError on the receiver side too',
         edits=[('src/kem/dhkem.rs', "                    Err(_) => Err(failure),", "                    Err(_) => { let _ = failure; Err(HpkeError::EncapError) }")]),
    dict(name='c01-default-accessor-sender-drops-authpsk', expect=[('C01', 'R01.5'), ('C02', 'R02.6')], patch=BP + 'B36-2.diff',
         note='PSK accessors as default trait methods over psk_bundle(): the sender\'s psk_bundle() forgets the AuthPsk arm, so an AuthPsk sender keys its schedule with the empty PSK',
         edits=[('src/op_mode.rs', "            OpModeS::AuthPsk(_, bundle) => Some(bundle),\n", "")]),
    dict(name='c15-default-accessor-id-for-bytes', expect=[('C15', 'R15.3')], patch=BP + 'B36-2.diff',
         note='default get_psk_bytes returns bundle.psk_id: the identifier is used as the key',
         edits=[('src/op_mode.rs', "            Some(bundle) => bundle.psk,\n", "            Some(bundle) => bundle.psk_id,\n")]),
    dict(name='c02-generic-ctx-schedule-wrong-label', expect=[('C02', 'R02.5'), ('C11', 'R11.3')], patch=BP + 'B22-2.diff',
         note='key schedule generic over the returned context type (conversion hoisted by the normaliser) with the exporter secret derived under the label "exq"',
         edits=[('src/setup.rs', 'b"exp",', 'b"exq",')]),
]
