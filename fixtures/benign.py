"""Behaviour-preserving edits: every listed check must stay silent on them (self-test)."""
AEAD = 'src/aead.rs'
UTIL = 'src/util.rs'
SETUP = 'src/setup.rs'
KDF = 'src/kdf.rs'
DHKEM = 'src/kem/dhkem.rs'
NIST = 'src/dhkex/ecdh_nistp.rs'
X25519 = 'src/dhkex/x25519.rs'
OPMODE = 'src/op_mode.rs'
SINGLE = 'src/single_shot.rs'

BENIGN = [
    # formerly the mutant c06-open-trailing-bytes-ignored: tag_slice = ct[len - Nt ..] has exactly Nt bytes, so `[..tag_len]` is the
    # identity and appended garbage still shifts the split.  It was reported only because R06.2 compared spellings; since mk_slice
    # knows x[len-n..][..n] == x[len-n..] the edit is (correctly) silent.
    dict(name='b-open-tag-slice-reprefixed', props=['C06', 'C13', 'C05', 'C14'],
         edits=[(AEAD, """        let (ciphertext, tag_slice) = ciphertext.split_at(msg_len);""",
                 """        let (ciphertext, tag_slice) = ciphertext.split_at(msg_len);
        let tag_slice = &tag_slice[..tag_len];""")]),
    dict(name='b-rename-locals-seal', props=['C04'],
         edits=[(AEAD, """            let nonce = mix_nonce::<A>(&self.0.base_nonce, &self.0.seq);
            let tag = self
                .0
                .encryptor
                .encrypt_in_place_detached(&nonce.0, aad, plaintext)""", """            let n2 = mix_nonce::<A>(&self.0.base_nonce, &self.0.seq);
            let enc = &self.0.encryptor;
            let tag = enc
                .encrypt_in_place_detached(&n2.0, aad, plaintext)""")]),
    dict(name='b-early-return-seal', props=['C04'],
         edits=[(AEAD, """        if self.0.overflowed {
            // If the sequence counter overflowed, we've been used for far too long. Shut down.
            Err(HpkeError::MessageLimitReached)
        } else {
            // Compute the nonce and do the encryption in place
            let nonce = mix_nonce::<A>(&self.0.base_nonce, &self.0.seq);
            let tag = self""", """        if self.0.overflowed {
            return Err(HpkeError::MessageLimitReached);
        }
        {
            // Compute the nonce and do the encryption in place
            let nonce = mix_nonce::<A>(&self.0.base_nonce, &self.0.seq);
            let tag = self""")]),
    dict(name='b-comment-and-blank-lines', props=['C04'],
         edits=[(AEAD, "fn increment_seq(seq: &Seq) -> Option<Seq> {", "\n\n// moved\nfn increment_seq(seq: &Seq) -> Option<Seq> {\n    // a comment")]),
    dict(name='b-encoder-unmasked-shifts', props=['C04'],
         edits=[(UTIL, """    buf[0] = ((n & 0xff00000000000000) >> 56) as u8;""", """    buf[0] = (n >> 56) as u8;""")]),
    dict(name='b-seq-size-literal', props=['C04'],
         edits=[(AEAD, "let seq_size = core::mem::size_of::<Seq>();", "let seq_size = 8usize;")]),
    dict(name='b-open-question-mark-form', props=['C05', 'C04'],
         edits=[(AEAD, """            let decrypt_res = self
                .0
                .encryptor
                .decrypt_in_place_detached(&nonce.0, aad, ciphertext, &tag.0);

            if decrypt_res.is_err() {
                // Opening failed due to a bad tag
                return Err(HpkeError::OpenError);
            }
""", """            self.0
                .encryptor
                .decrypt_in_place_detached(&nonce.0, aad, ciphertext, &tag.0)
                .map_err(|_| HpkeError::OpenError)?;
""")]),
    dict(name='b-open-match-form', props=['C05'],
         edits=[(AEAD, """            if decrypt_res.is_err() {
                // Opening failed due to a bad tag
                return Err(HpkeError::OpenError);
            }
""", """            match decrypt_res {
                Ok(()) => {}
                Err(_) => return Err(HpkeError::OpenError),
            }
""")]),
    dict(name='b-open-is-ok-form', props=['C05'],
         edits=[(AEAD, """            if decrypt_res.is_err() {
                // Opening failed due to a bad tag
                return Err(HpkeError::OpenError);
            }
""", """            if !decrypt_res.is_ok() {
                return Err(HpkeError::OpenError);
            }
""")]),
    dict(name='b-single-shot-let-binding', props=['C14', 'C06'],
         edits=[(SINGLE, """    // Decrypt
    aead_ctx.open(ciphertext, aad)""", """    // Decrypt
    let pt = aead_ctx.open(ciphertext, aad)?;
    Ok(pt)""")]),
    dict(name='b-seal-msg-len-var', props=['C14', 'C06', 'C04'],
         edits=[(AEAD, "let tag = self.seal_in_place_detached(&mut buf[..plaintext.len()], aad)?;",
                 "let tag = self.seal_in_place_detached(&mut buf[..msg_len], aad)?;")]),
    dict(name='b-pskbundle-xnor-form', props=['C15'],
         edits=[(OPMODE, "if (psk.is_empty() && psk_id.is_empty()) || (!psk.is_empty() && !psk_id.is_empty()) {",
                 "if psk.is_empty() == psk_id.is_empty() {")]),
    dict(name='b-pskbundle-len-form', props=['C15'],
         edits=[(OPMODE, "if (psk.is_empty() && psk_id.is_empty()) || (!psk.is_empty() && !psk_id.is_empty()) {",
                 "if (psk.len() == 0) == (psk_id.len() == 0) {")]),
    dict(name='b-pskbundle-early-return', props=['C15'],
         edits=[(OPMODE, """        if (psk.is_empty() && psk_id.is_empty()) || (!psk.is_empty() && !psk_id.is_empty()) {
            Ok(PskBundle { psk, psk_id })
        } else {
            Err(HpkeError::InvalidPskBundle)
        }""", """        if psk.is_empty() != psk_id.is_empty() {
            return Err(HpkeError::InvalidPskBundle);
        }
        Ok(PskBundle { psk, psk_id })""")]),
    dict(name='b-x25519-plain-eq', props=['C10'],
         edits=[(X25519, "if res.as_bytes().ct_eq(&[0u8; 32]).into() {", "if res.as_bytes() == &[0u8; 32] {")]),
    dict(name='b-x25519-was-contributory', props=['C10'],
         edits=[(X25519, "if res.as_bytes().ct_eq(&[0u8; 32]).into() {", "if !res.was_contributory() {")]),
    dict(name='b-x25519-unwrap-u8-eq-1', props=['C10', 'C13'],
         edits=[(X25519, "if res.as_bytes().ct_eq(&[0u8; 32]).into() {", "if res.as_bytes().ct_eq(&[0u8; 32]).unwrap_u8() == 1 {")]),
    dict(name='b-x25519-unwrap-u8-ne-0', props=['C10', 'C13'],
         edits=[(X25519, "if res.as_bytes().ct_eq(&[0u8; 32]).into() {", "if res.as_bytes().ct_eq(&[0u8; 32]).unwrap_u8() != 0u8 {")]),
    dict(name='b-x25519-early-return', props=['C10'],
         edits=[(X25519, """        if res.as_bytes().ct_eq(&[0u8; 32]).into() {
            Err(DhError)
        } else {
            Ok(KexResult(res))
        }""", """        let is_zero: bool = res.as_bytes().ct_eq(&[0u8; 32]).into();
        if is_zero {
            return Err(DhError);
        }
        Ok(KexResult(res))""")]),
    dict(name='b-nist-guard-self-size', props=['C09'],
         edits=[(NIST, """                    // representation.
                    enforce_equal_len(Self::OutputSize::to_usize(), encoded.len())?;""", """                    // representation.
                    enforce_equal_len(Self::size(), encoded.len())?;""")]),
    dict(name='b-nist-privkey-from-slice', props=['C09'],
         edits=[(NIST, "let sk = curve_crate::SecretKey::from_bytes(encoded.into())", "let sk = curve_crate::SecretKey::from_slice(encoded)")]),
    dict(name='b-enforce-equal-len-eq-form', props=['C09'],
         edits=[(UTIL, """    if given_len != expected_len {
        Err(HpkeError::IncorrectInputLength(expected_len, given_len))
    } else {
        Ok(())
    }""", """    if expected_len == given_len {
        return Ok(());
    }
    Err(HpkeError::IncorrectInputLength(expected_len, given_len))""")]),
    dict(name='b-x25519-write-exact-guard-removed', props=['C12'],
         edits=[(X25519, """    // Dalek lets us convert pubkeys to [u8; 32]
    fn write_exact(&self, buf: &mut [u8]) {
        // Check the length is correct and panic if not
        enforce_outbuf_len::<Self>(buf);
""", """    // Dalek lets us convert pubkeys to [u8; 32]
    fn write_exact(&self, buf: &mut [u8]) {
""")]),
    dict(name='b-tag-guard-outputsize-form', props=['C12'],
         edits=[(AEAD, "        enforce_equal_len(Self::size(), encoded.len())?;", "        enforce_equal_len(<Self::OutputSize as generic_array::typenum::Unsigned>::to_usize(), encoded.len())?;")]),
    dict(name='b-nist-write-exact-guards-removed', props=['C12'],
         edits=[(NIST, """                    enforce_outbuf_len::<Self>(buf);

                    // Get the uncompressed pubkey encoding""", """                    // Get the uncompressed pubkey encoding"""),
                (NIST, """                    enforce_outbuf_len::<Self>(buf);

                    // SecretKeys already know how to convert to bytes""", """                    // SecretKeys already know how to convert to bytes"""),
                (NIST, """                    enforce_outbuf_len::<Self>(buf);

                    // elliptic_curve::ecdh::SharedSecret::raw_secret_bytes returns the serialized""", """                    // elliptic_curve::ecdh::SharedSecret::raw_secret_bytes returns the serialized""")]),
    dict(name='b-labeled-expand-guard-removed', props=['C02', 'C11'],
         edits=[(KDF, """        if out.len() > u16::MAX as usize {
            // The error condition is met, since 2^16 is way bigger than 255 * digest_bytelen
            return Err(hkdf::InvalidLength);
        }
""", "")]),
    dict(name='b-suite-id-writes-reordered', props=['C02'],
         edits=[(UTIL, """    write_u16_be(&mut suite_id[4..6], Kem::KEM_ID);
    write_u16_be(&mut suite_id[6..8], Kdf::KDF_ID);
    write_u16_be(&mut suite_id[8..10], A::AEAD_ID);""", """    write_u16_be(&mut suite_id[8..10], A::AEAD_ID);
    write_u16_be(&mut suite_id[4..6], Kem::KEM_ID);
    write_u16_be(&mut suite_id[6..8], Kdf::KDF_ID);""")]),
    dict(name='b-key-schedule-locals-renamed', props=['C02', 'C15', 'C16'],
         edits=[(SETUP, """        let (info_hash, _) = labeled_extract::<Kdf>(&[], &suite_id, b"info_hash", info);""", """        let ih = labeled_extract::<Kdf>(&[], &suite_id, b"info_hash", info);
        let info_hash = ih.0;""")]),
    dict(name='b-encoder-to-be-bytes', props=['C04', 'C02', 'C13'],
         edits=[(UTIL, """    assert_eq!(buf.len(), 8);
    buf[0] = ((n & 0xff00000000000000) >> 56) as u8;
    buf[1] = ((n & 0x00ff000000000000) >> 48) as u8;
    buf[2] = ((n & 0x0000ff0000000000) >> 40) as u8;
    buf[3] = ((n & 0x000000ff00000000) >> 32) as u8;
    buf[4] = ((n & 0x00000000ff000000) >> 24) as u8;
    buf[5] = ((n & 0x0000000000ff0000) >> 16) as u8;
    buf[6] = ((n & 0x000000000000ff00) >>  8) as u8;
    buf[7] =  (n & 0x00000000000000ff)        as u8;""", """    buf.copy_from_slice(&n.to_be_bytes());""")]),
    dict(name='b-nonce-xor-loop', props=['C04', 'C02'],
         edits=[(AEAD, """    // XOR the base nonce bytes with the sequence bytes
    let new_nonce_iter = base_nonce
        .0
        .iter()
        .zip(seq_buf.0.iter())
        .map(|(nonce_byte, seq_byte)| nonce_byte ^ seq_byte);

    // This cannot fail, as the length of AeadNonce<A> is precisely the length of Seq
    AeadNonce(GenericArray::from_exact_iter(new_nonce_iter).unwrap())""", """    // XOR the base nonce bytes with the sequence bytes
    for i in 0..nonce_size {
        seq_buf.0[i] ^= base_nonce.0[i];
    }
    seq_buf""")]),
    dict(name='b-open-tag-via-from-bytes', props=['C05', 'C06', 'C14', 'C13'],
         edits=[(AEAD, """        let tag = {
            let mut t = <AeadTag<A> as Default>::default();
            t.0.copy_from_slice(tag_slice);
            t
        };""", """        let tag = AeadTag::<A>::from_bytes(tag_slice)?;""")]),
    dict(name='b-unrelated-additions', props=['C%02d' % i for i in range(1, 19)],
         edits=[(UTIL, "/// Writes a u16 to a bytestring in big-endian order. `buf.len()` MUST be 2", """/// Returns the length of the full suite id (new, unrelated helper)
pub(crate) fn full_suite_id_len() -> usize {
    core::mem::size_of::<FullSuiteId>()
}

/// Writes a u16 to a bytestring in big-endian order. `buf.len()` MUST be 2"""),
                (SETUP, "/// Secret generated in `derive_enc_ctx` and stored in `AeadCtx`", """// A comment block moved here.
//
// More comments.

/// Secret generated in `derive_enc_ctx` and stored in `AeadCtx`"""),
                ("src/lib.rs", "/// Implemented by types that have a fixed-length byte representation", """/// The version of the HPKE specification implemented by this crate (new public constant)
pub const HPKE_RFC: u32 = 9180;

/// Implemented by types that have a fixed-length byte representation""")]),
    dict(name='b-reformatted-seal', props=['C%02d' % i for i in range(1, 19)],
         edits=[(AEAD, """        let msg_len = plaintext.len();
        let tag_len = AeadTag::<A>::size();

        // Make a buffer that can hold a ciphertext + tag. Copy in the plaintext
        let mut buf = vec![0u8; msg_len + tag_len];
        buf[..msg_len].copy_from_slice(plaintext);""", """        let tag_len = AeadTag::<A>::size();
        let msg_len = plaintext.len();
        // Make a buffer that can hold a ciphertext + tag. Copy in the plaintext
        let total = msg_len + tag_len;
        let mut buf = vec![0u8; total];
        buf[..msg_len].copy_from_slice(plaintext);""")]),
    dict(name='b-seal-to-vec-extend', props=['C01', 'C04', 'C06', 'C13', 'C14'],
         edits=[(AEAD, """        let msg_len = plaintext.len();
        let tag_len = AeadTag::<A>::size();

        // Make a buffer that can hold a ciphertext + tag. Copy in the plaintext
        let mut buf = vec![0u8; msg_len + tag_len];
        buf[..msg_len].copy_from_slice(plaintext);

        // Seal with a detached tag
        let tag = self.seal_in_place_detached(&mut buf[..plaintext.len()], aad)?;
        // Then append the tag to the end of the buffer. The buffer is now the auth'd ciphertext
        buf[msg_len..msg_len + tag_len].copy_from_slice(&tag.0);

        Ok(buf)""", """        let mut buf = plaintext.to_vec();
        // Seal with a detached tag
        let tag = self.seal_in_place_detached(&mut buf, aad)?;
        // Then append the tag to the end of the buffer. The buffer is now the auth'd ciphertext
        buf.extend_from_slice(&tag.0);

        Ok(buf)""")]),
    dict(name='b-pskbundle-slice-patterns', props=['C15'],
         edits=[(OPMODE, """        if (psk.is_empty() && psk_id.is_empty()) || (!psk.is_empty() && !psk_id.is_empty()) {
            Ok(PskBundle { psk, psk_id })
        } else {
            Err(HpkeError::InvalidPskBundle)
        }""", """        match (psk, psk_id) {
            ([], [_, ..]) | ([_, ..], []) => Err(HpkeError::InvalidPskBundle),
            _ => Ok(PskBundle { psk, psk_id }),
        }""")]),
    dict(name='b-open-explicit-length-guard', props=['C01', 'C05', 'C06', 'C13', 'C14'],
         edits=[(AEAD, """        let msg_len = ciphertext
            .len()
            .checked_sub(tag_len)
            .ok_or(HpkeError::OpenError)?;""", """        if ciphertext.len() < tag_len {
            return Err(HpkeError::OpenError);
        }
        let msg_len = ciphertext.len() - tag_len;""")]),
    dict(name='b-gen-keypair-ikm-zeroizing', props=['C02', 'C03', 'C13', 'C16', 'C17', 'C18'],
         edits=[('src/kem.rs', "use zeroize::Zeroize;", "use zeroize::{Zeroize, Zeroizing};"),
                ('src/kem.rs', """        let mut ikm: GenericArray<u8, <Self::PrivateKey as Serializable>::OutputSize> =
            GenericArray::default();""", """        let mut ikm: Zeroizing<GenericArray<u8, <Self::PrivateKey as Serializable>::OutputSize>> =
            Zeroizing::new(GenericArray::default());"""),
                ('Cargo.toml', 'generic-array = { version = "0.14", default-features = false }',
                 'generic-array = { version = "0.14", default-features = false, features = ["zeroize"] }')]),
    dict(name='b-x25519-explicit-len-guard', props=['C09', 'C12', 'C13'],
         edits=[(X25519, '        // Pubkeys must be 32 bytes\n        enforce_equal_len(Self::OutputSize::to_usize(), encoded.len())?;\n\n        // Copy to a fixed-size array', '        // Pubkeys must be 32 bytes\n        if encoded.len() != 32 {\n            return Err(HpkeError::IncorrectInputLength(32, encoded.len()));\n        }\n\n        // Copy to a fixed-size array')]),
    dict(name='b-nist-explicit-len-guard-eq', props=['C09', 'C12', 'C13'],
         edits=[(NIST, '                    // Check the length\n                    enforce_equal_len(Self::OutputSize::to_usize(), encoded.len())?;\n', '                    // Check the length\n                    if !(encoded.len() == Self::size()) {\n                        return Err(HpkeError::IncorrectInputLength(Self::size(), encoded.len()));\n                    }\n')]),
    dict(name='b-encoder-range-index-loop', props=['C02', 'C04', 'C05', 'C06', 'C13'],
         edits=[(UTIL, '    assert_eq!(buf.len(), 8);\n    buf[0] = ((n & 0xff00000000000000) >> 56) as u8;\n    buf[1] = ((n & 0x00ff000000000000) >> 48) as u8;\n    buf[2] = ((n & 0x0000ff0000000000) >> 40) as u8;\n    buf[3] = ((n & 0x000000ff00000000) >> 32) as u8;\n    buf[4] = ((n & 0x00000000ff000000) >> 24) as u8;\n    buf[5] = ((n & 0x0000000000ff0000) >> 16) as u8;\n    buf[6] = ((n & 0x000000000000ff00) >>  8) as u8;\n    buf[7] =  (n & 0x00000000000000ff)        as u8;', '    assert_eq!(buf.len(), 8);\n    for i in 0..buf.len() {\n        buf[i] = (n >> (56 - 8 * i)) as u8;\n    }')]),
    dict(name='b-open-assert-parts-add-up', props=['C05', 'C13', 'C14'],
         edits=[(AEAD, '        let (ciphertext, tag_slice) = ciphertext.split_at(msg_len);\n', '        let (ciphertext, tag_slice) = ciphertext.split_at(msg_len);\n        assert_eq!(ciphertext.len() + tag_slice.len(), msg_len + tag_len);\n        debug_assert!(tag_slice.len() <= 64);\n')]),
]
